// stretto-facts: a rustc_private driver that serialises the MIR of the crate under
// analysis (mir_built, i.e. before any transformation, one body per fn / closure /
// async block) plus crate-level facts as one JSON file per (crate, configuration).
//
// It is injected with RUSTC_WORKSPACE_WRAPPER under `cargo +nightly check`; it never
// runs any code of the analysed crate.  Output: $STRETTO_FACTS_OUT (a file path).
#![feature(rustc_private)]
#![allow(clippy::all)]

extern crate rustc_abi;
extern crate rustc_data_structures;
extern crate rustc_driver;
extern crate rustc_hir;
extern crate rustc_interface;
extern crate rustc_middle;
extern crate rustc_session;
extern crate rustc_span;

use rustc_data_structures::steal::Steal;
use rustc_hir::def::DefKind;
use rustc_hir::def_id::{DefId, LocalDefId};
use rustc_middle::mir::*;
use rustc_middle::ty::print::PrintTraitRefExt;
use rustc_middle::ty::{self, Ty, TyCtxt};
use rustc_span::Span;
use std::cell::Cell;
use std::fmt::Write as _;
use std::sync::Mutex;

type MirBuiltFn = for<'tcx> fn(TyCtxt<'tcx>, LocalDefId) -> &'tcx Steal<Body<'tcx>>;

static BODIES: Mutex<Vec<String>> = Mutex::new(Vec::new());
static ORIG: Mutex<Option<MirBuiltFn>> = Mutex::new(None);

thread_local! {
    static IN_SER: Cell<u32> = const { Cell::new(0) };
}

fn esc(s: &str) -> String {
    let mut o = String::with_capacity(s.len() + 2);
    o.push('"');
    for c in s.chars() {
        match c {
            '"' => o.push_str("\\\""),
            '\\' => o.push_str("\\\\"),
            '\n' => o.push_str("\\n"),
            '\r' => o.push_str("\\r"),
            '\t' => o.push_str("\\t"),
            c if (c as u32) < 0x20 => {
                let _ = write!(o, "\\u{:04x}", c as u32);
            }
            c => o.push(c),
        }
    }
    o.push('"');
    o
}

fn span_json(tcx: TyCtxt<'_>, sp: Span) -> String {
    let sm = tcx.sess.source_map();
    let exp = sp.from_expansion();
    let lo = sm.lookup_char_pos(sp.lo());
    let hi = sm.lookup_char_pos(sp.hi());
    let file = match &lo.file.name {
        rustc_span::FileName::Real(r) => match r.local_path() {
            Some(p) => p.to_string_lossy().to_string(),
            None => format!("{:?}", r),
        },
        other => format!("{:?}", other),
    };
    // call-site of the outermost macro expansion, if any
    let cs = sp.source_callsite();
    let cs_s = if exp {
        let c = sm.lookup_char_pos(cs.lo());
        let cf = match &c.file.name {
            rustc_span::FileName::Real(r) => match r.local_path() {
                Some(p) => p.to_string_lossy().to_string(),
                None => format!("{:?}", r),
            },
            other => format!("{:?}", other),
        };
        format!(",\"cs\":{}", esc(&format!("{}:{}", cf, c.line)))
    } else {
        String::new()
    };
    // name of the macro this span was expanded from (innermost)
    let mac = if exp {
        let ed = sp.ctxt().outer_expn_data();
        match ed.kind {
            rustc_span::ExpnKind::Macro(_, name) => format!(",\"mac\":{}", esc(name.as_str())),
            rustc_span::ExpnKind::Desugaring(d) => format!(",\"desugar\":{}", esc(&format!("{:?}", d))),
            _ => String::new(),
        }
    } else {
        String::new()
    };
    format!(
        "{{\"f\":{},\"l\":{},\"c\":{},\"l2\":{},\"c2\":{},\"exp\":{}{}{}}}",
        esc(&file),
        lo.line,
        lo.col.0 + 1,
        hi.line,
        hi.col.0 + 1,
        exp,
        cs_s,
        mac
    )
}

fn defpath(tcx: TyCtxt<'_>, did: DefId) -> String {
    ty::print::with_no_trimmed_paths!(tcx.def_path_str(did))
}

fn ty_str<'tcx>(t: Ty<'tcx>) -> String {
    ty::print::with_no_trimmed_paths!(format!("{}", t))
}

/// def paths of closures / coroutines mentioned in a type
fn closures_in_ty<'tcx>(tcx: TyCtxt<'tcx>, t: Ty<'tcx>, out: &mut Vec<String>) {
    for arg in t.walk() {
        if let Some(t) = arg.as_type() {
            match t.kind() {
                ty::Closure(d, _) | ty::Coroutine(d, _) | ty::CoroutineClosure(d, _) => {
                    let p = defpath(tcx, *d);
                    if !out.contains(&p) {
                        out.push(p);
                    }
                }
                _ => {}
            }
        }
    }
}

struct Ser<'a, 'tcx> {
    tcx: TyCtxt<'tcx>,
    body: &'a Body<'tcx>,
    def: LocalDefId,
    env: ty::TypingEnv<'tcx>,
}

impl<'a, 'tcx> Ser<'a, 'tcx> {
    fn place(&self, p: &Place<'tcx>) -> String {
        let mut s = format!("{{\"l\":{},\"p\":[", p.local.as_usize());
        let mut pty = PlaceTy::from_ty(self.body.local_decls[p.local].ty);
        let mut first = true;
        for elem in p.projection.iter() {
            if !first {
                s.push(',');
            }
            first = false;
            match elem {
                ProjectionElem::Deref => s.push_str("\"*\""),
                ProjectionElem::Field(f, _) => {
                    // field name if ADT
                    let mut name = String::new();
                    let mut owner = String::new();
                    if let ty::Adt(adt, _) = pty.ty.kind() {
                        owner = defpath(self.tcx, adt.did());
                        let v = match pty.variant_index {
                            Some(v) => Some(v),
                            None => {
                                if adt.is_struct() || adt.is_union() {
                                    Some(rustc_abi::FIRST_VARIANT)
                                } else {
                                    None
                                }
                            }
                        };
                        if let Some(v) = v {
                            if let Some(fd) = adt.variant(v).fields.get(f) {
                                name = fd.name.to_string();
                            }
                        }
                    }
                    let _ = write!(s, "{}", esc(&format!(".{}:{}@{}", f.as_usize(), name, owner)));
                }
                ProjectionElem::Downcast(name, v) => {
                    let n = match name {
                        Some(n) => n.to_string(),
                        None => format!("{}", v.as_usize()),
                    };
                    let _ = write!(s, "{}", esc(&format!("as {}", n)));
                }
                ProjectionElem::Index(l) => {
                    let _ = write!(s, "\"[_{}]\"", l.as_usize());
                }
                ProjectionElem::ConstantIndex { offset, from_end, .. } => {
                    let _ = write!(s, "\"[c{}{}]\"", if from_end { "-" } else { "" }, offset);
                }
                ProjectionElem::Subslice { from, to, from_end } => {
                    let _ = write!(s, "\"[{}..{}{}]\"", from, if from_end { "-" } else { "" }, to);
                }
                ProjectionElem::OpaqueCast(_) => s.push_str("\"opaque\""),
                ProjectionElem::UnwrapUnsafeBinder(_) => s.push_str("\"unbinder\""),
            }
            pty = pty.projection_ty(self.tcx, elem);
        }
        s.push_str("]}");
        s
    }

    fn place_ty(&self, p: &Place<'tcx>) -> Ty<'tcx> {
        p.ty(&self.body.local_decls, self.tcx).ty
    }

    fn constant(&self, c: &ConstOperand<'tcx>) -> String {
        let ty = c.const_.ty();
        let mut s = format!("{{\"k\":\"const\",\"ty\":{}", esc(&ty_str(ty)));
        match ty.kind() {
            ty::FnDef(did, args) => {
                let _ = write!(s, ",\"fn\":{}", esc(&defpath(self.tcx, *did)));
                let _ = write!(s, ",\"fnargs\":{}", esc(&ty::print::with_no_trimmed_paths!(format!("{:?}", args))));
            }
            _ => {}
        }
        // scalar value
        let mut done = false;
        if ty.is_integral() || ty.is_bool() || ty.is_char() {
            if let Some(si) = c.const_.try_eval_scalar_int(self.tcx, self.env) {
                let size = si.size();
                let bits = si.to_bits(size);
                let v: i128 = if ty.is_signed() {
                    let sh = 128 - size.bits();
                    ((bits as i128) << sh) >> sh
                } else {
                    bits as i128
                };
                let _ = write!(s, ",\"v\":{}", v);
                done = true;
            }
        }
        if !done {
            // unevaluated named constant: give its def path
            if let Const::Unevaluated(u, _) = c.const_ {
                let _ = write!(s, ",\"named\":{}", esc(&defpath(self.tcx, u.def)));
            }
        }
        // pointer to a static: name the static
        if let Const::Val(ConstValue::Scalar(rustc_middle::mir::interpret::Scalar::Ptr(ptr, _)), _) = c.const_ {
            let aid = ptr.provenance.alloc_id();
            if let Some(rustc_middle::mir::interpret::GlobalAlloc::Static(did)) = self.tcx.try_get_global_alloc(aid) {
                let _ = write!(s, ",\"static\":{}", esc(&defpath(self.tcx, did)));
            }
        }
        let disp = ty::print::with_no_trimmed_paths!(format!("{}", c.const_));
        let _ = write!(s, ",\"s\":{}}}", esc(&disp));
        s
    }

    fn operand(&self, o: &Operand<'tcx>) -> String {
        match o {
            Operand::Copy(p) => format!("{{\"k\":\"copy\",\"pl\":{}}}", self.place(p)),
            Operand::Move(p) => format!("{{\"k\":\"move\",\"pl\":{}}}", self.place(p)),
            Operand::Constant(c) => self.constant(c),
            #[allow(unreachable_patterns)]
            other => format!("{{\"k\":\"otherop\",\"s\":{}}}", esc(&format!("{:?}", other))),
        }
    }

    fn rvalue(&self, r: &Rvalue<'tcx>) -> String {
        match r {
            Rvalue::Use(op, _) => format!("{{\"k\":\"use\",\"op\":{}}}", self.operand(op)),
            Rvalue::Repeat(op, n) => format!(
                "{{\"k\":\"repeat\",\"op\":{},\"n\":{}}}",
                self.operand(op),
                esc(&format!("{}", n))
            ),
            Rvalue::Ref(_, bk, p) => {
                let m = match bk {
                    BorrowKind::Shared => "shared",
                    BorrowKind::Fake(_) => "fake",
                    BorrowKind::Mut { .. } => "mut",
                };
                format!("{{\"k\":\"ref\",\"bk\":\"{}\",\"pl\":{}}}", m, self.place(p))
            }
            Rvalue::RawPtr(k, p) => format!(
                "{{\"k\":\"rawptr\",\"bk\":{},\"pl\":{}}}",
                esc(&format!("{:?}", k)),
                self.place(p)
            ),
            Rvalue::Cast(ck, op, ty) => format!(
                "{{\"k\":\"cast\",\"ck\":{},\"op\":{},\"ty\":{}}}",
                esc(&format!("{:?}", ck)),
                self.operand(op),
                esc(&ty_str(*ty))
            ),
            Rvalue::BinaryOp(bop, ab) => format!(
                "{{\"k\":\"binop\",\"op\":\"{:?}\",\"a\":{},\"b\":{}}}",
                bop,
                self.operand(&ab.0),
                self.operand(&ab.1)
            ),
            Rvalue::UnaryOp(uop, a) => {
                format!("{{\"k\":\"unop\",\"op\":{},\"a\":{}}}", esc(&format!("{:?}", uop)), self.operand(a))
            }
            Rvalue::Discriminant(p) => {
                let t = self.place_ty(p);
                format!("{{\"k\":\"discr\",\"pl\":{},\"ty\":{}}}", self.place(p), esc(&ty_str(t)))
            }
            Rvalue::Aggregate(kind, fields) => {
                let mut s = String::from("{\"k\":\"agg\"");
                match &**kind {
                    AggregateKind::Array(_) => s.push_str(",\"ak\":\"array\""),
                    AggregateKind::Tuple => s.push_str(",\"ak\":\"tuple\""),
                    AggregateKind::Adt(did, vi, _, _, _) => {
                        let adt = self.tcx.adt_def(*did);
                        let v = adt.variant(*vi);
                        let _ = write!(
                            s,
                            ",\"ak\":\"adt\",\"adt\":{},\"variant\":{},\"fnames\":[",
                            esc(&defpath(self.tcx, *did)),
                            esc(v.name.as_str())
                        );
                        for (i, f) in v.fields.iter().enumerate() {
                            if i > 0 {
                                s.push(',');
                            }
                            s.push_str(&esc(f.name.as_str()));
                        }
                        s.push(']');
                    }
                    AggregateKind::Closure(did, _) => {
                        let _ = write!(s, ",\"ak\":\"closure\",\"def\":{}", esc(&defpath(self.tcx, *did)));
                    }
                    AggregateKind::Coroutine(did, _) => {
                        let _ = write!(s, ",\"ak\":\"coroutine\",\"def\":{}", esc(&defpath(self.tcx, *did)));
                    }
                    AggregateKind::CoroutineClosure(did, _) => {
                        let _ = write!(s, ",\"ak\":\"coroutine_closure\",\"def\":{}", esc(&defpath(self.tcx, *did)));
                    }
                    AggregateKind::RawPtr(_, _) => s.push_str(",\"ak\":\"rawptr\""),
                }
                s.push_str(",\"fields\":[");
                for (i, f) in fields.iter().enumerate() {
                    if i > 0 {
                        s.push(',');
                    }
                    s.push_str(&self.operand(f));
                }
                s.push_str("]}");
                s
            }
            Rvalue::CopyForDeref(p) => format!("{{\"k\":\"use\",\"op\":{{\"k\":\"copy\",\"pl\":{}}}}}", self.place(p)),
            other => format!("{{\"k\":\"other\",\"s\":{}}}", esc(&format!("{:?}", other))),
        }
    }

    fn callee(&self, func: &Operand<'tcx>) -> String {
        let mut s = String::new();
        let fty = func.ty(&self.body.local_decls, self.tcx);
        match fty.kind() {
            ty::FnDef(did, args) => {
                let _ = write!(s, "\"callee\":{}", esc(&defpath(self.tcx, *did)));
                let _ = write!(s, ",\"item\":{}", esc(self.tcx.item_name(*did).as_str()));
                // generic args
                s.push_str(",\"gargs\":[");
                let mut first = true;
                let mut clos = Vec::new();
                for a in args.iter() {
                    if let Some(t) = a.as_type() {
                        if !first {
                            s.push(',');
                        }
                        first = false;
                        s.push_str(&esc(&ty_str(t)));
                        closures_in_ty(self.tcx, t, &mut clos);
                    }
                }
                s.push(']');
                if !clos.is_empty() {
                    s.push_str(",\"closures\":[");
                    for (i, c) in clos.iter().enumerate() {
                        if i > 0 {
                            s.push(',');
                        }
                        s.push_str(&esc(c));
                    }
                    s.push(']');
                }
                // trait / impl parent
                if let Some(tr) = self.tcx.trait_of_assoc(*did) {
                    let _ = write!(s, ",\"trait\":{}", esc(&defpath(self.tcx, tr)));
                }
                // resolution
                let resolved = std::panic::catch_unwind(std::panic::AssertUnwindSafe(|| {
                    ty::Instance::try_resolve(self.tcx, self.env, *did, args)
                }));
                match resolved {
                    Ok(Ok(Some(inst))) => {
                        let rd = inst.def_id();
                        let _ = write!(s, ",\"resolved\":{}", esc(&defpath(self.tcx, rd)));
                        let kind = match inst.def {
                            ty::InstanceKind::Item(_) => "item",
                            ty::InstanceKind::Virtual(..) => "virtual",
                            ty::InstanceKind::ClosureOnceShim { .. } => "closure_once_shim",
                            ty::InstanceKind::FnPtrShim(..) => "fnptr_shim",
                            ty::InstanceKind::DropGlue(..) => "drop_glue",
                            ty::InstanceKind::CloneShim(..) => "clone_shim",
                            ty::InstanceKind::Intrinsic(_) => "intrinsic",
                            _ => "othershim",
                        };
                        let _ = write!(s, ",\"rkind\":\"{}\"", kind);
                        if rd.is_local() {
                            s.push_str(",\"rlocal\":true");
                        }
                    }
                    _ => {
                        s.push_str(",\"resolved\":null");
                    }
                }
                if did.is_local() {
                    s.push_str(",\"local\":true");
                }
            }
            _ => {
                let _ = write!(s, "\"callee\":null,\"fnop\":{},\"fnty\":{}", self.operand(func), esc(&ty_str(fty)));
            }
        }
        s
    }

    fn terminator(&self, t: &Terminator<'tcx>) -> String {
        let sp = span_json(self.tcx, t.source_info.span);
        match &t.kind {
            TerminatorKind::Goto { target } => format!("{{\"k\":\"goto\",\"t\":{},\"sp\":{}}}", target.as_usize(), sp),
            TerminatorKind::SwitchInt { discr, targets } => {
                let mut s = format!("{{\"k\":\"switch\",\"d\":{},\"ty\":{},\"tg\":[", self.operand(discr),
                    esc(&ty_str(discr.ty(&self.body.local_decls, self.tcx))));
                let mut first = true;
                for (v, bb) in targets.iter() {
                    if !first {
                        s.push(',');
                    }
                    first = false;
                    let _ = write!(s, "[{},{}]", v, bb.as_usize());
                }
                let _ = write!(s, "],\"o\":{},\"sp\":{}}}", targets.otherwise().as_usize(), sp);
                s
            }
            TerminatorKind::UnwindResume => format!("{{\"k\":\"resume\",\"sp\":{}}}", sp),
            TerminatorKind::UnwindTerminate(_) => format!("{{\"k\":\"terminate\",\"sp\":{}}}", sp),
            TerminatorKind::Return => format!("{{\"k\":\"return\",\"sp\":{}}}", sp),
            TerminatorKind::Unreachable => format!("{{\"k\":\"unreachable\",\"sp\":{}}}", sp),
            TerminatorKind::Drop { place, target, unwind, replace, .. } => {
                let uw = match unwind {
                    UnwindAction::Cleanup(b) => format!("{}", b.as_usize()),
                    _ => "null".to_string(),
                };
                format!(
                    "{{\"k\":\"drop\",\"pl\":{},\"ty\":{},\"t\":{},\"uw\":{},\"replace\":{},\"sp\":{}}}",
                    self.place(place),
                    esc(&ty_str(self.place_ty(place))),
                    target.as_usize(),
                    uw,
                    replace,
                    sp
                )
            }
            TerminatorKind::Call { func, args, destination, target, unwind, fn_span, .. } => {
                let mut s = format!("{{\"k\":\"call\",{}", self.callee(func));
                s.push_str(",\"args\":[");
                for (i, a) in args.iter().enumerate() {
                    if i > 0 {
                        s.push(',');
                    }
                    s.push_str(&self.operand(&a.node));
                }
                s.push_str("],\"argtys\":[");
                for (i, a) in args.iter().enumerate() {
                    if i > 0 {
                        s.push(',');
                    }
                    s.push_str(&esc(&ty_str(a.node.ty(&self.body.local_decls, self.tcx))));
                }
                let uw = match unwind {
                    UnwindAction::Cleanup(b) => format!("{}", b.as_usize()),
                    _ => "null".to_string(),
                };
                let _ = write!(
                    s,
                    "],\"dest\":{},\"destty\":{},\"t\":{},\"uw\":{},\"fsp\":{},\"sp\":{}}}",
                    self.place(destination),
                    esc(&ty_str(self.place_ty(destination))),
                    match target {
                        Some(t) => format!("{}", t.as_usize()),
                        None => "null".to_string(),
                    },
                    uw,
                    span_json(self.tcx, *fn_span),
                    sp
                );
                s
            }
            TerminatorKind::TailCall { func, .. } => {
                format!("{{\"k\":\"tailcall\",{},\"sp\":{}}}", self.callee(func), sp)
            }
            TerminatorKind::Assert { cond, expected, msg, target, .. } => {
                let kind = match &**msg {
                    AssertKind::BoundsCheck { len, index } => format!(
                        "\"ak\":\"bounds\",\"len\":{},\"index\":{}",
                        self.operand(len),
                        self.operand(index)
                    ),
                    AssertKind::Overflow(op, a, b) => format!(
                        "\"ak\":\"overflow\",\"op\":\"{:?}\",\"a\":{},\"b\":{}",
                        op,
                        self.operand(a),
                        self.operand(b)
                    ),
                    AssertKind::OverflowNeg(a) => format!("\"ak\":\"overflow_neg\",\"a\":{}", self.operand(a)),
                    AssertKind::DivisionByZero(a) => format!("\"ak\":\"div_zero\",\"a\":{}", self.operand(a)),
                    AssertKind::RemainderByZero(a) => format!("\"ak\":\"rem_zero\",\"a\":{}", self.operand(a)),
                    other => format!("\"ak\":\"other\",\"s\":{}", esc(&format!("{:?}", other))),
                };
                format!(
                    "{{\"k\":\"assert\",\"cond\":{},\"expected\":{},{},\"t\":{},\"sp\":{}}}",
                    self.operand(cond),
                    expected,
                    kind,
                    target.as_usize(),
                    sp
                )
            }
            TerminatorKind::Yield { value, resume, resume_arg, drop } => format!(
                "{{\"k\":\"yield\",\"v\":{},\"t\":{},\"resume_arg\":{},\"drop\":{},\"sp\":{}}}",
                self.operand(value),
                resume.as_usize(),
                self.place(resume_arg),
                match drop {
                    Some(d) => format!("{}", d.as_usize()),
                    None => "null".to_string(),
                },
                sp
            ),
            TerminatorKind::CoroutineDrop => format!("{{\"k\":\"coroutine_drop\",\"sp\":{}}}", sp),
            TerminatorKind::FalseEdge { real_target, imaginary_target } => format!(
                "{{\"k\":\"falseedge\",\"t\":{},\"imag\":{},\"sp\":{}}}",
                real_target.as_usize(),
                imaginary_target.as_usize(),
                sp
            ),
            TerminatorKind::FalseUnwind { real_target, .. } => {
                format!("{{\"k\":\"falseunwind\",\"t\":{},\"sp\":{}}}", real_target.as_usize(), sp)
            }
            TerminatorKind::InlineAsm { .. } => format!("{{\"k\":\"asm\",\"sp\":{}}}", sp),
        }
    }

    fn body_json(&self, phase: &str) -> String {
        let tcx = self.tcx;
        let did = self.def.to_def_id();
        let kind = tcx.def_kind(did);
        let mut s = String::with_capacity(16 * 1024);
        let _ = write!(s, "{{\"phase\":{},\"path\":{}", esc(phase), esc(&defpath(tcx, did)));
        let _ = write!(s, ",\"vpath\":{}", esc(&tcx.def_path(did).to_string_no_crate_verbose()));
        let _ = write!(s, ",\"defkind\":{}", esc(&format!("{:?}", kind)));
        let name = tcx.opt_item_name(did).map(|n| n.to_string()).unwrap_or_default();
        let _ = write!(s, ",\"name\":{}", esc(&name));
        // coroutine kind
        if let Some(ck) = tcx.coroutine_kind(did) {
            let _ = write!(s, ",\"coroutine\":{}", esc(&format!("{:?}", ck)));
        }
        // parent item (for closures: the enclosing fn)
        let parent = tcx.parent(did);
        let _ = write!(s, ",\"parent\":{}", esc(&defpath(tcx, parent)));
        // typeck root (outermost fn)
        let root = tcx.typeck_root_def_id(did);
        let _ = write!(s, ",\"root\":{}", esc(&defpath(tcx, root)));
        // impl self type / trait of the root's parent impl
        let rparent = tcx.parent(root);
        if let DefKind::Impl { of_trait } = tcx.def_kind(rparent) {
            let st = tcx.type_of(rparent).instantiate_identity().skip_norm_wip();
            let _ = write!(s, ",\"impl_self\":{}", esc(&ty_str(st)));
            if of_trait {
                let tr = tcx.impl_trait_ref(rparent).instantiate_identity().skip_norm_wip();
                let _ = write!(s, ",\"impl_trait\":{}", esc(&ty::print::with_no_trimmed_paths!(format!("{}", tr.print_only_trait_path()))));
            }
        }
        if matches!(kind, DefKind::Fn | DefKind::AssocFn) {
            let vis = tcx.visibility(did);
            let _ = write!(s, ",\"vis\":{}", esc(&format!("{:?}", vis)));
            let sig = tcx.fn_sig(did).instantiate_identity().skip_norm_wip();
            let _ = write!(s, ",\"sig\":{}", esc(&ty::print::with_no_trimmed_paths!(format!("{}", sig))));
            let _ = write!(s, ",\"asyncness\":{}", tcx.asyncness(did).is_async());
        }
        let _ = write!(s, ",\"span\":{}", span_json(tcx, self.body.span));
        let _ = write!(s, ",\"arg_count\":{}", self.body.arg_count);
        // locals
        s.push_str(",\"locals\":[");
        for (i, (_l, d)) in self.body.local_decls.iter_enumerated().enumerate() {
            if i > 0 {
                s.push(',');
            }
            let user = if phase == "built" { d.is_user_variable() } else { false };
            let _ = write!(
                s,
                "{{\"ty\":{},\"mut\":{},\"user\":{}}}",
                esc(&ty_str(d.ty)),
                d.mutability.is_mut(),
                user
            );
        }
        s.push_str("],\"debug\":[");
        for (i, v) in self.body.var_debug_info.iter().enumerate() {
            if i > 0 {
                s.push(',');
            }
            let val = match &v.value {
                VarDebugInfoContents::Place(p) => format!("\"pl\":{}", self.place(p)),
                VarDebugInfoContents::Const(c) => format!("\"const\":{}", self.constant(c)),
            };
            let _ = write!(
                s,
                "{{\"name\":{},{},\"arg\":{}}}",
                esc(v.name.as_str()),
                val,
                match v.argument_index {
                    Some(a) => format!("{}", a),
                    None => "null".to_string(),
                }
            );
        }
        s.push_str("],\"blocks\":[");
        for (i, (_bb, data)) in self.body.basic_blocks.iter_enumerated().enumerate() {
            if i > 0 {
                s.push(',');
            }
            let _ = write!(s, "{{\"cleanup\":{},\"stmts\":[", data.is_cleanup);
            let mut first = true;
            for st in data.statements.iter() {
                let j = match &st.kind {
                    StatementKind::Assign(b) => {
                        let (p, r) = &**b;
                        Some(format!(
                            "{{\"k\":\"assign\",\"pl\":{},\"rv\":{},\"sp\":{}}}",
                            self.place(p),
                            self.rvalue(r),
                            span_json(tcx, st.source_info.span)
                        ))
                    }
                    StatementKind::SetDiscriminant { place, variant_index } => Some(format!(
                        "{{\"k\":\"setdiscr\",\"pl\":{},\"v\":{}}}",
                        self.place(place),
                        variant_index.as_usize()
                    )),
                    StatementKind::StorageLive(l) => Some(format!("{{\"k\":\"live\",\"l\":{}}}", l.as_usize())),
                    StatementKind::StorageDead(l) => Some(format!("{{\"k\":\"dead\",\"l\":{}}}", l.as_usize())),
                    StatementKind::Intrinsic(i) => Some(format!("{{\"k\":\"intrinsic\",\"s\":{}}}", esc(&format!("{:?}", i)))),
                    _ => None,
                };
                if let Some(j) = j {
                    if !first {
                        s.push(',');
                    }
                    first = false;
                    s.push_str(&j);
                }
            }
            s.push_str("],\"term\":");
            match &data.terminator {
                Some(t) => s.push_str(&self.terminator(t)),
                None => s.push_str("null"),
            }
            s.push('}');
        }
        s.push_str("]}");
        s
    }
}

fn serialise_body<'tcx>(tcx: TyCtxt<'tcx>, def: LocalDefId, body: &Body<'tcx>, phase: &str) -> Option<String> {
    let did = def.to_def_id();
    let kind = tcx.def_kind(did);
    // only executable code items: fns, methods, closures (incl. coroutines). Skip consts/statics/anon consts.
    // named constants too: their initialiser says what `NO_TTL` or `SHARD_MASK` stand for
    if !matches!(kind, DefKind::Fn | DefKind::AssocFn | DefKind::Closure | DefKind::SyntheticCoroutineBody | DefKind::Static { .. } | DefKind::Const { .. } | DefKind::AssocConst { .. }) {
        return None;
    }
    let env = ty::TypingEnv::post_analysis(tcx, did);
    let ser = Ser { tcx, body, def, env };
    Some(ser.body_json(phase))
}

fn my_mir_built<'tcx>(tcx: TyCtxt<'tcx>, def: LocalDefId) -> &'tcx Steal<Body<'tcx>> {
    let orig = ORIG.lock().unwrap().expect("orig provider");
    let r = orig(tcx, def);
    let depth = IN_SER.with(|c| {
        let d = c.get();
        c.set(d + 1);
        d
    });
    let out = {
        let b = r.borrow();
        serialise_body(tcx, def, &b, "built")
    };
    IN_SER.with(|c| c.set(depth));
    if let Some(j) = out {
        BODIES.lock().unwrap().push(j);
    }
    r
}

struct Cb {
    out: Option<String>,
    config_name: String,
}

impl rustc_driver::Callbacks for Cb {
    fn config(&mut self, config: &mut rustc_interface::Config) {
        if self.out.is_some() {
            config.override_queries = Some(|_sess, providers| {
                *ORIG.lock().unwrap() = Some(providers.queries.mir_built);
                providers.queries.mir_built = my_mir_built;
            });
        }
    }

    fn after_analysis<'tcx>(&mut self, _c: &rustc_interface::interface::Compiler, tcx: TyCtxt<'tcx>) -> rustc_driver::Compilation {
        let Some(out) = self.out.clone() else {
            return rustc_driver::Compilation::Continue;
        };
        // make sure every body has been built (analysis normally did it already)
        for def in tcx.hir_body_owners() {
            let kind = tcx.def_kind(def);
            if matches!(kind, DefKind::Fn | DefKind::AssocFn | DefKind::Closure | DefKind::Static { .. } | DefKind::Const { .. } | DefKind::AssocConst { .. }) {
                let _ = tcx.mir_built(def);
            }
        }
        let mut s = String::with_capacity(32 << 20);
        let krate = tcx.crate_name(rustc_hir::def_id::LOCAL_CRATE).to_string();
        let _ = write!(s, "{{\"crate\":{},\"config\":{},\"rustc\":{}", esc(&krate), esc(&self.config_name),
            esc(option_env!("CFG_VERSION").unwrap_or("nightly")));

        // ---- crate-level facts -------------------------------------------------
        // ADTs
        s.push_str(",\"adts\":{");
        let mut first = true;
        let mut consts = String::new();
        let mut impls = String::new();
        let mut fns = String::new();
        let mut cfirst = true;
        let mut ifirst = true;
        let mut ffirst = true;
        for id in tcx.hir_crate_items(()).definitions() {
            let did = id.to_def_id();
            let kind = tcx.def_kind(did);
            match kind {
                DefKind::Struct | DefKind::Enum | DefKind::Union => {
                    let adt = tcx.adt_def(did);
                    if !first {
                        s.push(',');
                    }
                    first = false;
                    let _ = write!(s, "{}:{{\"kind\":{},\"vis\":{},\"span\":{},\"variants\":[", esc(&defpath(tcx, did)),
                        esc(&format!("{:?}", kind)), esc(&format!("{:?}", tcx.visibility(did))), span_json(tcx, tcx.def_span(did)));
                    for (vi, v) in adt.variants().iter().enumerate() {
                        if vi > 0 {
                            s.push(',');
                        }
                        let _ = write!(s, "{{\"name\":{},\"fields\":[", esc(v.name.as_str()));
                        for (fi, f) in v.fields.iter().enumerate() {
                            if fi > 0 {
                                s.push(',');
                            }
                            let fty = tcx.type_of(f.did).instantiate_identity().skip_norm_wip();
                            let _ = write!(s, "{{\"name\":{},\"ty\":{},\"vis\":{}}}", esc(f.name.as_str()), esc(&ty_str(fty)),
                                esc(&format!("{:?}", tcx.visibility(f.did))));
                        }
                        s.push_str("]}");
                    }
                    s.push_str("]}");
                }
                DefKind::Const { .. } | DefKind::AssocConst { .. } => {
                    let ty = tcx.type_of(did).instantiate_identity().skip_norm_wip();
                    let mut val = String::from("null");
                    if ty.is_integral() || ty.is_bool() {
                        if tcx.generics_of(did).is_empty() {
                            if let Ok(cv) = tcx.const_eval_poly(did) {
                                if let Some(si) = cv.try_to_scalar_int() {
                                    let size = si.size();
                                    let bits = si.to_bits(size);
                                    let v: i128 = if ty.is_signed() {
                                        let sh = 128 - size.bits();
                                        ((bits as i128) << sh) >> sh
                                    } else {
                                        bits as i128
                                    };
                                    val = format!("{}", v);
                                }
                            }
                        }
                    }
                    if !cfirst {
                        consts.push(',');
                    }
                    cfirst = false;
                    let src = tcx.sess.source_map().span_to_snippet(tcx.def_span(did)).unwrap_or_default();
                    let _ = write!(consts, "{}:{{\"ty\":{},\"v\":{},\"span\":{},\"decl\":{}}}", esc(&defpath(tcx, did)), esc(&ty_str(ty)), val,
                        span_json(tcx, tcx.def_span(did)), esc(&src));
                }
                DefKind::Impl { of_trait } => {
                    let st = tcx.type_of(did).instantiate_identity().skip_norm_wip();
                    if !ifirst {
                        impls.push(',');
                    }
                    ifirst = false;
                    let tr = if of_trait {
                        let tr = tcx.impl_trait_ref(did).instantiate_identity().skip_norm_wip();
                        esc(&ty::print::with_no_trimmed_paths!(format!("{}", tr.print_only_trait_path())))
                    } else {
                        "null".to_string()
                    };
                    let mut items = String::new();
                    for (k, it) in tcx.associated_items(did).in_definition_order().enumerate() {
                        if k > 0 {
                            items.push(',');
                        }
                        items.push_str(&esc(it.name().as_str()));
                    }
                    let safety = if of_trait { format!("{:?}", tcx.impl_trait_header(did).safety) } else { "Safe".to_string() };
                    let _ = write!(impls, "{{\"self\":{},\"trait\":{},\"safety\":{},\"items\":[{}],\"span\":{}}}", esc(&ty_str(st)), tr,
                        esc(&safety), items, span_json(tcx, tcx.def_span(did)));
                }
                DefKind::Fn | DefKind::AssocFn => {
                    if !ffirst {
                        fns.push(',');
                    }
                    ffirst = false;
                    let has_body = tcx.hir_maybe_body_owned_by(id).is_some();
                    let eff_pub = tcx.effective_visibilities(()).is_reachable(id);
                    let _ = write!(fns, "{}:{{\"vis\":{},\"reachable\":{},\"has_body\":{},\"span\":{}}}", esc(&defpath(tcx, did)),
                        esc(&format!("{:?}", tcx.visibility(did))), eff_pub, has_body, span_json(tcx, tcx.def_span(did)));
                }
                _ => {}
            }
        }
        s.push('}');
        let _ = write!(s, ",\"consts\":{{{}}}", consts);
        let _ = write!(s, ",\"impls\":[{}]", impls);
        let _ = write!(s, ",\"fns\":{{{}}}", fns);

        // ---- optimized (drop-elaborated) MIR for non-coroutine bodies ----------
        let mut opt: Vec<String> = Vec::new();
        if std::env::var("STRETTO_FACTS_OPT").map(|v| v == "1").unwrap_or(false) {
            for def in tcx.hir_body_owners() {
                let did = def.to_def_id();
                let kind = tcx.def_kind(did);
                if !matches!(kind, DefKind::Fn | DefKind::AssocFn | DefKind::Closure) {
                    continue;
                }
                if tcx.is_coroutine(did) {
                    continue;
                }
                if !tcx.is_mir_available(did) {
                    continue;
                }
                let body = tcx.optimized_mir(did);
                if let Some(j) = serialise_body(tcx, def, body, "optimized") {
                    opt.push(j);
                }
            }
        }

        let bodies = std::mem::take(&mut *BODIES.lock().unwrap());
        let _ = write!(s, ",\"n_bodies\":{}", bodies.len());
        s.push_str(",\"bodies\":[");
        for (i, b) in bodies.iter().enumerate() {
            if i > 0 {
                s.push_str(",\n");
            }
            s.push_str(b);
        }
        s.push_str("],\"optimized\":[");
        for (i, b) in opt.iter().enumerate() {
            if i > 0 {
                s.push_str(",\n");
            }
            s.push_str(b);
        }
        s.push_str("]}");
        let tmp = format!("{}.tmp.{}", out, std::process::id());
        std::fs::write(&tmp, s).expect("write facts");
        std::fs::rename(&tmp, &out).expect("rename facts");
        rustc_driver::Compilation::Continue
    }
}

fn main() {
    // invoked as: <driver> <rustc> <args...>   (RUSTC_WORKSPACE_WRAPPER)
    let mut args: Vec<String> = vec!["rustc".to_string()];
    args.extend(std::env::args().skip(2));
    let primary = std::env::var("CARGO_PRIMARY_PACKAGE").is_ok();
    let want = std::env::var("STRETTO_FACTS_CRATE").unwrap_or_else(|_| "stretto".to_string());
    let is_target = primary
        && args.windows(2).any(|w| w[0] == "--crate-name" && w[1] == want)
        && !args.iter().any(|a| a == "--test");
    let out = if is_target { std::env::var("STRETTO_FACTS_OUT").ok() } else { None };
    let mut cb = Cb { out, config_name: std::env::var("STRETTO_FACTS_CONFIG").unwrap_or_default() };
    rustc_driver::run_compiler(&args, &mut cb);
}
