#!/bin/bash
# snaprun.sh <name> <command...> : run a long sweep from a frozen copy of /verif (engine edits during the sweep
# would otherwise be picked up half-way). The copy shares /verif/.cache; it is removed afterwards.
name=$1; shift
snap=/tmp/vsnap-$name
rm -rf $snap && mkdir -p $snap
rsync -a --exclude .git --exclude .cache /verif/ $snap/
ln -s /verif/.cache $snap/.cache
(cd $snap && "$@")
rc=$?
# seedsweep refreshes seeded/*/meta.json: bring those back
rsync -a $snap/seeded/ /verif/seeded/ 2>/dev/null
rm -rf $snap
exit $rc
