"""C18 (deterministic hashing, collision isolation), C02 (lookups return the current value of the
same key) and C04 (nothing is lost below capacity): mostly compositions of store / cache rules."""
from cachelib import *
import re
from cachelib import ctor_fields
import props_store
import props_life
import props_cache
import props_policy

SM = "store::ShardedMap"
TH = "<TransparentHasher as std::hash::Hasher>"
IMPURE = ("SystemTime::now", "Instant::now", "thread_rng", "Rng::gen", "rand::random", "RandomState::new", "SeedableRng", "OsRng", "getrandom")


INT_TYPES = {"u8": (8, False), "u16": (16, False), "u32": (32, False), "u64": (64, False), "u128": (128, False), "usize": (64, False),
             "i8": (8, True), "i16": (16, True), "i32": (32, True), "i64": (64, True), "i128": (128, True), "isize": (64, True)}


def _cast_to(v, ty):
    w, signed = INT_TYPES[ty]
    v &= (1 << w) - 1
    if signed and v >= 1 << (w - 1):
        v -= 1 << w
    return v


def _samples(ty):
    w, signed = INT_TYPES[ty]
    lo, hi = (-(1 << (w - 1)), (1 << (w - 1)) - 1) if signed else (0, (1 << w) - 1)
    vals = {lo, hi, 0, 1, -1, lo + 1, hi - 1}
    for k in (7, 8, 15, 16, 31, 32, 33, 63, 64, 65, 127):
        for d in (-7, -1, 0, 1, 7):
            vals |= {(1 << k) + d, -(1 << k) + d}
    return sorted(v for v in vals if lo <= v <= hi)


def _chain_of(e, param):
    """Types of the `as` casts applied to the parameter, innermost first; None if e is not a cast chain over it."""
    chain = []
    e = norm(e)
    while e[0] == "cast":
        chain.append(e[1])
        e = norm(e[2])
    if e != param or any(t not in INT_TYPES for t in chain):
        return None
    return list(reversed(chain))


def _eval_int(e, param, x):
    """Value of an integer expression over the parameter (casts, masks with constants) for param = x, as a
    mathematical integer; None when the expression uses anything else."""
    e = norm(e)
    if e == param:
        return x
    if e[0] == "const" and isinstance(e[1], int) and not isinstance(e[1], bool):
        return e[1]
    if e[0] in ("named", "cstr"):
        m_ = re.search(r"(u8|u16|u32|u64|u128|usize|i8|i16|i32|i64|i128|isize)>?::(MAX|MIN)$", str(e[1]))
        if m_:
            w, signed = INT_TYPES[m_.group(1)]
            return ((1 << (w - 1)) - 1 if signed else (1 << w) - 1) if m_.group(2) == "MAX" else (-(1 << (w - 1)) if signed else 0)
        return None
    if e[0] == "cast" and e[1] in INT_TYPES:
        v = _eval_int(e[2], param, x)
        return None if v is None else _cast_to(v, e[1])
    if e[0] == "bin" and e[1] in ("BitAnd", "BitOr", "BitXor"):
        a, b_ = _eval_int(e[2], param, x), _eval_int(e[3], param, x)
        if a is None or b_ is None:
            return None
        return {"BitAnd": a & b_, "BitOr": a | b_, "BitXor": a ^ b_}[e[1]]
    return None


def transparent_effect(facts, b, depth=0):
    """The casts a write_* method applies to its argument before it lands in `data` (a u64), following a
    delegation to another write_* method; None when the method does something else."""
    if depth > 4 or b.arg_count < 2:
        return None
    param = V(b.local_name.get(2, "arg2"))
    ws = stmt_nodes(b, lambda s: has_field(s["pl"], "data", "TransparentHasher"))
    dl = [(bi, t) for bi, t in b.calls() if b.callee_of(t).startswith(TH + "::write_")]
    if len(ws) == 1 and not dl and must_pass_through(b, [ws[0][0]]):
        ch = _chain_of(b.rvalue_expr(ws[0][2]["rv"], True), param)
        return None if ch is None else ch + ["u64"]
    if len(dl) == 1 and not ws and must_pass_through(b, [dl[0][0]]):
        a = b.call_args(dl[0][1])
        cb = facts.body(b.callee_of(dl[0][1]), required=False)
        if cb is None or len(a) != 2 or norm(a[0]) != V("self"):
            return None
        ch = _chain_of(a[1], param)
        rest = transparent_effect(facts, cb, depth + 1)
        pty = cb.locals[2]["ty"] if cb.arg_count >= 2 else None
        if ch is None or rest is None or pty not in INT_TYPES:
            return None
        return ch + [pty] + rest
    return None


def check_transparent(rep, fl, rule="R18.1"):
    facts = fl.facts
    n = 0
    for b in facts.bodies:
        if not b.spath.startswith(TH + "::write_") or b.is_closure:
            continue
        n += 1
        pty = b.locals[2]["ty"] if b.arg_count >= 2 else ""
        if pty not in INT_TYPES:
            # write(&[u8]): checked as before - one store of a value derived from the bytes
            ws = stmt_nodes(b, lambda s: has_field(s["pl"], "data", "TransparentHasher"))
            ok = len(ws) >= 1
            rep.check(ok, rule, fl, b, "data = bytes", "%s stores its argument" % b.name, "%s does not store its argument" % b.name)
            continue
        eff = transparent_effect(facts, b)
        ok = eff is not None
        bad = None
        if not ok:
            # not a plain chain of casts: a store of an expression over the argument (`(i & u128::from(u64::MAX)) as u64`)
            # is compared with `i as u64` as a function, on the same boundary values
            ws_ = stmt_nodes(b, lambda s_: has_field(s_["pl"], "data", "TransparentHasher"))
            if len(ws_) == 1 and must_pass_through(b, [ws_[0][0]]) and not [1 for _bi, t_ in b.calls() if b.callee_of(t_).startswith(TH + "::write_")]:
                param_ = V(b.local_name.get(2, "arg2"))
                ex_ = b.rvalue_expr(ws_[0][2]["rv"], True)
                vals_ = [(x_, _eval_int(ex_, param_, x_)) for x_ in _samples(pty)]
                if vals_ and all(v_ is not None for _x, v_ in vals_):
                    ok = True
                    eff = []
                    for x_, v_ in vals_:
                        if _cast_to(v_, "u64") != _cast_to(x_, "u64"):
                            ok, bad = False, x_
                            break
                    rep.check(ok, rule, fl, b, "data = i as u64", "%s stores its argument as `i as u64`" % b.name,
                              "%s does not store `i as u64`: the stored expression gives another value for i = %s" % (b.name, bad))
                    continue
        if ok:
            # the casts are pure: compare the chain with `i as u64` on the boundary values of every width
            for x in _samples(pty):
                v = x
                for ty in eff:
                    v = _cast_to(v, ty)
                if v != _cast_to(x, "u64"):
                    ok, bad = False, x
                    break
        rep.check(ok, rule, fl, b, "data = i as u64", "%s stores its argument as `i as u64` (directly or through another write_*)" % b.name,
                  "%s does not store `i as u64`%s" % (b.name, (": casts %s give another value for i = %d" % (" -> ".join([pty] + eff), bad)) if bad is not None else ""))
    if n < 12:
        rep.missing(rule, fl, "expected 12 TransparentHasher::write_* methods, found %d" % n)
    fin = facts.body(TH + "::finish")
    rep.check(norm(return_expr(fin)) == norm(F(V("self"), "data")), rule, fl, fin, "finish", "finish() returns the stored value", "finish() returns %s" % show(norm(return_expr(fin))))
    hi = facts.body("<TransparentKeyBuilder<K> as KeyBuilder>::hash_index")
    hs = calls_to(hi, "Hash::hash")
    fs = calls_to(hi, "Hasher::finish")
    ok = len(hs) == 1 and len(fs) == 1 and block_dominates(hi, hs[0][0], fs[0][0])
    if ok:
        a = [norm(x) for x in hi.call_args(hs[0][1], expand_vars=False)]
        hv = a[1]
        init = var_def_exprs(hi, hv)
        # a fresh hasher: the literal, or a constructor / Default impl that builds it
        cf = ctor_fields(facts, init[0]) if len(init) == 1 else None
        ok = a[0] == V("key") and cf is not None and cf[0].endswith("TransparentHasher::TransparentHasher") and norm(cf[1].get("data", ())) == ("const", 0, "u64") and \
            norm(hi.call_args(fs[0][1], expand_vars=False)[0]) == hv and is_call(norm(return_expr(hi)), "Hasher::finish")
    rep.check(ok, rule, fl, hi, "hash_index", "hash_index(key) = { fresh TransparentHasher; key.hash(&mut h); h.finish() }", "TransparentKeyBuilder::hash_index is no longer hash-through-identity")
    hc = facts.body("<TransparentKeyBuilder<K> as KeyBuilder>::hash_conflict")
    rep.check(norm(return_expr(hc)) == ("const", 0, "u64"), rule, fl, hc, "hash_conflict", "hash_conflict = 0 (index alone identifies integer keys)", "hash_conflict returns %s" % show(norm(return_expr(hc))))
    bk = facts.body("KeyBuilder::build_key")
    # (every return of it: a second return that answers something else for some keys - a wildcard 0 in the conflict
    # position, say - makes those keys act on whichever colliding key is resident)
    es = [norm(x) for x in return_exprs(bk)]
    pair = lambda e: e[0] == "agg" and e[1] == "tuple" and len(e[3]) == 2 and is_call(e[3][0], "KeyBuilder::hash_index") and is_call(e[3][1], "KeyBuilder::hash_conflict") and \
        e[3][0][2] == (V("self"), V("k")) and e[3][1][2] == (V("self"), V("k"))
    ok = bool(es) and all(pair(e) for e in es)
    rep.check(ok, rule, fl, bk, "build_key", "build_key(k) = (hash_index(k), hash_conflict(k))", "build_key returns %s" % "; ".join(show(e) for e in es if not pair(e))[:300])


def check_purity(rep, fl, rule="R18.2"):
    facts = fl.facts
    cg = CallGraph(facts)
    hashers = [b for b in facts.bodies if (b.raw.get("impl_trait") or "").endswith("KeyBuilder") and b.name in ("hash_index", "hash_conflict", "build_key")] + [facts.body("KeyBuilder::build_key")]
    reach = cg.reach(hashers)
    bad = []
    writes = []
    for i in reach:
        b = cg.by_id[i]
        for bi, t in b.calls():
            c = b.callee_of(t)
            if any(x in c for x in IMPURE):
                bad.append((b.spath, short(c)))
        if (b.raw.get("impl_trait") or "").endswith("KeyBuilder"):
            for bi, si, role, pl in b.place_uses():
                if role in ("write", "mutref") and pl["l"] == 1:
                    writes.append(b.spath)
    rep.check(not bad and not writes and len(hashers) >= 5, rule, fl, "KeyBuilder impls", "pure", "hash_index / hash_conflict / build_key read no clock, RNG or global and do not mutate the builder (%d bodies)" % len(reach),
              "key hashing is not a pure function of the key: %s %s" % (bad, writes))
    # "however it is borrowed": the key enters the hash through its `Hash` impl only (`Borrow` guarantees that a key and
    # its borrowed form hash alike) - nothing else about the borrowed value (its size, its address, its type) is used
    uses_bad = []
    n_impl = 0
    for b in hashers:
        if not (b.raw.get("impl_trait") or "").endswith("KeyBuilder") or b.is_closure or b.arg_count < 2:
            continue
        n_impl += 1
        kv = V(b.local_name.get(2, "key"))
        for bi, t in b.calls():
            args = [norm(x) for x in b.call_args(t)]
            if not any(mentions(a_, kv) for a_ in args):
                continue
            c = b.callee_of(t)
            okc = callee_matches(c, "BuildHasher::hash_one") or callee_matches(c, "Hash::hash") or c.endswith("::hash_one") or c.endswith("Hash>::hash") \
                or (b.raw.get("impl_trait") or "").endswith("KeyBuilder") and (callee_matches(c, "KeyBuilder::hash_index") or callee_matches(c, "KeyBuilder::hash_conflict") or callee_matches(c, "KeyBuilder::build_key")) \
                or callee_matches(c, "Borrow::borrow") or callee_matches(c, "Deref::deref")
            if not okc:
                uses_bad.append((short(b.spath), short(c)))
    rep.check(not uses_bad and n_impl >= 2, rule, fl, "KeyBuilder impls", "key only hashed", "the key is handed to its Hash impl (hash_one / Hash::hash) and to nothing else (%d methods)" % n_impl,
              "a key builder looks at the borrowed key other than through its Hash impl (%s): a key and its borrowed form (String / &str) may map to different (index, conflict) pairs" % uses_bad)
    d = facts.body("<DefaultKeyBuilder<K> as std::default::Default>::default")
    seeds = [bi for bi, t in d.calls() if any(x in d.callee_of(t) for x in ("Rng::gen", "thread_rng"))]
    rep.check(all(not d.in_loop(x) for x in seeds), rule, fl, d, "seed once", "the xx seed is drawn once when the builder is created", "seed drawn in a loop")
    # the builder is stored in an Arc and only read afterwards
    wr = []
    for b in facts.bodies:
        for bi, si, role, pl in b.place_uses():
            if role in ("write", "mutref") and has_field(pl, "key_to_hash", fl.cache):
                wr.append(b.spath)
    rep.check(not wr, rule, fl, fl.cache, "key_to_hash never written", "the cache's key builder is never replaced or mutably borrowed after finalize", "key_to_hash is written in %s" % wr)


def check_conflict_plumbing(rep, fl, rule="R18.3"):
    """Every cache-level operation passes index and conflict of the same build_key call."""
    facts = fl.facts
    # who may call the two half-hashes: only KeyBuilder impls (build_key's default body).  A cache
    # operation that hashes the halves itself disagrees with every other operation as soon as a
    # builder overrides build_key (the trait documents build_key as the override point).
    halves = []
    for b in facts.bodies:
        if (b.raw.get("impl_trait") or "").endswith("KeyBuilder") or strip_generics(b.raw["root"]).startswith("KeyBuilder::"):
            continue
        if not user_code(b):
            continue
        for bi, t in b.calls():
            c = b.callee_of(t)
            if callee_matches(c, "KeyBuilder::hash_index") or callee_matches(c, "KeyBuilder::hash_conflict"):
                halves.append("%s calls %s" % (b.spath, short(c)))
    rep.check(not halves, rule, fl, "KeyBuilder::hash_index / hash_conflict", "who may call", "only KeyBuilder implementations call hash_index / hash_conflict; every cache operation obtains its pair from build_key",
              "a key's (index, conflict) pair is derived in two ways (a builder overriding build_key maps the key differently here): %s" % halves)
    for op, callee in (("get", SM + "::get"), ("get_mut", SM + "::get_mut"), ("try_remove", SM + "::try_remove"), ("get_ttl", SM + "::get")):
        b = fl.cache_fn(op)
        try:
            (bkb, bkt), bke, index, conflict = props_cache.build_key_of(b)
        except AnchorMissing as e:
            rep.check(False, rule, fl, b, "(index, conflict) of one build_key", "", "%s does not derive its pair from exactly one build_key(key) call (%s)" % (op, e))
            continue
        cs = calls_to(b, callee)
        ok = len(cs) == 1
        if ok:
            a = [norm(x) for x in b.call_args(cs[0][1])]
            ok = a[1] == index and a[2] == conflict
        karg = norm(b.call_args(bkt)[1])
        okk = karg in (V("key"), V("k")) and norm(b.call_args(bkt)[0]) == norm(F(V("self"), "key_to_hash"))
        rep.check(ok and okk, rule, fl, b, "(index, conflict) of one build_key", "%s looks up (build_key(key).0, build_key(key).1)" % op,
                  "%s does not pass the index and conflict of the same build_key(key) call to the store" % op)


def check_C18(rep, fl):
    check_transparent(rep, fl)
    check_purity(rep, fl)
    props_store.check_lookup_guards(rep, fl)
    props_store.check_store_writes(rep, fl)
    check_conflict_plumbing(rep, fl)
    props_cache.check_C16_keys(rep, fl)
    # the pairings that carry or ignore the conflict hash (what happens to the policy's victims is not a collision matter)
    props_life.check_handle_item_pairing(rep, fl, rule="R18.4", only_sites=(
        "try_insert args", "Delete => policy.remove + store.try_remove", "store removals: Delete and victims only",
        "Delete: un-charge conditional on conflict-checked removal", "New: re-charge of an existing index without conflict check"))
    props_store.keep_sites(rep, fl, props_life.check_remove_pair, ("store.try_remove then Delete*",))  # the marker carries the same (index, conflict)


# ----------------------------------------------------------------------------------------
# C02
# ----------------------------------------------------------------------------------------

def check_value_writers(rep, fl, rule="R02.4"):
    """Who can write a resident StoreItem.value: try_insert (fresh item), try_update (swap) and
    the user through ValueRefMut; nothing stores a previous value back."""
    facts = fl.facts
    writers = set()
    for b in facts.bodies:
        for bi, si, role, pl in b.place_uses():
            if role in ("write", "mutref") and has_field(pl, "value", "store::StoreItem"):
                writers.add(strip_generics(b.raw["root"]))
        for bi, t in b.calls():
            if callee_matches(b.callee_of(t), "SharedValue::as_ptr") or callee_matches(b.callee_of(t), "SharedValue::get_mut"):
                writers.add(strip_generics(b.raw["root"]))
    allowed = {SM + "::try_update", SM + "::get_mut", "utils::SharedValue::get_mut", "utils::SharedValue::as_ptr"}
    extra = {w for w in writers if w not in allowed and not w.startswith("utils::SharedValue")}
    rep.check(not extra and (SM + "::try_update") in writers, rule, fl, "StoreItem.value", "writers", "resident values are written only by store.try_update (swap) and through get_mut's ValueRefMut",
              "resident values can also be written in %s" % sorted(extra))
    # ValueRefMut writes go to the borrowed value only
    for m in ("write", "write_once", "value_mut"):
        b = facts.body("utils::ValueRefMut::" + m)
        ws = stmt_nodes(b, lambda s: "*" in s["pl"]["p"] and place_target(b, s["pl"]) is not None)
        if m == "value_mut":
            ok = norm(return_expr(b)) == norm(F(V("self"), "val"))
        else:
            ok = len(ws) == 1 and norm(b.place_expr(ws[0][2]["pl"], True)) == norm(F(V("self"), "val")) and norm(b.rvalue_expr(ws[0][2]["rv"], True)) == V("val")
            if not ok and not ws and m == "write_once":
                # delegation: `self.write(val); drop(self)` - `write` is the instance checked just before
                wc = calls_to(b, "utils::ValueRefMut::write")
                ok = len(wc) == 1 and must_pass_through(b, [wc[0][0]]) and norm(b.call_args(wc[0][1])[1]) == V("val") and norm(b.call_args(wc[0][1])[0]) == V("self")
        rep.check(ok, rule, fl, b, m, "ValueRefMut::%s writes the borrowed value of this entry" % m, "ValueRefMut::%s changed" % m)
    # the swapped-out value flows only to on_exit
    tu = fl.cache_fn("try_update")
    ex = calls_to(tu, "CacheCallback::on_exit")
    ok = len(ex) == 1
    if ok:
        a = [norm(x) for x in tu.call_args(ex[0][1])]
        ok = a[1][0] == "agg" and a[1][2].endswith("Option::Some") and a[1][3][0][0] == "field" and a[1][3][0][1][0] == "downcast" and a[1][3][0][1][2] == "Update"
    rep.check(ok, "R08.2", fl, tu, "Update(old) => on_exit", "the value swapped out by an update is handed to on_exit (never stored back)", "the swapped-out value does not go to on_exit")


def check_immediate_effect(rep, fl, rule="R02.5"):
    """An insert of a resident key replaces the value before insert returns; remove deletes
    before it returns."""
    facts = fl.facts
    ti = fl.cache_fn("try_insert_in")
    c = calls_to(ti, fl.cache + "::try_update")
    ok = len(c) == 1
    if ok:
        # reached on every not-closed path
        tested_ti = False
        for bi in ti.live_blocks():
            t = ti.term(bi)
            if t and t["k"] == "switch":
                for tgt, atom, pol in edge_literals(ti, bi):
                    if atom is not None and props_life.is_closed_lit(norm(ti.expand(atom))):
                        tested_ti = True
                        if pol is False:
                            ok = ok and must_pass_through(ti, [c[0][0]], from_bi=tgt)
        if not tested_ti:
            ok = ok and must_pass_through(ti, [c[0][0]])
    tu = fl.cache_fn("try_update")
    su = calls_to(tu, SM + "::try_update")
    ok = ok and len(su) == 1
    if ok:
        # (reached on every not-closed path of the helper as well, should the flag be tested there)
        tested = False
        for bi in tu.live_blocks():
            t = tu.term(bi)
            if t and t["k"] == "switch":
                for tgt, atom, pol in edge_literals(tu, bi):
                    if atom is not None and props_life.is_closed_lit(norm(tu.expand(atom))):
                        tested = True
                        if pol is False:
                            ok = ok and must_pass_through(tu, [su[0][0]], from_bi=tgt)
        if not tested:
            ok = ok and must_pass_through(tu, [su[0][0]])
    rep.check(ok, rule, fl, ti, "store.try_update before return", "every insert on an open cache has run store.try_update (the in-place swap) before it returns", "an insert can return without having attempted the in-place update")
    # Update result => Ok(true) whatever the send does (value already replaced)
    props_cache.check_dropsets(rep, fl)
    props_life.check_remove_pair(rep, fl)


def check_C02(rep, fl):
    props_store.check_selectors(rep, fl)
    # "replaces the value immediately and is never rolled back": a resident entry is written by the caller's own insert
    # only, never later by a queued item
    props_store.keep_sites(rep, fl, props_store.check_removal_inventory, ("*ShardedMap::try_update|callers", "*ShardedMap::try_insert|callers"))
    # ... which rests on the policy answering `added` for untracked keys only (a tracked key is re-costed, its queued value
    # is not written over the resident one)
    props_store.keep_rules(rep, fl, props_policy.check_C01, {"R01.3"})
    props_store.check_lookup_guards(rep, fl)
    check_value_writers(rep, fl)
    check_immediate_effect(rep, fl)
    props_store.check_store_writes(rep, fl)
    check_conflict_plumbing(rep, fl, rule="R02.2")
    props_life.check_handle_item_pairing(rep, fl, collisions=False, only_sites=("try_insert only if added", "try_insert args", "Delete => policy.remove + store.try_remove"))
    props_life.check_fifo(rep, fl)
    # "never a value written before the latest clear()": the clear empties every shard and discards everything buffered
    props_life.check_clear_parts(rep, fl)
    props_life.check_cleaner(rep, fl)
    # ... and clear() returns only after the processor has done all of it (a lookup that starts after clear()
    # returned must not find an older value)
    props_life.check_clear(rep, fl)
    # "when a client lets the cache quiesce between its operations": wait() says Ok only behind its barrier
    props_store.keep_sites(rep, fl, props_life.check_wait_fn, ("Ok only behind the barrier", "always enqueues", "wait after send"))


# ----------------------------------------------------------------------------------------
# C04
# ----------------------------------------------------------------------------------------

def check_C04(rep, fl):
    props_store.check_blocking_shard_locks(rep, fl, rule="R04.1")
    props_store.check_removal_inventory(rep, fl)
    # R04.2: with room nothing is evicted or rejected -- and "room" is computed from `used`, which
    # therefore has to equal the real combined cost after every mutation (R01.2): a `used` that
    # drifts upwards makes a cache that is below capacity evict or refuse
    props_policy.check_C07_fastpath(rep, fl)
    props_policy.check_balance(rep, fl, props_policy.slfu_writers(fl.facts))
    # R04.3: sweeper removes only due, non-zero, elapsed entries; try_update moves exactly one key
    props_store.check_sweeper(rep, fl)
    props_store.check_em_update(rep, fl)
    props_store.check_em_cleanup(rep, fl)
    props_store.check_buckets(rep, fl)
    # R04.4: an absent key is always inserted; insert returns false only on buffer-full / closed
    props_store.check_store_writes(rep, fl)
    props_cache.check_dropsets(rep, fl)
    props_life.check_handle_item_pairing(rep, fl, collisions=False)
    # R04.5: an insert accepted after clear() has returned is not discarded by that clear's drain
    props_life.check_clear(rep, fl)
    # "stays retrievable until .. its TTL elapses": a lookup refuses an entry only for another key's conflict hash
    # or a deadline that has really passed (the lookup guards and the deadline arithmetic of C02 / C03)
    props_store.check_lookup_guards(rep, fl)
    props_store.check_time(rep, fl)
    props_store.check_em_insert(rep, fl)
    # "until it is removed": a remove always tells the policy too - the Delete marker is sent with a blocking send (a
    # marker lost to a full buffer leaves the key charged, and a later insert of it is refused as an update)
    props_life.check_remove_pair(rep, fl)
