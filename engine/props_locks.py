"""K10: lock-order graph, blocking operations and user callbacks under a lock (R10.5, R12.5, R20.4)."""
from cachelib import *
import re

LOCK_FNS = ("Mutex::lock", "RwLock::read", "RwLock::write", "RwLock::upgradable_read", "Mutex::try_lock", "RwLock::try_read", "RwLock::try_write")
BLOCKING = ("Sender::send", "Receiver::recv", "WaitGroup::wait", "JoinHandle::join", "thread::sleep", "thread::park", "Condvar::wait", "Receiver::recv_timeout",
            "SelectedOperation::recv", "internal::select", "Select::select")
USER_CALLBACKS = ("CacheCallback::on_exit", "CacheCallback::on_evict", "CacheCallback::on_reject", "Coster::cost", "KeyBuilder::build_key", "KeyBuilder::hash_index", "KeyBuilder::hash_conflict",
                  "UpdateValidator::should_update")
# user code that is *documented* to run under a lock (the property's own anchors say so)
ALLOWED_UNDER_LOCK = {
    ("UpdateValidator::should_update", "shard", "store::ShardedMap::try_update"): "the UpdateValidator is consulted under the shard write lock by design (property C09 anchors): validator and swap must be atomic",
    ("UpdateValidator::should_update", "shard", "store::ShardedMap::try_insert"): "the UpdateValidator is consulted under the shard write lock by design (property C09 anchors): validator and overwrite must be atomic",
}


def lock_class(e):
    """Lock class of the receiver expression of a lock call."""
    e = norm(e)
    for s in subexprs(e):
        if s[0] == "field" and s[2] == "shards":
            return "shard"
    if e[0] == "field":
        return {"buckets": "buckets", "inner": "policy", "data": "ring"}.get(e[2], "other:" + e[2])
    if e[0] == "var":
        return "param:" + e[1]
    return "other"


GUARDED_TYPES = (("store::StoreItem<", "shard"), ("ttl::Bucket<", "buckets"), ("policy::PolicyInner<", "policy"), ("std::vec::Vec<u64>", "ring"))


def lock_class_of(body, t):
    """Lock class of a lock call: by the type of the data the guard protects (so that `shard.write()` on a closure
    parameter or a renamed field is the same class as `self.shards[i].write()`), else by the receiver expression."""
    ty = t.get("destty") or ""
    if "Guard<" in ty:
        for pat, cls in GUARDED_TYPES:
            if pat in ty:
                return cls
    return lock_class(body.call_args(t)[0])


def lock_sites(body):
    out = []
    for bi, t in body.calls():
        c = body.callee_of(t)
        if any(callee_matches(c, n) for n in LOCK_FNS):
            out.append((bi, t, lock_class_of(body, t)))
    return out


def held_region(body, bi, t):
    """Blocks (and the starting statement index) in which the guard produced by lock call t may be
    held.  The region ends at the drop of the guard's local, or where the guard is moved away
    (returned to the caller inside a ValueRef, etc.).  -> (set of blocks, escapes)"""
    dest = t["dest"]
    gl = dest["l"] if not dest["p"] else None
    region = set()
    escapes = False
    if t["t"] is None:
        return region, escapes
    stack = [t["t"]]
    while stack:
        x = stack.pop()
        if x in region:
            continue
        region.add(x)
        bb = body.blocks[x]
        tt = bb["term"]
        ended = False
        # moved away?
        for st in bb["stmts"]:
            if st["k"] == "assign":
                rv = st["rv"]
                ops = []
                if rv["k"] == "use":
                    ops = [rv["op"]]
                elif rv["k"] == "agg":
                    ops = rv["fields"]
                for o in ops:
                    if o.get("k") == "move" and not o["pl"]["p"] and o["pl"]["l"] == gl:
                        # moved into another local: follow it if it is a plain temp move, else escapes
                        if rv["k"] == "use" and not st["pl"]["p"]:
                            gl2 = st["pl"]["l"]
                            # continue tracking under the new local
                            gl_new = gl2
                            region_rest, esc = held_region_from(body, x, gl_new)
                            region |= region_rest
                            escapes = escapes or esc
                            ended = True
                        else:
                            escapes = True
                            ended = True
        if ended:
            continue
        if tt is None:
            continue
        if tt["k"] == "drop" and not tt["pl"]["p"] and tt["pl"]["l"] == gl:
            continue
        if tt["k"] == "call":
            for a in tt["args"]:
                if a.get("k") == "move" and not a["pl"]["p"] and a["pl"]["l"] == gl:
                    if "Guard<" in tt.get("destty", "") and not tt["dest"]["p"] and tt["t"] is not None:
                        # the guard passes through a helper (e.g. LockResult::unwrap): keep tracking the result
                        rest, esc = held_region_from(body, x, tt["dest"]["l"])
                        region |= rest
                        escapes = escapes or esc
                    else:
                        escapes = True
                    ended = True
            if ended:
                continue
        if tt["k"] == "return":
            continue
        for s in body.succs(x):
            stack.append(s)
    return region, escapes


def held_region_from(body, start_bi, gl):
    region = set()
    escapes = False
    stack = list(body.succs(start_bi))
    tt0 = body.blocks[start_bi]["term"]
    if tt0 and tt0["k"] == "drop" and not tt0["pl"]["p"] and tt0["pl"]["l"] == gl:
        return region, escapes
    while stack:
        x = stack.pop()
        if x in region:
            continue
        region.add(x)
        tt = body.blocks[x]["term"]
        if tt is None:
            continue
        if tt["k"] == "drop" and not tt["pl"]["p"] and tt["pl"]["l"] == gl:
            continue
        if tt["k"] == "call" and any(a.get("k") == "move" and not a["pl"]["p"] and a["pl"]["l"] == gl for a in tt["args"]):
            if "Guard<" in tt.get("destty", "") and not tt["dest"]["p"] and tt["t"] is not None:
                rest, esc = held_region_from(body, x, tt["dest"]["l"])
                region |= rest
                escapes = escapes or esc
            else:
                escapes = True
            continue
        if tt["k"] == "return":
            if gl == 0:
                escapes = True
            continue
        stack.extend(body.succs(x))
    return region, escapes


class LockSummaries:
    def __init__(self, facts):
        self.facts = facts
        self.cg = CallGraph(facts)
        self.direct = {}
        for b in facts.bodies:
            self.direct[id(b)] = {c for _, _, c in lock_sites(b)}
        self.trans = {}

    def acquires(self, body):
        i = id(body)
        if i in self.trans:
            return self.trans[i]
        seen = self.cg.reach([body])
        acc = set()
        for j in seen:
            acc |= self.direct.get(j, set())
        self.trans[i] = acc
        return acc

    def reach_calls(self, body, names):
        """Does body (transitively, crate-local) call one of names?  -> list of (body, callee)"""
        out = []
        for j in self.cg.reach([body]):
            b = self.cg.by_id[j]
            for bi, t in b.calls():
                c = b.callee_of(t)
                d = b.decl_callee_of(t)
                for n in names:
                    if callee_matches(c, n) or callee_matches(d, n):
                        out.append((b, n))
        return out


_FN_VALUE_CALL = re.compile(r"ops::(function::)?(Fn::call|FnMut::call_mut|FnOnce::call_once)$")


def locks_over_param_calls(facts, cb):
    """Lock classes under which the function `cb` (or one of its closures) calls a function value that is not a closure
    literal of its own - i.e. a callable it was handed by its caller: directly in the region where a guard is alive, or in
    a closure that is itself handed to a call made in such a region (`shard.write().drain().for_each(|x| f(x))`)."""
    fam = [cb] + [y for y in descendants(facts, cb) if y is not cb]
    under = {}   # id(body) -> set of classes the whole body may run under
    out = set()

    def fn_value_calls(y, blocks=None):
        for bi, t in y.calls():
            if blocks is not None and bi not in blocks:
                continue
            if _FN_VALUE_CALL.search(strip_generics(y.callee_of(t)) or "") or _FN_VALUE_CALL.search(t.get("callee", "")):
                if not closure_of_call(y, t):   # not a closure literal written right here
                    yield bi, t
    changed = True
    rounds = 0
    while changed and rounds < 4:
        changed = False
        rounds += 1
        for y in fam:
            regions = []
            for bi, t, cls in lock_sites(y):
                region, _esc = held_region(y, bi, t)
                regions.append((cls, region))
            for cls in under.get(id(y), set()):
                regions.append((cls, set(y.live_blocks())))
            for cls, region in regions:
                for bi, t in fn_value_calls(y, region):
                    out.add(cls)
                for x in sorted(region):
                    tt = y.blocks[x]["term"]
                    if not tt or tt["k"] != "call":
                        continue
                    for ce in closure_of_call(y, tt):
                        for clb in facts.by_path.get(ce[1], []):
                            if cls not in under.setdefault(id(clb), set()):
                                under[id(clb)].add(cls)
                                changed = True
    return out


def check_lock_order(rep, fl, rule="R20.4"):
    facts = fl.facts
    ls = LockSummaries(facts)
    other = "r#async" if fl.name == "sync" else "::sync::"
    edges = {}
    n_sites = 0
    for b in facts.bodies:
        if not user_code(b) or other in b.spath:
            continue
        for bi, t, cls in lock_sites(b):
            n_sites += 1
            region, escapes = held_region(b, bi, t)
            for x in sorted(region):
                tt = b.blocks[x]["term"]
                if not tt:
                    continue
                if tt["k"] == "yield":
                    rep.bad("R10.5", fl, b, "await while holding %s lock" % cls, "an .await point is reachable while the %s lock guard is alive: the task can be suspended holding a blocking lock" % cls, loc=tt["sp"])
                if tt["k"] != "call":
                    continue
                c = b.callee_of(tt)
                d = b.decl_callee_of(tt)
                # nested acquisition: direct
                if any(callee_matches(c, n) for n in LOCK_FNS):
                    edges.setdefault((cls, lock_class_of(b, tt)), []).append((b, tt))
                # via crate-local callee / closures passed to the call
                callees = []
                if tt.get("rlocal") or tt.get("local"):
                    callees += facts.by_path.get(tt.get("resolved") or tt.get("callee"), [])
                for ce in closure_of_call(b, tt):
                    callees += facts.by_path.get(ce[1], [])
                for cb in callees:
                    for c2 in ls.acquires(cb):
                        edges.setdefault((cls, c2), []).append((b, tt))
                    for bb2, n in ls.reach_calls(cb, BLOCKING):
                        rep.bad("R10.5", fl, b, "blocking %s under %s lock" % (n, cls), "%s (via %s) can block while the %s lock is held" % (n, short(cb.spath), cls), loc=tt["sp"])
                    for bb2, n in ls.reach_calls(cb, USER_CALLBACKS):
                        _user(rep, fl, b, tt, n, cls, via=cb)
                for n in BLOCKING:
                    if callee_matches(c, n) or callee_matches(d, n):
                        rep.bad("R10.5", fl, b, "blocking %s under %s lock" % (n, cls), "%s can block while the %s lock is held" % (n, cls), loc=tt["sp"])
                for n in USER_CALLBACKS:
                    if callee_matches(c, n) or callee_matches(d, n):
                        _user(rep, fl, b, tt, n, cls)
    # a closure handed to a crate-local function that takes locks may be invoked under them
    for b in facts.bodies:
        if not user_code(b) or other in b.spath:
            continue
        for bi, tt in b.calls():
            if not (tt.get("rlocal") or tt.get("local")):
                continue
            cls_args = closure_of_call(b, tt)
            if not cls_args:
                continue
            callee_bodies = facts.by_path.get(tt.get("resolved") or tt.get("callee"), [])
            for cb in callee_bodies:
                held = set(ls.direct.get(id(cb), set())) | locks_over_param_calls(facts, cb)
                for ce in cls_args:
                    for clb in facts.by_path.get(ce[1], []):
                        for c2 in ls.acquires(clb):
                            for a in held:
                                edges.setdefault((a, c2), []).append((b, tt))
                        # what the closure does may happen under the callee's locks: blocking calls and user hooks too
                        for a in sorted(held):
                            for bb2, n in ls.reach_calls(clb, BLOCKING):
                                rep.bad("R10.5", fl, b, "blocking %s under %s lock" % (n, a), "%s (in the closure handed to %s) can block while the %s lock is held" % (n, short(cb.spath), a), loc=tt["sp"])
                            for bb2, n in ls.reach_calls(clb, USER_CALLBACKS):
                                _user(rep, fl, b, tt, n, a, via=clb)
    # report the graph
    classes = sorted({a for a, _ in edges} | {b_ for _, b_ in edges})
    graph = {}
    for (a, b_), sites in edges.items():
        graph.setdefault(a, set()).add(b_)
    # cycles (including self-loops)
    cyc = None
    for a in graph:
        seen = set()
        stack = list(graph.get(a, ()))
        while stack:
            x = stack.pop()
            if x == a:
                cyc = a
                break
            if x in seen:
                continue
            seen.add(x)
            stack.extend(graph.get(x, ()))
        if cyc:
            break
    desc = ", ".join("%s -> %s" % (a, b_) for (a, b_) in sorted(edges)) or "no nested acquisition"
    if cyc:
        ex = [(b.spath, tt["sp"]["l"]) for (a, b_), sites in edges.items() if a == cyc or b_ == cyc for b, tt in sites][:3]
        rep.bad(rule, fl, "crate", "lock order", "the lock-order graph has a cycle through `%s` (%s; e.g. %s): two threads taking the locks in opposite order deadlock" % (cyc, desc, ex))
    else:
        rep.ok(rule, fl, "crate", "lock order", "lock-order graph over %d acquisition sites is acyclic: %s" % (n_sites, desc))
    if n_sites < 10:
        rep.missing(rule, fl, "only %d lock acquisition sites found" % n_sites)


def _user(rep, fl, b, tt, n, cls, via=None):
    why = ALLOWED_UNDER_LOCK.get((n, cls, strip_generics(b.raw["root"])))
    site = "%s under %s lock" % (n, cls)
    if why:
        rep.ok("R10.5", fl, b, site, "allowed: " + why, loc=tt["sp"])
    else:
        rep.bad("R10.5", fl, b, site, "user code %s%s runs while the %s lock is held: a callback that touches the cache (or blocks) deadlocks the processor / other clients" % (
            n, " (via %s)" % short(via.spath) if via is not None else "", cls), loc=tt["sp"])
