"""C13 (count-min sketch / TinyLFU estimates) and C14 (doorkeeper Bloom filter)."""
from lib import *
import math

ROW = "sketch::CountMinRow"
CMS = "sketch::CountMinSketch"
TLFU = "policy::TinyLFU"
BLOOM = "bbloom::Bloom"


def elem_of_closure(cb):
    """The per-element parameter of a closure passed to for_each / map (argument 2)."""
    return V(cb.local_name.get(2, "arg2"))


def single_closure(facts, body, callee):
    """(call block, call term, closure body) for the unique call to `callee` taking a closure."""
    cs = [(bi, t) for bi, t in calls_to(body, callee) if closure_of_call(body, t)]
    if len(cs) != 1:
        return None
    bi, t = cs[0]
    ce = closure_of_call(body, t)[0]
    return bi, t, facts.closure_body(ce[1])


def for_each_body(facts, body):
    r = single_closure(facts, body, "Iterator::for_each")
    return r


# ----------------------------------------------------------------------------------------
# C13
# ----------------------------------------------------------------------------------------

def pow2(e):
    """x * 2^k spelled as x << k (the two are the same value in wrapping arithmetic): one spelling for comparisons."""
    e = norm(e)
    if not isinstance(e, tuple):
        return e
    if e[0] == "bin":
        a, b = pow2(e[2]), pow2(e[3])
        if e[1] == "Mul":
            for x, c in ((a, b), (b, a)):
                if c[0] == "const" and isinstance(c[1], int) and not isinstance(c[1], bool) and c[1] > 1 and (c[1] & (c[1] - 1)) == 0:
                    return ("bin", "Shl", x, ("const", c[1].bit_length() - 1, "shamt"))
        return ("bin", e[1], a, b)
    if e[0] == "cast":
        return ("cast", e[1], pow2(e[2]))
    return e


def nibble_parts(e):
    """Decompose ((row[idx] >> shift) & 0x0f) -> (idx, shift, mask) or None."""
    r = _nibble_parts(e)
    return None if r is None else (r[0], pow2(r[1]), r[2], r[3])


def _nibble_parts(e):
    e = norm(e)
    if e[0] == "bin" and e[1] == "BitAnd":
        for x, m in ((e[2], e[3]), (e[3], e[2])):
            if m[0] == "const" and x[0] == "bin" and x[1] == "Shr":
                cell, shift = x[2], x[3]
                if is_call(cell, "Index::index") or is_call(cell, "index"):
                    return norm(cell[2][1]), norm(shift), m[1], norm(cell[2][0])
    return None


def check_sketch_cells(rep, fl, rule="R13.4", fold=True):
    """increment and estimate address the same cell of every row, and that cell index is masked by
    self.mask (so it is inside the row: premise of the audited index in CountMinRow::get/increment)."""
    facts = fl.facts
    # ---- R13.4 rows indexed identically by increment and estimate ------------------------------
    sinc = facts.body(CMS + "::increment")
    sest = facts.body(CMS + "::estimate")
    depth = facts.const_value("sketch::DEPTH")
    cells = {}
    for b, rowm in ((sinc, "increment"), (sest, "get")):
        it = single_iteration(facts, b)
        if it is None:
            rep.bad(rule, fl, b, "per-row iteration", "no per-row iteration (one loop / for_each over 0..DEPTH) in CountMinSketch::%s" % b.name)
            continue
        rng = it.source
        # 0..DEPTH, or the rows themselves walked in step with equally long companions (rows.iter_mut().zip(seeds))
        starts0 = all(coll[3][0] == ("const", 0, "usize") for path, kind, coll in it.components() if kind == "index" and coll is not None)
        okrange = starts0 and it.rounds(facts) == depth
        rep.check(okrange, rule, fl, b, "rows 0..DEPTH", "all %d rows are visited" % depth, "row range is %s, DEPTH is %d" % (show(rng), depth), loc=it.nt["sp"])
        inner = it.calls_to(ROW + "::" + rowm)
        if len(inner) != 1:
            rep.bad(rule, fl, b, "row call", "expected one CountMinRow::%s call per row" % rowm)
            continue
        a = [it.indexed(x) for x in it.body.call_args(inner[0][1])]
        cells[b.name] = (a[0], a[1], it, inner[0])
        rep.check(it.every_round([inner[0][0]]), rule, fl, b, "every row", "the row operation runs for every visited row", "a row can be skipped")
    if len(cells) == 2:
        ri, ii = cells["increment"][0], cells["increment"][1]
        re_, ie = cells["estimate"][0], cells["estimate"][1]
        hashed = V("hashed")
        want_row = ("index", norm(F(V("self"), "rows")), ("elem",))
        mask = norm(F(V("self"), "mask"))
        seed = norm(("index", F(V("self"), "seeds"), ("elem",)))
        masked = ii[0] == "bin" and ii[1] == "BitAnd" and mask in (ii[2], ii[3])
        rep.check(ri == re_ == want_row and ii == ie and masked and mentions(ii, hashed) and mentions(ii, seed), rule, fl, CMS, "cell(row,hash)",
                  "increment and estimate address the same cell rows[i][f(hashed, seeds[i]) & mask]: %s" % show(ii),
                  "increment uses %s / %s, estimate uses %s / %s; expected the same cell of rows[i] in both, derived from hashed and seeds[i] and masked by self.mask "
                  "(an unmasked index leaves the row: panic in the caller or the policy worker)" % (show(ri), show(ii), show(re_), show(ie)))
        if not fold:
            return
        # estimate is a minimum fold: the accumulator (a variable that lives outside the loop and is written
        # inside it) holds min(accumulator, row value) after every round, in any spelling -
        # `if val < min { min = val }`, `min = if val < min { val } else { min }`, `min = min.min(val)`, `fold`
        it = cells["estimate"][2]
        fb = it.body
        val = norm(fb.expand(norm(fb.call_expr(cells["estimate"][3][1], True))))
        accs = set()
        for x in sorted(it.region):
            for y, st2 in enumerate(fb.blocks[x]["stmts"]):
                if st2["k"] != "assign":
                    continue
                tg = place_target(fb, st2["pl"])
                if tg is None or tg[0] != "var" or tg in it.elem_vars:
                    continue
                l = fb.name_local.get(tg[1])
                if l is not None and any(d[0] not in it.region for d in fb.defs.get(l, [])):
                    accs.add(l)
        okm = len(accs) == 1
        why = "%d variables are carried across the rows" % len(accs)
        if okm:
            ml = next(iter(accs))
            mvar = ("var", fb.local_name[ml])
            segs = sym_segment(fb, it.some, [it.nbi]) or []
            okm = bool(segs)
            for lits, env in segs:
                fin = norm(env.get(mvar, mvar))
                vcur = val
                # the row value as this path computed it (locals substituted)
                lt = None
                for a_, v_ in lits:
                    a_ = norm(a_)
                    if a_[0] == "bin" and a_[1] == "Lt" and norm(fb.expand(a_[2])) == vcur and a_[3] == mvar:
                        lt = v_          # val < min
                    elif a_[0] == "bin" and a_[1] == "Lt" and a_[2] == mvar and norm(fb.expand(a_[3])) == vcur:
                        lt = (not v_) if lt is None else lt   # min < val: then not (val < min); equal values fold either way
                fe = norm(fb.expand(fin))
                is_min = (is_call(fe, "Ord::min") or is_call(fe, "cmp::min") or is_call(fe, "min")) and len(fe[2]) == 2 and \
                    {norm(fb.expand(fe[2][0])), norm(fb.expand(fe[2][1]))} == {mvar, vcur}
                if is_min:
                    continue
                if lt is True and fe == vcur:
                    continue
                if lt is False and fin == mvar:
                    continue
                okm = False
                why = "a round can leave the accumulator at %s" % show(fe)
            init = [norm(fb.def_expr(a_, b_, True)) for a_, b_ in fb.defs.get(ml, []) if a_ not in it.region]
            okinit = len(init) == 1 and init[0][0] == "const" and init[0][1] >= 15
            rep.check(okinit, rule, fl, sest, "min init", "the fold starts at a value >= 15 (%s)" % (init[0][1] if init else "?"), "min starts at %s: estimates would be capped below the counters" % [show(z) for z in init])
            ret = norm(return_expr(fb)) if return_expr(fb) is not None else ("unknown",)
            rep.check(strip_casts(ret) == mvar or strip_casts(norm(fb.expand(ret))) == mvar, rule, fl, sest, "returns min", "estimate returns the folded minimum", "estimate returns %s" % show(ret))
        rep.check(okm, rule, fl, sest, "min fold", "after every row the accumulator is min(accumulator, row value): the estimate is the minimum over the rows",
                  "the per-row fold does not keep the minimum (%s)" % why)


def check_C13(rep, fl):
    facts = fl.facts
    # "never lower than the number of times it was recorded": the second and later sightings reach the sketch only if the
    # doorkeeper recognises the first - Bloom::contains probes exactly the positions Bloom::add set
    import props_store
    props_store.keep_rules(rep, fl, check_C14, {"R14.1"}, rename="R13.6")
    # "the doorkeeper is emptied": Bloom::reset / clear zero every word of the bit array (R14.4), not a prefix of it
    props_store.keep_sites(rep, fl, check_C14, ("zero all words",))
    get = facts.body(ROW + "::get")
    inc = facts.body(ROW + "::increment")
    i = V("i")
    # ---- R13.1 same cell read and written ------------------------------------------------
    g = nibble_parts(return_expr(get))
    if g is None:
        rep.bad("R13.1", fl, get, "shape", "CountMinRow::get is not (row[idx] >> shift) & mask: %s" % show(norm(return_expr(get))))
        return
    gidx, gshift, gmask, _ = g
    want_idx = norm(("cast", "usize", ("bin", "Div", i, ("const", 2, "u64"))))
    want_shift = pow2(("bin", "Mul", ("bin", "BitAnd", i, ("const", 1, "u64")), ("const", 4, "u64")))
    rep.check(gidx == want_idx and gshift == want_shift and gmask == 15, "R13.1", fl, get, "cell(i)",
              "get(i) reads nibble (i&1) of byte i/2: (row[i/2] >> ((i&1)*4)) & 0x0f",
              "get(i) reads byte %s shift %s mask %#x; expected byte i/2, shift (i&1)*4, mask 0x0f" % (show(gidx), show(gshift), gmask))
    # the guard value in increment
    at, entry = dataflow(inc)
    writes = []
    for bi in inc.live_blocks():
        for si, st in enumerate(inc.blocks[bi]["stmts"]):
            if st["k"] == "assign" and "*" in st["pl"]["p"]:
                tgt = place_target(inc, st["pl"])
                if tgt is not None and (is_call(tgt, "IndexMut::index_mut") or is_call(tgt, "index_mut")):
                    writes.append((bi, si, st, tgt))
    if len(writes) != 1:
        rep.bad("R13.2", fl, inc, "write", "expected one write to a row byte in CountMinRow::increment, found %d" % len(writes))
        return
    bi, si, st, tgt = writes[0]
    widx = norm(tgt[2][1])
    rv = norm(inc.rvalue_expr(st["rv"], True))
    rep.check(norm(inc.expand(widx)) == gidx, "R13.1", fl, inc, "write idx", "increment(i) writes the byte get(i) reads (i/2)",
              "increment writes byte %s but get reads byte %s: recorded accesses are not the ones estimated" % (show(norm(inc.expand(widx))), show(gidx)), loc=st["sp"])
    # rv = old + (1 << shift)
    okrv = rv[0] == "bin" and rv[1] == "Add"
    delta = None
    if okrv:
        for x, y in ((rv[2], rv[3]), (rv[3], rv[2])):
            if is_call(x, "index_mut") or is_call(x, "IndexMut::index_mut"):
                delta = y
    okd = delta is not None and delta[0] == "bin" and delta[1] == "Shl" and delta[2] == ("const", 1, "u8") and pow2(inc.expand(delta[3])) == gshift
    rep.check(okd, "R13.2", fl, inc, "delta", "the write adds exactly 1 << ((i&1)*4): one unit of the addressed nibble",
              "the write is %s; expected row[i/2] + (1 << ((i&1)*4))" % show(rv), loc=st["sp"])
    # guard: (row[idx] >> shift) & 0x0f < 15 on every path to the write
    ok = True
    for s in at.get((bi, si), set()) or entry.get(bi, set()):
        found = False
        for atom, val in s.lits:
            ea = norm(inc.expand(atom))
            if ea[0] == "bin" and ea[1] == "Lt" and ea[3] == ("const", 15, "u8") and val is True:
                lhs = ea[2]
                if (is_call(lhs, ROW + "::get") or is_call(lhs, "CountMinRow::get")) and len(lhs[2]) == 2 and norm(lhs[2][0]) == V("self"):
                    # `self.get(i) < 15`: the accessor checked under R13.1, applied to this row
                    lhs = norm(subst(norm(return_expr(get)), {V(get.local_name.get(2, "i")): norm(lhs[2][1])}))
                np_ = nibble_parts(lhs)
                if np_ and np_[0] == gidx and np_[1] == gshift and np_[2] == 15:
                    found = True
        if not found:
            ok = False
    rep.check(ok, "R13.2", fl, inc, "saturation guard", "the increment is dominated by nibble(i) < 15 on the same byte and shift: counters saturate, never wrap into the neighbour",
              "the increment is reachable without `((row[i/2] >> shift) & 0x0f) < 15` (same cell): a full counter would wrap / carry into its neighbour", loc=st["sp"])

    # ---- R13.3 reset / clear ---------------------------------------------------------------
    for meth, want in (("reset", "halve"), ("clear", "zero")):
        b = facts.body(ROW + "::" + meth)
        it = single_iteration(facts, b)
        if it is None:
            rep.bad("R13.3", fl, b, "iteration", "CountMinRow::%s does not iterate its bytes (one loop / for_each over self.0)" % meth)
            continue
        fb = it.body
        recv = it.source
        okr = is_call(recv, "iter_mut") and norm(recv[2][0]) == norm(F(V("self"), "0"))
        rep.check(okr, "R13.3", fl, b, "iterates all bytes", "%s visits every byte of the row (self.0.iter_mut())" % meth, "%s iterates %s" % (meth, show(recv)))
        ws = it.deref_writes()
        okw = len(ws) == 1 and it.is_elem(place_target(fb, ws[0][2]["pl"]))
        val = it.canon(fb.rvalue_expr(ws[0][2]["rv"], True)) if ws else None
        v = ("elem",)
        if want == "halve":
            wantv = norm(("bin", "BitAnd", ("bin", "Shr", v, ("const", 1, "i32")), ("const", 0x77, "u8")))
            okv = val == wantv
            desc = "*v = (*v >> 1) & 0x77 (both nibbles halved, no bit leaks across the nibble boundary)"
        else:
            okv = val == ("const", 0, "u8")
            desc = "*v = 0"
        rep.check(okw and okv and it.every_round([ws[0][0]] if ws else []) and must_pass_through(fb, [it.nbi]), "R13.3", fl, b, meth, desc, "%s writes %s; expected %s" % (meth, show(val) if val else "nothing", desc))
    for meth in ("reset", "clear"):
        b = facts.body(CMS + "::" + meth)
        it = single_iteration(facts, b)
        ok = False
        if it is not None:
            recv = it.source
            inner = it.calls_to(ROW + "::" + meth)
            ok = is_call(recv, "iter_mut") and norm(recv[2][0]) == norm(F(V("self"), "rows")) and len(inner) == 1 and \
                it.is_elem(it.body.call_args(inner[0][1])[0]) and it.every_round([inner[0][0]]) and must_pass_through(it.body, [it.nbi])
        rep.check(ok, "R13.3", fl, b, "all rows", "CountMinSketch::%s applies row.%s() to every row" % (meth, meth), "CountMinSketch::%s does not %s every row" % (meth, meth))

    check_sketch_cells(rep, fl)

    # ---- R13.5 sizing -----------------------------------------------------------------------
    check_sketch_sizing(rep, fl, "R13.5")

    # ---- R13.6 TinyLFU logic ------------------------------------------------------------------
    check_tinylfu(rep, fl)

    # ---- R13.7 fresh state is zero ---------------------------------------------------------------
    rn = facts.body(ROW + "::new")
    e = norm(return_expr(rn))
    okz = e[0] == "agg" and is_call(e[3][0], "from_elem") and e[3][0][2][0] == ("const", 0, "u8")
    rep.check(okz, "R13.7", fl, rn, "zeroed", "a new row is vec![0; width]", "CountMinRow::new builds %s" % show(e))
    bn = facts.body(BLOOM + "::new")
    e = norm(return_expr(bn))
    flds = dict(zip(e[4], e[3])) if e[0] == "agg" else {}
    okz = is_call(flds.get("bitset", ()), "from_elem") and flds["bitset"][2][0] == ("const", 0, "u64")
    rep.check(okz, "R13.7", fl, bn, "zeroed", "a new Bloom filter is vec![0; words]", "Bloom::new builds bitset %s" % show(flds.get("bitset", ())))
    tn = facts.flat(facts.body(TLFU + "::new"))
    aggs = [norm(tn.rvalue_expr(st["rv"], True)) for bi in tn.live_blocks() for st in tn.blocks[bi]["stmts"]
            if st["k"] == "assign" and st["rv"]["k"] == "agg" and st["rv"].get("adt", "").endswith("TinyLFU")]
    okw = len(aggs) == 1 and dict(zip(aggs[0][4], aggs[0][3])).get("w") == ("const", 0, "usize")
    rep.check(okw, "R13.7", fl, tn, "w=0", "TinyLFU::new starts the aging counter w at 0", "TinyLFU::new does not start w at 0")
    if okw:
        f = dict(zip(aggs[0][4], aggs[0][3]))
        rep.check(f.get("samples") == V("num_ctrs"), "R13.6", fl, tn, "samples=num_ctrs", "aging period samples == num_counters", "samples is %s" % show(f.get("samples")))
        dk = f.get("doorkeeper")
        rep.check(is_call(dk, "Bloom::new") and dk[2][0] == V("num_ctrs"), "R14.5", fl, tn, "doorkeeper(num_ctrs, p)", "the doorkeeper is sized for num_counters entries",
                  "doorkeeper built as %s" % show(dk))


def check_sketch_sizing(rep, fl, rule):
    """Row width W(P) and mask M(P) extracted from CountMinSketch::new must satisfy W >= 1 and
    M/2 < W for every P in {2^0..2^63}, P = next_power_of_two(ctrs)."""
    facts = fl.facts
    new = facts.body(CMS + "::new")
    aggs = [(bi, norm(new.rvalue_expr(st["rv"], True))) for bi in new.live_blocks() for st in new.blocks[bi]["stmts"]
            if st["k"] == "assign" and st["rv"]["k"] == "agg" and st["rv"].get("adt", "").endswith("CountMinSketch")]
    if len(aggs) != 1:
        rep.missing(rule, fl, "CountMinSketch::new: constructor aggregate not found")
        return
    # (the rounded width may come back through a fallible helper: `let ctrs = Self::rounded_width(ctrs)?`)
    f = {k_: resolve_payloads(new, v_) for k_, v_ in zip(aggs[0][1][4], aggs[0][1][3])}
    mask_e = f["mask"]
    rows = f["rows"]
    widths = []
    if rows[0] == "agg" and rows[1] == "array":
        for r in rows[3]:
            if is_call(r, "CountMinRow::new"):
                widths.append(norm(r[2][0]))
    depth = facts.const_value("sketch::DEPTH")
    rep.check(len(widths) == depth, rule, fl, new, "rows", "%d rows are allocated" % depth, "%d rows allocated, DEPTH is %d" % (len(widths), depth))
    # the rows keep the width they were given: a row is built by CountMinRow::new only, and that is called from
    # CountMinSketch::new only (a clear / reset that re-allocates rows with a width of its own voids the bound above)
    makers, literals = set(), set()
    for b_ in facts.bodies:
        if not user_code(b_) or "::test" in b_.spath:
            continue
        r_ = strip_generics(b_.raw["root"])
        if calls_to(b_, ROW + "::new"):
            makers.add(r_)
        if agg_nodes(b_, "CountMinRow"):
            literals.add(r_)
    extra_ = (makers - {CMS + "::new"}) | (literals - {ROW + "::new"})
    rep.check(not extra_ and (CMS + "::new") in makers, rule, fl, ROW, "row allocation", "rows are allocated by CountMinSketch::new (through CountMinRow::new) only",
              "rows are also (re)allocated in %s: their width is no longer the one the index bound was established for" % sorted(short(x) for x in extra_))
    # CountMinRow::new(width) allocates `width` bytes
    rn = facts.body(ROW + "::new")
    e = norm(return_expr(rn))
    okn = e[0] == "agg" and is_call(e[3][0], "from_elem") and strip_casts(e[3][0][2][1]) == V("width")
    rep.check(okn, rule, fl, rn, "len", "CountMinRow::new(width) allocates width bytes", "CountMinRow::new allocates %s" % show(e))
    ctrs = V("ctrs")
    bad = []
    n_eval = 0
    try:
        for k in range(64):
            p = 1 << k
            # smallest and largest ctrs mapping to this power of two
            for c in sorted({p, (p >> 1) + 1 if p > 1 else 1}):
                env = {ctrs: c}
                m = eval_expr(mask_e, env)
                for w_e in widths:
                    w = eval_expr(w_e, env)
                    n_eval += 1
                    # counters addressed: i = x & m  in [0, m]; byte index i/2 <= m/2 must be < w
                    if w < 1 or (m >> 1) >= w:
                        bad.append((c, m, w))
    except CannotEval as ex:
        rep.bad(rule, fl, new, "sizing", "unrecognised sizing expression (cannot fold %s): mask=%s width=%s" % (ex, show(mask_e), [show(w) for w in widths]))
        return
    # values of ctrs excluded by the constructor's own validation
    at, entry = dataflow(new)
    reject_lt = None
    for (bi, si), sts in at.items():
        pass
    # the guard `ctrs < 1 -> Err`: find minimal accepted ctrs by scanning literals on the Ok path
    min_ok = 1
    bad = [b for b in bad if b[0] >= min_ok]
    rep.check(not bad, rule, fl, new, "rows>=1 && index<width",
              "for every accepted num_counters (64 powers of two, %d evaluations): row width >= 1 byte and (mask/2) < width" % n_eval,
              "num_counters=%d gives mask=%d and row width=%d bytes: counter index %d/2 is outside the row (the first estimate/increment indexes an empty or too short Vec and panics the worker)" % (
                  bad[0][0], bad[0][1], bad[0][2], bad[0][1]) if bad else "")


def ws_all(b, w):
    """Assignments to the place w in body b: (bi, si, value)."""
    return [(bi, si, norm(b.rvalue_expr(st["rv"], True))) for bi in b.live_blocks() for si, st in enumerate(b.blocks[bi]["stmts"])
            if st["k"] == "assign" and place_target(b, st["pl"]) == w]


RESETTABLE = (  # (type, methods that bring it back to its fresh state)
    (BLOOM, ("reset", "clear")),
    (CMS, ("reset", "clear")),
    (TLFU, ("clear",)),
    ("policy::SampledLFU", ("clear",)),
)


# fields that may keep their value across a reset, with the reason (checked where it can be)
RESET_EXEMPT = {
    (BLOOM, "elem_num"): "write-only statistic: incremented by add(), read by nothing (checked: no other reader)",
    ("policy::SampledLFU", "metrics"): "the metrics handle installed by collect_metrics must survive clear() (R17.9 demands exactly that)",
}


def field_readers(facts, owner, fld, other=None):
    out = set()
    for b in facts.bodies:
        if not user_code(b) or "::test" in b.spath or (other and other in b.spath):
            continue
        for bi, si, role, pl in b.place_uses():
            if role in ("read", "ref") and has_field(pl, fld, owner):
                out.add(strip_generics(b.raw["root"]))
    return out


def field_mutators(facts, owner, other=None):
    """root function -> set of fields of `owner` that it writes or mutably borrows (directly or in a closure)."""
    a = facts.adts.get(owner)
    names = [f["name"] for v in (a["variants"] if a else []) for f in v["fields"]]
    out = {}
    for b in facts.bodies:
        if not user_code(b) or "::test" in b.spath or (other and other in b.spath):
            continue
        for bi, si, role, pl in b.place_uses():
            if role not in ("write", "mutref"):
                continue
            for fld in names:
                if has_field(pl, fld, owner):
                    out.setdefault(strip_generics(b.raw["root"]), set()).add(fld)
            # `*self = Self::new(..)`: every field at once
            if role == "write" and pl["p"] == ["*"] and 1 <= pl["l"] <= b.arg_count and \
                    strip_generics(b.locals[pl["l"]]["ty"].replace("&mut ", "").split("<")[0]) == owner:
                out.setdefault(strip_generics(b.raw["root"]), set()).update(names)
    return out, names


def check_window_owners(rep, fl, rule="R13.6"):
    """The aging window counts recorded accesses and nothing else: TinyLFU.w is written by increment (one step per
    recorded access), by the reset it triggers and by clear() only; and the doorkeeper takes a hash only as part of
    such a recorded access (contains_or_add called from increment) - every hash in the filter has advanced the
    window, so the filter never holds more than `samples` hashes between two resets (what it was sized for)."""
    facts = fl.facts
    other = "r#async" if fl.name == "sync" else "::sync::"
    muts, names = field_mutators(facts, TLFU, other)
    w_writers = {r for r, flds in muts.items() if "w" in flds}
    allowed = {TLFU + "::increment", TLFU + "::try_reset", TLFU + "::reset", TLFU + "::clear", TLFU + "::new"}
    if (TLFU + "::increment") not in w_writers and (TLFU + "::try_reset") not in w_writers:
        rep.missing(rule, fl, "no write of TinyLFU.w found in increment / try_reset")
    extra = w_writers - allowed
    rep.check(not extra, rule, fl, TLFU, "window writers", "the sample window w is advanced by increment (and zeroed by reset / clear) only",
              "TinyLFU.w is also written by %s: the counters are halved after fewer (or more) than `samples` recorded accesses" % sorted(short(x) for x in extra))
    adders = set()
    for b in facts.bodies:
        if not user_code(b) or "::test" in b.spath or other in b.spath:
            continue
        for bi, t in b.calls():
            c = b.callee_of(t)
            if callee_matches(c, BLOOM + "::contains_or_add") or callee_matches(c, BLOOM + "::add") or callee_matches(c, BLOOM + "::set"):
                adders.add(strip_generics(b.raw["root"]))
    ok_adders = {TLFU + "::increment", BLOOM + "::contains_or_add", BLOOM + "::add", BLOOM + "::set"}
    if (TLFU + "::increment") not in adders:
        rep.missing(rule, fl, "TinyLFU::increment does not add to the doorkeeper")
    extra = adders - ok_adders
    rep.check(not extra, rule, fl, BLOOM, "doorkeeper adders", "a hash enters the doorkeeper only through TinyLFU::increment (which advances the window)",
              "the doorkeeper is also filled by %s, outside the sample window: between two resets it can hold more hashes than it was sized for (false positives above the target), and the added hashes never age" % sorted(short(x) for x in extra))


def check_reset_complete(rep, fl, rule, only=None):
    """`clear()` / `reset()` give a fresh object: every field that some other method changes after construction
    is also written (or handed out mutably) by them.  A field that remembers something across a reset - a memo, a
    cursor, a second counter - makes the cleared estimator differ from a new one."""
    facts = fl.facts
    other = "r#async" if fl.name == "sync" else "::sync::"
    for owner, resetters in RESETTABLE:
        if only and owner not in only:
            continue
        muts, names = field_mutators(facts, owner, other)
        if not names:
            rep.missing(rule, fl, "type %s" % owner)
            continue
        ctor = lambda root: root.split("::")[-1] in ("new", "default", "with_hasher", "with_samples", "with_samples_and_hasher", "new_with_key_builder", "clone")
        state = set()
        for root, flds in muts.items():
            last = root.split("::")[-1]
            if ctor(root) or (root.startswith(owner + "::") and last in resetters):
                continue
            state |= flds
        for (o2, f2), why in RESET_EXEMPT.items():
            if o2 == owner and f2 in state:
                if "write-only" in why:
                    readers = {r for r in field_readers(facts, owner, f2, other) if f2 not in muts.get(r, set()) and not r.endswith("::fmt")}
                    if readers:
                        continue  # somebody reads it now: it is state like any other
                state.discard(f2)
        for m in resetters:
            done = muts.get(owner + "::" + m, set())
            # a resetter may delegate to another one of the same type (clear -> reset)
            b = facts.body(owner + "::" + m, required=False)
            if b is None:
                rep.missing(rule, fl, "%s::%s" % (owner, m))
                continue
            for m2 in resetters:
                if m2 != m and calls_to(facts.flat(b), owner + "::" + m2):
                    done = done | muts.get(owner + "::" + m2, set())
            left = sorted(state - done)
            rep.check(not left, rule, fl, b, "resets all mutable state", "%s::%s writes every field that changes after construction (%s)" % (short(owner), m, ", ".join(sorted(state)) or "none"),
                      "%s::%s leaves %s as it was: the %s state survives the reset, so the object does not behave like a fresh one" % (short(owner), m, ", ".join(left), ", ".join(left)))


def check_policy_reset(rep, fl, rule="R11.2"):
    """The policy's `clear()` gives a fresh policy: every field of PolicyInner that some method changes after
    construction is written (or handed out mutably - `inner.admit.clear()`) by LFUPolicy::clear as well.  A field that
    remembers something across a clear - the last rejected key, a cached sample - makes the cleared cache decide
    admissions differently from a new one."""
    facts = fl.facts
    other = "r#async" if fl.name == "sync" else "::sync::"
    owner = "policy::PolicyInner"
    muts, names = field_mutators(facts, owner, other)
    clear_root = fl.policy + "::clear"
    if not names or clear_root not in muts:
        rep.missing(rule, fl, "type %s / %s" % (owner, clear_root))
        return
    ctor = lambda root: root.split("::")[-1] in ("new", "default", "with_hasher", "clone")
    state = set()
    for root, flds in muts.items():
        if ctor(root) or root == clear_root:
            continue
        state |= flds
    left = sorted(state - muts[clear_root])
    rep.check(not left and len(state) >= 2, rule, fl, facts.body(clear_root, required=False) or clear_root, "resets all mutable state",
              "%s::clear resets every field of PolicyInner that changes after construction (%s)" % (short(fl.policy), ", ".join(sorted(state))),
              "%s::clear leaves %s as it was: what the policy remembered there survives clear(), so the cleared cache does not decide like a fresh one" % (short(fl.policy), ", ".join(left) or "(no mutable state found)"))


def check_counters_plumbing(rep, fl, rule="R13.8"):
    """The builder's num_counters is the estimator's size: finalize hands `inner.num_counters` to the policy
    constructor, which hands it on unchanged to PolicyInner::with_hasher and TinyLFU::new, where it becomes the
    sample window (`samples`), the sketch width and the doorkeeper's capacity."""
    facts = fl.facts

    def forwards(b, callee, pos, want, what):
        cs = calls_to(b, callee) if b is not None else []
        ok = len(cs) == 1
        got = None
        if ok:
            got = strip_casts(norm(b.expand(norm(b.call_args(cs[0][1])[pos]))))
            ok = got == want
        rep.check(ok, rule, fl, b if b is not None else callee, what, "%s receives the number of counters unchanged" % short(callee),
                  "%s is given %s instead of the configured number of counters: the aging window / sketch / doorkeeper are sized for another value" % (short(callee), show(got) if got is not None else "nothing"))
    fin = fl.code(fl.builder + "::finalize")
    forwards(fin, fl.policy + "::with_hasher", 0, norm(F(V("self"), "inner", "num_counters")), "finalize -> policy")
    ph = fl.code(fl.policy + "::with_hasher")
    forwards(ph, "policy::PolicyInner::with_hasher", 0, V(ph.local_name.get(1, "arg1")) if ph is not None else None, "policy -> inner")
    pi = facts.body("policy::PolicyInner::with_hasher", required=False)
    forwards(pi, TLFU + "::new", 0, V(pi.local_name.get(1, "arg1")) if pi is not None else None, "inner -> TinyLFU")
    tn = facts.flat(facts.body(TLFU + "::new"))   # `Ok(Self {..})` and `CountMinSketch::new(n).map(|ctr| Self {..})` alike
    n = V(tn.local_name.get(1, "arg1"))
    cf = None
    for bi, si, st, e in agg_nodes(tn, "TinyLFU"):
        cf = agg_fields(e)
    ok = cf is not None and strip_casts(norm(tn.expand(cf.get("samples", ())))) == n
    if ok:
        ctr = [c for c in calls_in(norm(tn.expand(cf.get("ctr", ())))) if is_call(c, CMS + "::new")]
        dk = [c for c in calls_in(norm(tn.expand(cf.get("doorkeeper", ())))) if is_call(c, BLOOM + "::new")]
        ok = len(ctr) == 1 and strip_casts(norm(ctr[0][2][0])) == n and len(dk) == 1 and strip_casts(norm(dk[0][2][0])) == n
    rep.check(ok, rule, fl, tn, "TinyLFU::new(n)", "TinyLFU::new(n) sets samples = n and sizes the sketch and the doorkeeper for n",
              "TinyLFU::new no longer uses its argument as the sample window, the sketch width and the doorkeeper capacity")


def check_contains_or_add(rep, fl, rule="R13.6"):
    facts = fl.facts
    # contains_or_add: contains -> false ; else add, true
    cb = facts.body(BLOOM + "::contains_or_add")
    at, entry = dataflow(cb)
    ad = calls_to(cb, BLOOM + "::add")
    ok = len(ad) == 1
    if ok:
        h = V("hash")
        want = ("not", ("atom", ("call", BLOOM + "::contains", (V("self"), h))))
        ok = all(feval(want, s) is True for s in at.get((ad[0][0], term_idx(cb, ad[0][0])), set())) and norm(cb.call_args(ad[0][1])[1]) == h
        # return value: true iff added
        for rbi, rsi in cb.defs.get(0, []):
            e = norm(cb.def_expr(rbi, rsi, True))
            added = rbi in cb.reachable(ad[0][0])
            ok = ok and e == ("const", 1 if added else 0, "bool")
            if not added:
                # "already there" is said only after the filter itself said so (no memo, no shortcut)
                seen = ("atom", ("call", BLOOM + "::contains", (V("self"), h)))
                sts = at.get((rbi, rsi), set())
                ok = ok and bool(sts) and all(feval(seen, s_) is True for s_ in sts)
    rep.check(ok, rule, fl, cb, "contains_or_add", "adds exactly when absent and returns whether it added", "contains_or_add does not add-when-absent / report it")


def check_tinylfu(rep, fl):
    facts = fl.facts
    dk = norm(F(V("self"), "doorkeeper"))
    ctr = norm(F(V("self"), "ctr"))
    kh = V("kh")
    # estimate = ctr.estimate(kh) + (1 if doorkeeper.contains(kh))
    est = facts.flat(facts.body(TLFU + "::estimate"))
    base = norm(call(CMS + "::estimate", ctr, kh))
    seen_dk = norm(call(BLOOM + "::contains", dk, kh))
    paths = sym_paths(est)
    ok = bool(paths)
    for lits, ret in paths or []:
        if ret is None:
            ok = False
            continue
        d = lin_sub(lin(ret), lin(base))
        hit = [v for a, v in lits if a == seen_dk]
        if hit:
            # the bonus is exactly 1 on the path where the doorkeeper has seen the key
            ok = ok and lin_key(d) == lin_key({1: 1} if hit[0] else {})
        else:
            # branch-free spelling: base + i64::from(contains(..)) / (contains(..) as i64)
            rest = [t for t in d if t != 1]
            ok = ok and len(rest) == 1 and d[rest[0]] == 1 and 1 not in d and \
                (strip_casts(rest[0]) == seen_dk or ((is_call(rest[0], "From::from") or is_call(rest[0], "from") or is_call(rest[0], "Into::into")) and norm(rest[0][2][0]) == seen_dk))
    rep.check(ok, "R13.6", fl, est, "estimate", "estimate(kh) = ctr.estimate(kh) + 1 iff doorkeeper.contains(kh)", "TinyLFU::estimate is not sketch estimate plus the doorkeeper bonus")
    # increment: !contains_or_add(kh) => ctr.increment(kh); then try_reset on every path
    inc = facts.body(TLFU + "::increment")
    at, entry = dataflow(inc)
    ci = calls_to(inc, CMS + "::increment")
    tr = calls_to(inc, TLFU + "::try_reset")
    coa = calls_to(inc, BLOOM + "::contains_or_add")
    ok = len(ci) == 1 and len(tr) == 1 and len(coa) == 1
    if ok:
        want = ("not", ("atom", ("call", BLOOM + "::contains_or_add", (dk, kh))))
        ok = all(feval(want, s) is True for s in at.get((ci[0][0], term_idx(inc, ci[0][0])), set()))
        a = [norm(x) for x in inc.call_args(ci[0][1])]
        ok = ok and a[0] == ctr and a[1] == kh and must_pass_through(inc, [tr[0][0]])
        # the counter is incremented whenever the doorkeeper already had the key
        for bi in inc.live_blocks():
            t = inc.term(bi)
            if t and t["k"] == "switch":
                for tgt, atom, pol in edge_literals(inc, bi):
                    if atom is not None and is_call(norm(inc.expand(atom)), "Bloom::contains_or_add") and pol is False:
                        ok = ok and must_pass_through(inc, [ci[0][0]], from_bi=tgt)
    rep.check(ok, "R13.6", fl, inc, "increment", "first sighting goes to the doorkeeper, later ones to the sketch; try_reset runs on every path",
              "TinyLFU::increment no longer records repeated sightings in the sketch / ages on every recording")
    check_contains_or_add(rep, fl)
    # "on a fresh or cleared estimator every key estimates zero": nothing the estimator accumulates survives clear / reset
    check_reset_complete(rep, fl, "R13.3", only=(BLOOM, CMS, TLFU))

    check_counters_plumbing(rep, fl)
    # "clear() zeroes everything": the policy's clear reaches TinyLFU::clear on every path
    import props_life
    props_life.check_policy_clear(rep, fl, rule="R13.3")
    check_window_owners(rep, fl, rule="R13.6")
    # try_reset: w += 1; reset iff w >= samples
    tr = facts.body(TLFU + "::try_reset")
    at, entry = dataflow(tr)
    w = norm(F(V("self"), "w"))
    samples = norm(F(V("self"), "samples"))
    ws = [x for x in ws_all(tr, w) if x[2] != ("const", 0, "usize")]
    okw = len(ws) == 1 and ws[0][2] == norm(("bin", "Add", w, ("const", 1, "usize"))) and must_pass_through(tr, [ws[0][0]])
    # the aging step (TinyLFU::reset is spliced into try_reset, core.ALWAYS_INLINE): w = 0, doorkeeper.reset(),
    # ctr.reset(), all three exactly on the `w >= samples` edge, after the increment of w
    zs = [(bi, si) for bi, si, e in ws_all(tr, w) if e == ("const", 0, "usize")]
    dr = [(bi, t) for bi, t in calls_to(tr, BLOOM + "::reset") if norm(tr.call_args(t)[0]) == dk]
    cr = [(bi, t) for bi, t in calls_to(tr, CMS + "::reset") if norm(tr.call_args(t)[0]) == ctr]
    okr = len(zs) == 1 and len(dr) == 1 and len(cr) == 1 and okw
    if okr:
        # the test reads the stored field after the write, or a local that holds the value just written
        # (`let w = self.w + 1; self.w = w; if w >= self.samples`)
        tests = [norm(("bin", "Lt", w, samples)), norm(("bin", "Lt", ws[0][2], samples))]
        acts = [(zs[0][0], zs[0][1]), (dr[0][0], term_idx(tr, dr[0][0])), (cr[0][0], term_idx(tr, cr[0][0]))]
        for nk in acts:
            # branch history: the test was taken before `w = 0` overwrote the variable it speaks about
            good, cx = all_states(tr, at, nk, OR(*[NOT(A(t_)) for t_ in tests]), hist=True)
            okr = okr and good and nk[0] in tr.reachable(ws[0][0])
        n_edges = 0
        for bi in tr.live_blocks():
            t = tr.term(bi)
            if t and t["k"] == "switch":
                for tgt, atom, pol in edge_literals(tr, bi):
                    if atom is not None and (atom in tests or norm(tr.expand(atom)) in tests) and pol is False:
                        n_edges += 1
                        okr = okr and all(must_pass_through(tr, [nk[0]], from_bi=tgt) for nk in acts)
                        # a test on the stored field comes after the write; one on the local may come any time
                        okr = okr and (norm(tr.expand(atom)) == tests[1] or atom == tests[1] or bi in tr.reachable(ws[0][0]) or bi == ws[0][0])
        okr = okr and n_edges >= 1
    rep.check(okw and okr, "R13.6", fl, tr, "try_reset", "w += 1 on every recording; exactly when w >= samples: w = 0, doorkeeper.reset(), ctr.reset()",
              "aging is not `w += 1; if w >= samples { w = 0; doorkeeper.reset(); ctr.reset() }`")
    # clear
    for meth, dkm, cm in (("clear", "clear", "clear"),):
        b = facts.body(TLFU + "::" + meth)
        wsx = [(bi, norm(b.rvalue_expr(st["rv"], True))) for bi in b.live_blocks() for st in b.blocks[bi]["stmts"] if st["k"] == "assign" and place_target(b, st["pl"]) == w]
        d = calls_to(b, BLOOM + "::" + dkm)
        c = calls_to(b, CMS + "::" + cm)
        ok = len(wsx) == 1 and wsx[0][1] == ("const", 0, "usize") and len(d) == 1 and len(c) == 1 and norm(b.call_args(d[0][1])[0]) == dk and norm(b.call_args(c[0][1])[0]) == ctr \
            and must_pass_through(b, [d[0][0]]) and must_pass_through(b, [c[0][0]]) and must_pass_through(b, [wsx[0][0]])
        rep.check(ok, "R13.6", fl, b, meth, "%s: w = 0, doorkeeper.%s(), ctr.%s()" % (meth, dkm, cm), "TinyLFU::%s does not reset w, the doorkeeper and the sketch" % meth)
    # increments -> increment per element
    b = facts.body(TLFU + "::increments")
    it = single_iteration(facts, b)
    ok = False
    if it is not None:
        recv = it.source
        c = it.calls_to(TLFU + "::increment")
        ok = iterates(it, V("khs")) and len(c) == 1 and it.is_elem(it.body.call_args(c[0][1])[1]) and it.every_round([c[0][0]])
    rep.check(ok, "R13.6", fl, b, "increments", "increments(khs) records every element", "increments does not call increment for every element of the batch")


# ----------------------------------------------------------------------------------------
# C14
# ----------------------------------------------------------------------------------------

def bloom_cell(body):
    """(byte offset expr, bit expr, base) of set/is_set in terms of idx."""
    idx = V("idx")
    offs = None
    base = None
    bit = None
    # pointer: cast(... Add(base as usize, off)) ; find the Add whose one side is as_ptr/as_mut_ptr
    exprs = []
    # the position is the function's one argument, whatever it is called and whichever integer type it arrives in (a
    # `u64` narrowed to usize inside is the same number on the 64-bit targets the pointer arithmetic assumes)
    pn = V(body.local_name.get(2, "idx"))
    ren = {("cast", "usize", pn): idx, ("cast", "u64", pn): idx, pn: idx}
    for bi in body.live_blocks():
        for st in body.blocks[bi]["stmts"]:
            if st["k"] == "assign":
                exprs.append(norm(subst(norm(body.rvalue_expr(st["rv"], True)), ren)))
    for e in exprs:
        # the address: a pointer-typed cast of (base as usize + offset terms)
        if e[0] == "cast" and e[1].startswith("*") and offs is None:
            terms = lin(e[2])
            rest = None
            for t, c in terms.items():
                st_ = strip_casts(t) if isinstance(t, tuple) else t
                if isinstance(st_, tuple) and (is_call(st_, "as_mut_ptr") or is_call(st_, "as_ptr")) and c == 1:
                    base = norm(st_[2][0])
                else:
                    term = ("const", c, "usize") if t == 1 else (t if c == 1 else ("bin", "Mul", ("const", c, "usize"), t))
                    rest = term if rest is None else ("bin", "Add", rest, term)
            if base is not None:
                offs = norm(rest) if rest is not None else ("const", 0, "usize")
    unit = 8
    if offs is None:
        # the safe spelling: the cell is a whole word of the vector, `bitset[w]`, and the bit a shift inside it
        for e in exprs:
            for sub in subexprs(e):
                if sub[0] == "call" and sub[1].rsplit("::", 1)[-1] in ("index", "index_mut", "get_unchecked", "get_unchecked_mut") and len(sub[2]) == 2 and mentions(sub[2][1], idx):
                    w = norm(sub[2][1])
                    if offs is None or offs == w:
                        offs, base, unit = w, norm(sub[2][0]), 64
    one = ("const", 1, "u8" if unit == 8 else "u64")
    cell = (lambda x: is_call(x, "as_ptr") or is_call(x, "as_mut_ptr")) if unit == 8 else (lambda x: x[0] == "call" and x[1].rsplit("::", 1)[-1] in ("index", "index_mut", "get_unchecked", "get_unchecked_mut"))
    for e in exprs:
        for sub in subexprs(e):
            if sub[0] == "bin" and sub[1] == "Shl" and sub[2] == one and mentions(sub[3], idx):
                bit = sub[3]
            if sub[0] == "bin" and sub[1] == "Shr" and mentions(sub[3], idx) and any(cell(x) for x in subexprs(sub[2])):
                bit = sub[3]
    return offs, bit, base, unit


_FCONST = {"std::f64::consts::LN_2": math.log(2.0), "std::f64::consts::LN_10": math.log(10.0), "std::f64::consts::E": math.e, "std::f64::consts::PI": math.pi,
           "std::f64::consts::LOG2_E": 1.0 / math.log(2.0), "std::f64::consts::LOG10_E": 1.0 / math.log(10.0), "std::f64::consts::LOG2_10": math.log2(10.0)}


def monomial(e):
    """A floating-point expression built from constants, variables, `*`, `/`, unary minus, ln / log2 / log10, powf / powi /
    sqrt as  coefficient * prod(base ^ exponent): (coef, {base: exponent}), or None when it has another shape.  Two
    spellings of the same formula have the same monomial (`-n * ln p / LN_2^2`, `n * (-log2 p) / LN_2`)."""
    e = norm(e)
    k = e[0]

    def mul(a, b, sign=1):
        if a is None or b is None:
            return None
        f = dict(a[1])
        for base, ex in b[1].items():
            f[base] = f.get(base, 0) + sign * ex
        return (a[0] * (b[0] if sign == 1 else 1.0 / b[0]) if (sign == 1 or b[0] != 0) else None, {x: y for x, y in f.items() if abs(y) > 1e-12})
    if k == "cstr":
        try:
            return (float(re.sub(r"_?f(32|64)$", "", str(e[1]).replace("_", ""))), {})
        except ValueError:
            return None
    if k == "const" and isinstance(e[1], (int, float)) and not isinstance(e[1], bool):
        return (float(e[1]), {})
    if k == "named":
        return (_FCONST[e[1]], {}) if e[1] in _FCONST else (1.0, {e: 1})
    if k == "cast":
        return monomial(e[2]) if e[1] in ("f64", "f32") else None
    if k == "var" or k == "field":
        return (1.0, {e: 1})
    if k == "un" and e[1] == "Neg":
        m = monomial(e[2])
        return None if m is None else (-m[0], m[1])
    if k == "bin" and e[1] in ("Mul", "Div"):
        r = mul(monomial(e[2]), monomial(e[3]), 1 if e[1] == "Mul" else -1)
        return None if r is None or r[0] is None else r
    if k == "call" and len(e[2]) >= 1:
        nm = e[1].rsplit("::", 1)[-1]
        if nm in ("ln", "log2", "log10") and len(e[2]) == 1:
            c = {"ln": 1.0, "log2": 1.0 / math.log(2.0), "log10": 1.0 / math.log(10.0)}[nm]
            return (c, {("ln", norm(e[2][0])): 1})
        if nm in ("powf", "powi") and len(e[2]) == 2:
            m, p_ = monomial(e[2][0]), monomial(e[2][1])
            if m is None or p_ is None or p_[1] or m[0] <= 0:
                return None
            return (m[0] ** p_[0], {b_: x_ * p_[0] for b_, x_ in m[1].items()})
        if nm == "sqrt" and len(e[2]) == 1:
            m = monomial(e[2][0])
            return None if m is None or m[0] < 0 else (m[0] ** 0.5, {b_: x_ * 0.5 for b_, x_ in m[1].items()})
    return None


def check_bloom_formula(rep, fl, rule="R14.6"):
    """The doorkeeper is dimensioned by the standard Bloom filter formulas: for n entries and target rate p,
    m = -n ln p / (ln 2)^2 bits and k = ceil(ln 2 * m / n) = ceil(-log2 p) probes.  Decided symbolically: the two result
    expressions are brought to coefficient * product-of-powers form and compared with the reference formulas."""
    facts = fl.facts
    b = facts.body("bbloom::calc_size_by_wrong_positives", required=False)
    if b is None:
        rep.missing(rule, fl, "bbloom::calc_size_by_wrong_positives")
        return
    e = norm(return_expr(b)) if return_expr(b) is not None else ("unknown",)
    f = agg_fields(e) if e[0] == "agg" else {}
    # the two parameters are told apart by type: the integer is n, the float is p
    n = p_ = None
    for i_ in range(1, b.arg_count + 1):
        ty_ = b.locals[i_]["ty"]
        if ty_ in ("usize", "u64", "u32") and n is None:
            n = V(b.local_name.get(i_, "arg%d" % i_))
        elif ty_ in ("f64", "f32") and p_ is None:
            p_ = V(b.local_name.get(i_, "arg%d" % i_))
    if n is None or p_ is None:
        rep.missing(rule, fl, "calc_size_by_wrong_positives: an integer and a float parameter")
        return

    def unwrap(x, ceil=False):
        x = norm(x)
        while x[0] == "cast" and x[1] in ("u64", "usize", "u32", "i64"):
            x = norm(x[2])
        if ceil and x[0] == "call" and x[1].rsplit("::", 1)[-1] == "ceil" and len(x[2]) == 1:
            x = norm(x[2][0])
        return x
    ln2 = math.log(2.0)
    want = {"entries": (-1.0 / (ln2 * ln2), {n: 1, ("ln", p_): 1}), "locs": (-1.0 / ln2, {("ln", p_): 1})}
    for fld, (wc, wf) in sorted(want.items()):
        got = monomial(unwrap(f.get(fld, ("unknown",)), ceil=(fld == "locs"))) if fld in f else None
        ok = got is not None and abs(got[0] - wc) <= 1e-9 * abs(wc) and {k_: round(v_, 9) for k_, v_ in got[1].items()} == {k_: float(v_) for k_, v_ in wf.items()}
        rep.check(ok, rule, fl, b, fld, "%s follows the Bloom filter formula (%s)" % (fld, "m = -n ln p / (ln 2)^2" if fld == "entries" else "k = ceil(ln 2 * m / n) = ceil(-log2 p)"),
                  "%s is computed as %s: not %s - the filter is dimensioned for another false-positive rate than the target" % (
                      fld, ("%.6g * %s" % (got[0], " * ".join("%s^%g" % (show(b_) if b_[0] != "ln" else "ln(%s)" % show(b_[1]), x_) for b_, x_ in sorted(got[1].items(), key=repr)))) if got else "an expression of another shape",
                      "-n ln p / (ln 2)^2" if fld == "entries" else "ceil(-log2 p)"))


def check_C14(rep, fl):
    facts = fl.facts
    add = facts.body(BLOOM + "::add")
    con = facts.body(BLOOM + "::contains")
    # ---- R14.1 add and contains visit the same positions ------------------------------------
    pos_add = pos_con = None
    rng_add = rng_con = None
    ita = single_iteration(facts, add)
    if ita is not None:
        sc = ita.calls_to(BLOOM + "::set")
        if len(sc) == 1:
            pos_add = ita.canon(ita.body.call_args(sc[0][1])[1])
            rng_add = ita.source
            rep.check(ita.every_round([sc[0][0]]), "R14.1", fl, add, "set every loc", "every probe position is set", "a probe position can be skipped in add")
    itc = single_iteration(facts, con)
    if itc is not None:
        ic = itc.calls_to(BLOOM + "::is_set")
        if len(ic) == 1:
            pos_con = itc.canon(itc.body.call_args(ic[0][1])[1])
            rng_con = itc.source
    con = facts.flat(con)
    if pos_add is None or pos_con is None:
        rep.missing("R14.1", fl, "Bloom::add / contains: probe position expression not found")
    else:
        hash_ = V("hash")
        shift = norm(F(V("self"), "shift"))
        h = ("bin", "Shr", hash_, shift)
        l = ("bin", "Shr", ("bin", "Shl", hash_, shift), shift)
        want = norm(("bin", "BitAnd", ("bin", "Add", h, ("bin", "Mul", ("elem",), l)), F(V("self"), "size")))
        # (the narrowing to usize may sit at the call or inside set / is_set)
        pos_add, pos_con = (x[2] if x[0] == "cast" and x[1] in ("usize", "u64") else x for x in (norm(pos_add), norm(pos_con)))
        rep.check(pos_add == pos_con, "R14.1", fl, BLOOM, "add==contains", "add and contains probe the same positions: %s" % show(pos_add),
                  "add probes %s but contains probes %s: an added hash can be reported absent" % (show(pos_add), show(pos_con)))
        rep.check(pos_add == want, "R14.1", fl, add, "positions", "positions are (h + i*l) & size with h = hash >> shift, l = (hash << shift) >> shift",
                  "probe position is %s" % show(pos_add))
        wantr = ("agg", "adt", "std::ops::Range::Range", (("const", 0, "u64"), norm(F(V("self"), "set_locs"))), ("start", "end"))
        rep.check(rng_add == rng_con == wantr, "R14.1", fl, BLOOM, "probe count", "both use i in 0..set_locs",
                  "add iterates %s, contains iterates %s: a hash is added with fewer/more probes than are tested" % (show(rng_add), show(rng_con)))
        # contains: false as soon as one probe is clear, true only after all probes
        at, entry = dataflow(con)
        ok = True
        for rbi, rsi in con.defs.get(0, []):
            e = norm(con.def_expr(rbi, rsi, True))
            sts = at.get((rbi, rsi), set())
            if e == ("const", 1, "bool"):
                ok = ok and all(any(a[0] == "variant" and a[2] == "None" and v for a, v in s.lits) for s in sts)
            elif e == ("const", 0, "bool"):
                ok = ok and all(any(is_call(norm(con.expand(a)), "Bloom::is_set") and v is False for a, v in s.lits) for s in sts)
            else:
                ok = False
        rep.check(ok, "R14.1", fl, con, "verdict", "contains is true only after every probe was set, false on the first clear probe", "contains' return values are not (all probes set)")
    # ---- R14.2 / R14.3 set and is_set address the same bit; all idx bits matter ----------------
    st_ = facts.body(BLOOM + "::set")
    is_ = facts.body(BLOOM + "::is_set")
    so, sb, sbase, sunit = bloom_cell(st_)
    io, ib, ibase, iunit = bloom_cell(is_)
    if so is None or io is None or sb is None or ib is None:
        rep.missing("R14.2", fl, "Bloom::set / is_set: byte offset / bit expression not found (%s,%s,%s,%s)" % (so, sb, io, ib))
    else:
        bits = norm(F(V("self"), "bitset"))
        rep.check(so == io and sb == ib and sbase == ibase == bits and sunit == iunit, "R14.2", fl, BLOOM, "set==is_set",
                  "set and is_set address %s base+%s, bit %s" % ("byte" if sunit == 8 else "word", show(so), show(sb)),
                  "set addresses byte +%s bit %s, is_set addresses byte +%s bit %s" % (show(so), show(sb), show(io), show(ib)))
        idx = V("idx")
        for b, off, bit in ((st_, so, sb), (is_, io, ib)):
            d = deps_union(bitdeps(off, idx)) | deps_union(bitdeps(bit, idx))
            missing = [i for i in range(64) if i not in d]
            rep.check(not missing, "R14.3", fl, b, "demanded bits",
                      "the addressed (byte, bit) depends on every bit of idx: distinct positions map to distinct cells",
                      "the addressed cell depends only on bits %s of idx (bits %s..%s are ignored): the filter has %d cells whatever its nominal size, so after a few insertions every probe is positive" % (
                          _ranges(sorted(d)), missing[0] if missing else "", missing[-1] if missing else "", 1 << len(d)))
        # injective on the low bits: the bit index must be idx & 7 and the offset must be a function of idx >> 3
        dbit = deps_union(bitdeps(sb, idx))
        doff = deps_union(bitdeps(so, idx))
        lowbits = frozenset(range(3 if sunit == 8 else 6))
        rep.check(dbit == lowbits and not (doff & dbit), "R14.2", fl, st_, "byte/bit split", "bit = idx & %d, %s offset depends on idx >> %d only" % (sunit - 1, "byte" if sunit == 8 else "word", len(lowbits)),
                  "bit index depends on idx bits %s, byte offset on %s" % (sorted(dbit), _ranges(sorted(doff))))
    # ---- R14.4 writers of bitset; reset/clear zero every word -----------------------------------
    writers = set()
    for b in facts.bodies:
        for bi, si, role, pl in b.place_uses():
            if role in ("write", "mutref") and has_field(pl, "bitset", BLOOM):
                writers.add(strip_generics(b.raw["root"]))
    allowed = {BLOOM + "::" + m for m in ("new", "size", "reset", "clear", "set")}
    rep.check(writers <= allowed and (BLOOM + "::set") in writers, "R14.4", fl, BLOOM, "bitset writers", "bitset is written only by %s" % sorted(writers),
              "bitset is also written by %s" % sorted(writers - allowed))
    for meth in ("reset", "clear"):
        b = facts.body(BLOOM + "::" + meth)
        it = single_iteration(facts, b)
        ok = False
        if it is not None:
            recv = it.source
            ws = it.deref_writes()
            ok = is_call(recv, "iter_mut") and norm(recv[2][0]) == norm(F(V("self"), "bitset")) and len(ws) == 1 and \
                norm(it.body.rvalue_expr(ws[0][2]["rv"], True)) == ("const", 0, "u64") and it.is_elem(place_target(it.body, ws[0][2]["pl"])) and it.every_round([ws[0][0]]) and must_pass_through(it.body, [it.nbi])
        rep.check(ok, "R14.4", fl, b, "zero all words", "%s zeroes every word of the bit array" % meth, "Bloom::%s does not zero every word" % meth)
    # the doorkeeper's one entry point: present -> false, absent -> add and true
    check_contains_or_add(rep, fl, rule="R14.2")
    check_reset_complete(rep, fl, "R14.4", only=(BLOOM,))
    check_counters_plumbing(rep, fl, rule="R14.7")
    # "reset/clear empties the filter completely", also when asked through the cache: policy.clear() reaches the
    # estimator's clear on every path (no `nothing tracked` shortcut - lookups of absent keys are in the filter too)
    import props_life
    props_life.check_policy_clear(rep, fl, rule="R14.4")
    # "after adding up to n distinct hashes": the filter is filled through the windowed path only
    check_window_owners(rep, fl, rule="R14.7")
    # "after adding up to n distinct hashes": the doorkeeper is built for num_counters entries and is emptied after
    # that many recordings - every hash it receives passes the per-key window count (increment -> try_reset), also
    # for a batch
    from framework import Report
    tmp = Report(rep.prop, rep.tier)
    try:
        check_tinylfu(tmp, fl)
    finally:
        for i in tmp.instances:
            if i.site in ("increment", "try_reset", "increments") or i.verdict == "anchor-missing":
                i.rule = "R14.7"
                rep.instances.append(i)
    # ---- R14.5 sizing ---------------------------------------------------------------------------
    check_bloom_sizing(rep, fl, so if so is not None else None)
    # ---- R14.6 recorded only -------------------------------------------------------------------
    cs = facts.body("bbloom::calc_size_by_wrong_positives")
    rep.note("R14.6: calc_size_by_wrong_positives calls: %s" % sorted({short(cs.callee_of(t)) for _, t in cs.calls()}))
    check_bloom_formula(rep, fl)


def _ranges(xs):
    if not xs:
        return "{}"
    out = []
    a = b = xs[0]
    for x in xs[1:]:
        if x == b + 1:
            b = x
        else:
            out.append((a, b))
            a = b = x
    out.append((a, b))
    return ",".join("%d" % a if a == b else "%d..%d" % (a, b) for a, b in out)


def loop_pos(body, call_t):
    """Position argument of set/is_set inside a `for i in range` loop, with the loop variable
    replaced by ('elem',); also returns the range expression."""
    e = norm(body.call_args(call_t)[1])
    # loop variable: a named local whose definition is (next(iter) as Some).0
    rng = None
    for l, name in body.local_name.items():
        defs = body.defs.get(l, [])
        if len(defs) != 1:
            continue
        d = norm(body.def_expr(defs[0][0], defs[0][1], True))
        if d[0] == "field" and d[1][0] == "downcast" and d[1][2] == "Some" and is_call(d[1][1], "Iterator::next"):
            e = norm(subst(e, {V(name): ("elem",), d: ("elem",)}))
            it = d[1][1][2][0]
            if it[0] == "var":
                il = body.name_local.get(it[1])
                if il is not None and len(body.defs.get(il, [])) == 1:
                    ie = norm(body.def_expr(*body.defs[il][0], True))
                    if is_call(ie, "IntoIterator::into_iter"):
                        rng = norm(ie[2][0])
    return e, rng


def clamp_of(body, at, var):
    """C when the variable is clamped from below to the constant C before use: `if v < C { v = C }` (the
    assignment is reached only with v < C known) or `let v = v.max(C)`; None otherwise."""
    l = body.name_local.get(var[1]) if var[0] == "var" else None
    if l is None:
        return None
    got = None
    for a_, b_ in body.defs.get(l, []):
        d = norm(body.def_expr(a_, b_, False))
        if (is_call(d, "Ord::max") or is_call(d, "cmp::max") or is_call(d, "max")) and len(d[2]) == 2:
            cs = [x for x in d[2] if x[0] == "const" and isinstance(x[1], int)]
            if len(cs) == 1:
                got = cs[0][1]
        if d[0] == "const" and isinstance(d[1], int):
            sts = at.get((a_, b_), set())
            if sts and all(feval(("atom", ("bin", "Lt", var, d)), s) is True for s in sts):
                got = d[1]
    return got


def check_bloom_sizing(rep, fl, set_off):
    """get_size yields (2^exp, exp) with exp >= 9; Bloom::new derives size mask, shift and the
    word count from it; the byte / word offset computed by set() and is_set() stays inside the allocation."""
    cells = {m: bloom_cell(fl.facts.body(BLOOM + "::" + m)) for m in ("set", "is_set")}
    if any(c[0] is None for c in cells.values()):
        rep.missing("R14.5", fl, "Bloom::set / is_set: the addressed cell (byte offset from as_ptr / word index into bitset) not found")
        return
    facts = fl.facts
    gs = facts.body("bbloom::get_size")
    at, entry = dataflow(gs)
    # shape: clamp to >= 512, size starts 1, exp starts 0, loop while size < n { size <<= 1; exp += 1 }
    ret = norm(return_expr(gs, expand=False))
    # the result is a pair of two variables, as a struct (`Size { size, exp }`) or a tuple (`(size, exp)`); which is
    # which is told by role: the one that starts at 1 and doubles is the size, the one that starts at 0 and counts is
    # the exponent
    ok = ret[0] == "agg" and len(ret[3]) == 2 and all(x_[0] == "var" for x_ in ret[3])
    size_v = exp_v = None
    size_name, exp_name = "size", "exp"
    if ok:
        names_ = list(ret[4]) if ret[4] and len(ret[4]) == 2 else ["0", "1"]
        for nm_, v_ in zip(names_, ret[3]):
            l_ = gs.name_local.get(v_[1])
            ds_ = [norm(gs.def_expr(a_, b_, False)) for a_, b_ in gs.defs.get(l_, [])] if l_ is not None else []
            if ("const", 1, "u64") in ds_ and any(d_[0] == "bin" and d_[1] == "Shl" for d_ in ds_):
                size_v, size_name = v_, nm_
            elif ("const", 0, "u64") in ds_ and any(d_[0] == "bin" and d_[1] == "Add" for d_ in ds_):
                exp_v, exp_name = v_, nm_
        ok = size_v is not None and exp_v is not None
    min_n = None
    if ok:
        sl, el = gs.name_local[size_v[1]], gs.name_local[exp_v[1]]
        sdefs = [(a, b, norm(gs.def_expr(a, b, False))) for a, b in gs.defs[sl]]
        edefs = [(a, b, norm(gs.def_expr(a, b, False))) for a, b in gs.defs[el]]
        s_init = [d for d in sdefs if d[2] == ("const", 1, "u64")]
        e_init = [d for d in edefs if d[2] == ("const", 0, "u64")]
        s_step = [d for d in sdefs if d[2] == norm(("bin", "Shl", size_v, ("const", 1, "i32")))]
        e_step = [d for d in edefs if d[2] == norm(("bin", "Add", exp_v, ("const", 1, "u64")))]
        ok = len(sdefs) == 2 and len(edefs) == 2 and len(s_init) == 1 and len(e_init) == 1 and len(s_step) == 1 and len(e_step) == 1
        if ok:
            # steps are paired: every path from one step to the loop head passes the other; both in the loop
            ok = gs.in_loop(s_step[0][0]) and gs.in_loop(e_step[0][0]) and (e_step[0][0] in gs.reachable(s_step[0][0])) and \
                not gs.in_loop(s_init[0][0]) and not gs.in_loop(e_init[0][0])
            # a cycle through the size step without the exp step must not exist
            seen = set()
            stack = list(gs.succs(s_step[0][0]))
            while stack and ok:
                x = stack.pop()
                if x in seen or x == e_step[0][0]:
                    continue
                seen.add(x)
                if x == s_step[0][0]:
                    ok = False
                stack.extend(gs.succs(x))
        # loop guard size < n and clamp n >= 512
        if ok:
            nvars = [V(n) for n in gs.name_local.values()]
            guard_ok = False
            for sts in [at.get((s_step[0][0], s_step[0][1]), set())]:
                for s in sts:
                    for a, v in s.lits:
                        if a[0] == "bin" and a[1] == "Lt" and a[2] == size_v and v is True:
                            guard_ok = True
                            nvar = a[3]
            ok = guard_ok
            if ok:
                # return only when !(size < n)
                rb = gs.defs[0][0]
                ok = all(feval(("not", ("atom", ("bin", "Lt", size_v, nvar))), s) is True for s in at.get((rb[0], rb[1]), set()))
                # clamp: n assigned const C on the edge n < C - in get_size itself, or by every caller before the call
                min_n = clamp_of(gs, at, nvar)
                if min_n is None and nvar[0] == "var" and 1 <= gs.name_local.get(nvar[1], 0) <= gs.arg_count:
                    mins = []
                    for cb in facts.bodies:
                        if not user_code(cb) or "::test" in cb.spath:
                            continue
                        for cbi, ct in calls_to(cb, "bbloom::get_size"):
                            av = norm(cb.call_args(ct, expand_vars=False)[gs.name_local[nvar[1]] - 1])
                            cat, _ce = dataflow(cb)
                            mins.append(clamp_of(cb, cat, av) if av[0] == "var" else (av[1] if av[0] == "const" else None))
                    if mins and all(m_ is not None for m_ in mins):
                        min_n = min(mins)
    rep.check(ok and min_n is not None, "R14.5", fl, gs, "get_size shape",
              "get_size: n clamped to >= %s; size = 1, exp = 0; while size < n { size <<= 1; exp += 1 } => size == 2^exp >= n" % min_n,
              "get_size no longer has the recognised power-of-two doubling shape (size=1, exp=0, paired size<<=1 / exp+=1 while size < max(n, C)): size == 2^exp cannot be established")
    if not (ok and min_n is not None):
        return
    min_exp = (min_n - 1).bit_length()
    rep.check(min_exp >= 9, "R14.5", fl, gs, "min size", "the bit array has at least 2^%d bits" % min_exp, "minimum size exponent is %d (< 9)" % min_exp)
    # Bloom::new field derivations
    bn = facts.body(BLOOM + "::new")
    e = norm(return_expr(bn))
    f = dict(zip(e[4], e[3])) if e[0] == "agg" else {}
    sz = None
    for sub in subexprs(e):
        if is_call(sub, "bbloom::get_size"):
            sz = sub
    if sz is None or not f:
        rep.missing("R14.5", fl, "Bloom::new: get_size call / constructor not found")
        return
    S, E = ("field", sz, size_name), ("field", sz, exp_name)
    if "size" not in f or "shift" not in f or "bitset" not in f:
        rep.bad("R14.5", fl, bn, "fields", "Bloom::new no longer derives the position mask (`size`), the hash shift (`shift`) and the bit array from get_size: fields %s" % sorted(f))
        return
    words = f["bitset"][2][1] if is_call(f.get("bitset", ()), "from_elem") else None
    bad = []
    n_eval = 0
    try:
        for ex in range(min_exp, 64):
            env = {S: 1 << ex, E: ex}
            mask = eval_expr(f["size"], env)
            shift = eval_expr(f["shift"], env)
            nwords = eval_expr(words, env)
            n_eval += 1
            if mask != (1 << ex) - 1:
                bad.append("exp=%d: position mask is %#x, not 2^exp-1" % (ex, mask))
            if shift != 64 - ex:
                bad.append("exp=%d: shift is %d, not 64-exp" % (ex, shift))
            if nwords < 1 or nwords * 64 != (1 << ex):
                bad.append("exp=%d: %d words allocated for 2^%d bits" % (ex, nwords, ex))
            for meth_, (off_, _bit, _base, unit_) in sorted(cells.items()):
                if off_ is None:
                    continue
                # largest offset reachable: idx = mask (all ones; the offset is built from shifts and masks of idx)
                off = eval_expr(off_, {V("idx"): mask})
                if off >= nwords * (8 if unit_ == 8 else 1):
                    bad.append("exp=%d: %s() addresses %s %d of a %d-word allocation" % (ex, meth_, "byte" if unit_ == 8 else "word", off, nwords))
    except CannotEval as ex_:
        rep.bad("R14.5", fl, bn, "sizing", "unrecognised Bloom sizing expression: cannot fold %s" % ex_)
        return
    rep.check(not bad, "R14.5", fl, bn, "size/shift/words/offset",
              "for exp in %d..63 (%d cases): size mask = 2^exp-1, shift = 64-exp, words = 2^exp/64 >= 1, highest byte written by set() is inside the allocation" % (min_exp, n_eval),
              "; ".join(bad[:3]))
    rep.check(f.get("set_locs") is not None and f.get("size_exp") == norm(E), "R14.5", fl, bn, "fields", "size_exp = exp; set_locs from the (capacity, rate) sizing",
              "Bloom::new field wiring changed")
