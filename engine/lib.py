"""Helpers shared by the property rule files."""
from core import *  # noqa: F401,F403
from core import norm, show, strip_generics, dataflow, feval, PathState, mentions, subexprs, show_state, short


def term_idx(body, bi):
    return len(body.blocks[bi]["stmts"])


def calls_to(body, *names):
    """Call sites whose resolved or declared (generic-stripped) callee matches one of names at a
    path-segment boundary.  -> list of (bi, term)"""
    out = []
    for bi, t in body.calls():
        c = body.callee_of(t)
        d = body.decl_callee_of(t)
        for n in names:
            if callee_matches(c, n) or callee_matches(d, n):
                out.append((bi, t))
                break
    return out


def field_last(pl):
    """(field name, owner adt) of the last field projection of a place, ignoring trailing derefs."""
    for pr in reversed(pl["p"]):
        if pr == "*":
            continue
        if pr.startswith("."):
            _, _, rest = pr[1:].partition(":")
            name, _, owner = rest.partition("@")
            return name, strip_generics(owner)
        return None, None
    return None, None


def has_field(pl, name, owner):
    for pr in pl["p"]:
        if pr.startswith("."):
            _, _, rest = pr[1:].partition(":")
            n, _, o = rest.partition("@")
            if n == name and strip_generics(o) == owner:
                return True
    return False


# ----------------------------------------------------------------------------------------
# linear forms over expressions:  dict expr -> int coefficient; constants under key 1
# ----------------------------------------------------------------------------------------

def lin(e):
    e = norm(e)
    return _lin(e)


def _lin(e):
    k = e[0]
    if k == "const" and isinstance(e[1], int):
        return {1: e[1]} if e[1] != 0 else {}
    if k == "bin" and e[1] in ("Add", "Sub"):
        a = _lin(e[2])
        b = _lin(e[3])
        out = dict(a)
        sgn = 1 if e[1] == "Add" else -1
        for t, c in b.items():
            out[t] = out.get(t, 0) + sgn * c
            if out[t] == 0:
                del out[t]
        return out
    if k == "un" and e[1] == "Neg":
        return {t: -c for t, c in _lin(e[2]).items()}
    if k == "bin" and e[1] == "Mul":
        a, b = e[2], e[3]
        if a[0] == "const" and isinstance(a[1], int):
            return {t: c * a[1] for t, c in _lin(b).items()}
        if b[0] == "const" and isinstance(b[1], int):
            return {t: c * b[1] for t, c in _lin(a).items()}
    return {e: 1}


def lin_sub(a, b):
    out = dict(a)
    for t, c in b.items():
        out[t] = out.get(t, 0) - c
        if out[t] == 0:
            del out[t]
    return out


def lin_add(a, b):
    out = dict(a)
    for t, c in b.items():
        out[t] = out.get(t, 0) + c
        if out[t] == 0:
            del out[t]
    return out


def lin_show(l):
    if not l:
        return "0"
    parts = []
    for t, c in sorted(l.items(), key=lambda x: repr(x[0])):
        ts = "" if t == 1 else show(t)
        if t == 1:
            parts.append("%+d" % c)
        elif c == 1:
            parts.append("+" + ts)
        elif c == -1:
            parts.append("-" + ts)
        else:
            parts.append("%+d*%s" % (c, ts))
    return " ".join(parts)


def lin_key(l):
    return tuple(sorted(((repr(t), c) for t, c in l.items())))


def subst(e, mapping):
    """Replace sub-expressions according to mapping (expr -> expr)."""
    if not isinstance(e, tuple):
        return e
    if e in mapping:
        return mapping[e]
    if e and isinstance(e[0], str):
        return tuple([e[0]] + [subst(x, mapping) if isinstance(x, tuple) else x for x in e[1:]])
    return tuple(subst(x, mapping) for x in e)


def return_expr(body, expand=True):
    """Expression of the return place when it is defined exactly once."""
    defs = body.defs.get(0, [])
    if len(defs) == 1:
        return body.def_expr(defs[0][0], defs[0][1], expand)
    return None


def return_exprs(body, expand=True):
    return [body.def_expr(bi, si, expand) for bi, si in body.defs.get(0, [])]


def closure_of_call(body, t):
    """Def paths of closures passed (as aggregate arguments) to the call t."""
    out = []
    for a in t["args"]:
        e = body.operand_expr(a, True)
        if e[0] == "closure":
            out.append(e)
    return out


def dominates_all_paths(body, guard_blocks, target_bi):
    """Every path entry -> target passes through one of guard_blocks."""
    seen = set()
    stack = [0]
    gb = set(guard_blocks)
    if 0 in gb:
        return True
    while stack:
        b = stack.pop()
        if b in seen or b in gb:
            continue
        seen.add(b)
        if b == target_bi:
            return False
        stack.extend(body.succs(b))
    return True


def block_dominates(body, a, b):
    """Block a dominates block b."""
    if a == b:
        return True
    return dominates_all_paths(body, [a], b)


def must_pass_through(body, pred_blocks, from_bi=0, exits=None):
    """Every path from from_bi to a return block passes through one of pred_blocks."""
    exits = set(exits if exits is not None else body.return_blocks())
    gb = set(pred_blocks)
    seen = set()
    stack = [from_bi]
    while stack:
        b = stack.pop()
        if b in seen or b in gb:
            continue
        seen.add(b)
        if b in exits:
            return False
        stack.extend(body.succs(b))
    return True


def arg_is(e, *cands):
    e = norm(e)
    return any(e == norm(c) for c in cands)


def V(name):
    return ("var", name)


def F(base, *names):
    e = base
    for n in names:
        e = ("field", e, n)
    return e


def callee_matches(c, suffix):
    """`suffix` (e.g. 'Iterator::next', 'SampledLFU::update') matches callee path c when c ends
    with it at a path-segment boundary; `<T as Trait>::m` also matches 'Trait::m'."""
    if not c:
        return False
    c2 = c.replace(">::", "::")
    if c2 == suffix or c == suffix:
        return True
    for cc in (c, c2):
        if cc.endswith(suffix):
            pre = cc[: -len(suffix)]
            if pre.endswith("::") or pre.endswith(" ") or pre.endswith("<"):
                return True
    return False


def is_call(e, suffix):
    return isinstance(e, tuple) and len(e) > 1 and e[0] == "call" and callee_matches(e[1], suffix)


def strip_casts(e):
    while isinstance(e, tuple) and e and e[0] == "cast":
        e = e[2]
    return e
