"""Helpers shared by the property rule files."""
from core import *  # noqa: F401,F403
from core import norm, show, strip_generics, dataflow, feval, PathState, mentions, subexprs, show_state, short


def term_idx(body, bi):
    return len(body.blocks[bi]["stmts"])


def calls_to(body, *names):
    """Call sites whose resolved or declared (generic-stripped) callee matches one of names at a
    path-segment boundary.  -> list of (bi, term)"""
    out = []
    for bi, t in body.calls():
        c = body.callee_of(t)
        d = body.decl_callee_of(t)
        for n in names:
            if callee_matches(c, n) or callee_matches(d, n):
                out.append((bi, t))
                break
    return out


def field_last(pl):
    """(field name, owner adt) of the last field projection of a place, ignoring trailing derefs."""
    for pr in reversed(pl["p"]):
        if pr == "*":
            continue
        if pr.startswith("."):
            _, _, rest = pr[1:].partition(":")
            name, _, owner = rest.partition("@")
            return name, strip_generics(owner)
        return None, None
    return None, None


def has_field(pl, name, owner):
    for pr in pl["p"]:
        if pr.startswith("."):
            _, _, rest = pr[1:].partition(":")
            n, _, o = rest.partition("@")
            if n == name and strip_generics(o) == owner:
                return True
    return False


# ----------------------------------------------------------------------------------------
# linear forms over expressions:  dict expr -> int coefficient; constants under key 1
# ----------------------------------------------------------------------------------------

def lin(e):
    e = norm(e)
    return _lin(e)


def _lin(e):
    k = e[0]
    if k == "const" and isinstance(e[1], int):
        return {1: e[1]} if e[1] != 0 else {}
    if k == "bin" and e[1] in ("Add", "Sub"):
        a = _lin(e[2])
        b = _lin(e[3])
        out = dict(a)
        sgn = 1 if e[1] == "Add" else -1
        for t, c in b.items():
            out[t] = out.get(t, 0) + sgn * c
            if out[t] == 0:
                del out[t]
        return out
    if k == "un" and e[1] == "Neg":
        return {t: -c for t, c in _lin(e[2]).items()}
    if k == "bin" and e[1] == "Mul":
        a, b = e[2], e[3]
        if a[0] == "const" and isinstance(a[1], int):
            return {t: c * a[1] for t, c in _lin(b).items()}
        if b[0] == "const" and isinstance(b[1], int):
            return {t: c * b[1] for t, c in _lin(a).items()}
    return {e: 1}


def lin_sub(a, b):
    out = dict(a)
    for t, c in b.items():
        out[t] = out.get(t, 0) - c
        if out[t] == 0:
            del out[t]
    return out


def lin_add(a, b):
    out = dict(a)
    for t, c in b.items():
        out[t] = out.get(t, 0) + c
        if out[t] == 0:
            del out[t]
    return out


def lin_show(l):
    if not l:
        return "0"
    parts = []
    for t, c in sorted(l.items(), key=lambda x: repr(x[0])):
        ts = "" if t == 1 else show(t)
        if t == 1:
            parts.append("%+d" % c)
        elif c == 1:
            parts.append("+" + ts)
        elif c == -1:
            parts.append("-" + ts)
        else:
            parts.append("%+d*%s" % (c, ts))
    return " ".join(parts)


def lin_key(l):
    return tuple(sorted(((repr(t), c) for t, c in l.items())))


def subst(e, mapping):
    """Replace sub-expressions according to mapping (expr -> expr)."""
    if not isinstance(e, tuple):
        return e
    if e in mapping:
        return mapping[e]
    if e and isinstance(e[0], str):
        return tuple([e[0]] + [subst(x, mapping) if isinstance(x, tuple) else x for x in e[1:]])
    return tuple(subst(x, mapping) for x in e)


def return_expr(body, expand=True):
    """Expression of the return place when it is defined exactly once."""
    defs = body.defs.get(0, [])
    if len(defs) == 1:
        return body.def_expr(defs[0][0], defs[0][1], expand)
    return None


def return_exprs(body, expand=True):
    return [body.def_expr(bi, si, expand) for bi, si in body.defs.get(0, [])]


def closure_of_call(body, t):
    """Def paths of closures passed (as aggregate arguments) to the call t."""
    out = []
    for a in t["args"]:
        e = body.operand_expr(a, True)
        if e[0] == "closure":
            out.append(e)
    return out


def callable_arg(facts, body, t, i):
    """The body of the closure literal or crate fn item passed as argument i of call t, with the local
    number of its first parameter: (Body, 2) for a closure (local 1 is the environment), (Body, 1) for
    a function.  None if the argument is neither."""
    e = body.operand_expr(t["args"][i], True)
    if e[0] == "closure":
        return facts.closure_body(e[1]), 2
    if e[0] == "fn":
        c = facts.by_path.get(e[1]) or facts.by_spath.get(strip_generics(e[1]), [])
        if len(c) == 1:
            return c[0], 1
    return None


def dominates_all_paths(body, guard_blocks, target_bi):
    """Every path entry -> target passes through one of guard_blocks."""
    seen = set()
    stack = [0]
    gb = set(guard_blocks)
    if 0 in gb:
        return True
    while stack:
        b = stack.pop()
        if b in seen or b in gb:
            continue
        seen.add(b)
        if b == target_bi:
            return False
        stack.extend(body.succs(b))
    return True


def block_dominates(body, a, b):
    """Block a dominates block b."""
    if a == b:
        return True
    return dominates_all_paths(body, [a], b)


def must_pass_through(body, pred_blocks, from_bi=0, exits=None):
    """Every path from from_bi to a return block passes through one of pred_blocks."""
    exits = set(exits if exits is not None else body.return_blocks())
    gb = set(pred_blocks)
    seen = set()
    stack = [from_bi]
    while stack:
        b = stack.pop()
        if b in seen or b in gb:
            continue
        seen.add(b)
        if b in exits:
            return False
        stack.extend(body.succs(b))
    return True


def arg_is(e, *cands):
    e = norm(e)
    return any(e == norm(c) for c in cands)


def V(name):
    return ("var", name)


def F(base, *names):
    e = base
    for n in names:
        e = ("field", e, n)
    return e


def _strip_angle(s):
    """Remove every balanced <...> group (generic arguments)."""
    out = []
    d = 0
    i = 0
    while i < len(s):
        c = s[i]
        if c == "<":
            d += 1
        elif c == ">" and i > 0 and s[i - 1] != "-":
            d -= 1
        elif d == 0:
            out.append(c)
        i += 1
    return "".join(out)


_CALLEE_CACHE = {}


def callee_names(c):
    """Alternative names of a callee path: the path itself, and for `<T as Trait<..>>::m` /
    `path::<impl Trait for T>::m` also `Trait::m` (generics stripped) and `T::m`."""
    r = _CALLEE_CACHE.get(c)
    if r is not None:
        return r
    names = [c]
    if c.startswith("<") and " as " in c:
        # <T as Trait>::method
        d = 0
        end = None
        for i, ch in enumerate(c):
            if ch == "<":
                d += 1
            elif ch == ">" and c[i - 1] != "-":
                d -= 1
                if d == 0:
                    end = i
                    break
        if end is not None:
            inner = c[1:end]
            rest = c[end + 1:]
            # split at top-level " as "
            d = 0
            k = None
            for i in range(len(inner)):
                if inner[i] == "<":
                    d += 1
                elif inner[i] == ">" and inner[i - 1] != "-":
                    d -= 1
                elif d == 0 and inner.startswith(" as ", i):
                    k = i
                    break
            if k is not None:
                t, tr = inner[:k], inner[k + 4:]
                names.append(_strip_angle(tr) + rest)
                names.append(_strip_angle(t) + rest)
    if "<impl " in c:
        i = c.index("<impl ")
        j = c.rindex(">::")
        inner = c[i + 6:j]
        rest = c[j + 1:]
        if " for " in inner:
            tr, t = inner.split(" for ", 1)
            names.append(_strip_angle(tr) + rest)
            names.append(_strip_angle(t) + rest)
        else:
            names.append(_strip_angle(inner) + rest)
    _CALLEE_CACHE[c] = names
    return names


def callee_matches(c, suffix):
    """`suffix` (e.g. 'Iterator::next', 'SampledLFU::update') matches callee path c when one of
    c's names ends with it at a path-segment boundary."""
    if not c:
        return False
    for cc in callee_names(c):
        if cc == suffix:
            return True
        if cc.endswith(suffix):
            pre = cc[: -len(suffix)]
            if pre.endswith("::") or pre.endswith(" ") or pre.endswith("<"):
                return True
    return False


def is_call(e, suffix):
    return isinstance(e, tuple) and len(e) > 1 and e[0] == "call" and callee_matches(e[1], suffix)


def strip_casts(e):
    while isinstance(e, tuple) and e and e[0] == "cast":
        e = e[2]
    return e


# ----------------------------------------------------------------------------------------
# closures: binding captured variables to the parent's expressions
# ----------------------------------------------------------------------------------------

def closure_creation(parent, cb):
    """The aggregate in `parent` that builds closure body cb: -> ('closure', def, captures)."""
    for bi in parent.live_blocks():
        for si, st in enumerate(parent.blocks[bi]["stmts"]):
            if st["k"] == "assign" and st["rv"]["k"] == "agg" and st["rv"].get("def") == cb.path:
                return parent.rvalue_expr(st["rv"], True)
    return None


def closure_env(parent, cb):
    """Mapping ('var', captured name) -> parent expression (expanded), for closure cb created in
    parent.  Captures of mutable parent variables stay symbolic ('var', name)."""
    ce = closure_creation(parent, cb)
    env = {}
    if ce is None:
        return env
    for dp, name in cb.debug_places:
        if dp["l"] != 1:
            continue
        idx = None
        for pr in dp["p"]:
            if pr.startswith("."):
                idx = int(pr[1:].partition(":")[0])
                break
        if idx is not None and idx < len(ce[2]):
            env[("var", name)] = norm(ce[2][idx])
    return env


def parent_of(facts, cb):
    c = facts.by_path.get(cb.raw["parent"], [])
    return c[0] if len(c) == 1 else None


def in_parent_terms(facts, cb, e, stop_at=None):
    """Rewrite closure-body expression e with captured variables replaced by the (transitively
    expanded) expressions of the enclosing function (or of the enclosing body `stop_at`)."""
    cur = cb
    e = norm(e)
    for _ in range(6):
        if stop_at is not None and cur is stop_at:
            break
        par = parent_of(facts, cur)
        if par is None:
            break
        env = closure_env(par, cur)
        if env:
            e = norm(subst(e, env))
        if not par.is_closure:
            break
        cur = par
    return e


# ----------------------------------------------------------------------------------------
# finite-domain evaluation of extracted expressions (constant folding, u64/usize wrapping)
# ----------------------------------------------------------------------------------------

M64 = (1 << 64) - 1


class CannotEval(Exception):
    pass


def width_of(ty):
    return {"u8": 8, "u16": 16, "u32": 32, "u64": 64, "usize": 64, "i8": 8, "i16": 16, "i32": 32, "i64": 64, "isize": 64, "bool": 1}.get(ty, 64)


def eval_expr(e, env):
    """Evaluate e (non-negative integer semantics, 64-bit wrapping) under env: expr -> int."""
    e = norm(e)
    return _ev(e, env)


def _ev(e, env):
    if e in env:
        return env[e]
    k = e[0]
    if k == "const" and isinstance(e[1], int):
        return e[1] & M64
    if k == "cast":
        v = _ev(e[2], env)
        return v & ((1 << width_of(e[1])) - 1)
    if k == "bin":
        a = _ev(e[2], env)
        b = _ev(e[3], env)
        op = e[1]
        if op == "Add":
            return (a + b) & M64
        if op == "Sub":
            return (a - b) & M64
        if op == "Mul":
            return (a * b) & M64
        if op == "Div":
            if b == 0:
                raise CannotEval("div by zero")
            return a // b
        if op == "Rem":
            if b == 0:
                raise CannotEval("rem by zero")
            return a % b
        if op == "Shl":
            return (a << (b & 63)) & M64
        if op == "Shr":
            return a >> (b & 63)
        if op == "BitAnd":
            return a & b
        if op == "BitOr":
            return a | b
        if op == "BitXor":
            return a ^ b
        if op == "Lt":
            return 1 if a < b else 0
        if op == "Eq":
            return 1 if a == b else 0
    if k == "un" and e[1] == "Not":
        return 0 if _ev(e[2], env) else 1
    if k == "call" and (callee_matches(e[1], "Ord::max") or callee_matches(e[1], "Ord::min")) and len(e[2]) == 2:
        a, b = _ev(e[2][0], env), _ev(e[2][1], env)
        return max(a, b) if e[1].endswith("max") else min(a, b)
    if k == "call" and callee_matches(e[1], "next_power_of_two"):
        v = _ev(e[2][0], env)
        p = 1
        while p < v:
            p <<= 1
        return p & M64
    raise CannotEval(show(e))


# ----------------------------------------------------------------------------------------
# demanded bits: which bits of an input can influence a value (over-approximation)
# value = list of 64 frozensets (per output bit: set of input bit positions it may depend on)
# ----------------------------------------------------------------------------------------

def bitdeps(e, inp, width=64):
    e = norm(e)
    return _bd(e, norm(inp))


ZERO = [frozenset()] * 64


def _bd(e, inp):
    if e == inp:
        return [frozenset([i]) for i in range(64)]
    k = e[0]
    if k == "const":
        return list(ZERO)
    if not mentions(e, inp):
        return list(ZERO)
    if k == "cast":
        v = _bd(e[2], inp)
        w = width_of(e[1])
        return v[:w] + [frozenset()] * (64 - w)
    if k == "bin":
        op, a, b = e[1], e[2], e[3]
        if op in ("Shl", "Shr") and b[0] == "const" and isinstance(b[1], int):
            v = _bd(a, inp)
            c = b[1] & 63
            if op == "Shl":
                return [frozenset()] * c + v[: 64 - c]
            return v[c:] + [frozenset()] * c
        if op == "BitAnd":
            for x, y in ((a, b), (b, a)):
                if y[0] == "const" and isinstance(y[1], int):
                    v = _bd(x, inp)
                    return [v[i] if (y[1] >> i) & 1 else frozenset() for i in range(64)]
        if op in ("BitAnd", "BitOr", "BitXor"):
            va, vb = _bd(a, inp), _bd(b, inp)
            return [va[i] | vb[i] for i in range(64)]
        if op in ("Add", "Sub"):
            va, vb = _bd(a, inp), _bd(b, inp)
            out = []
            acc = frozenset()
            for i in range(64):
                acc = acc | va[i] | vb[i]
                out.append(acc)
            return out
        if op == "Mul":
            for x, y in ((a, b), (b, a)):
                if y[0] == "const" and isinstance(y[1], int) and y[1] > 0 and (y[1] & (y[1] - 1)) == 0:
                    v = _bd(x, inp)
                    c = y[1].bit_length() - 1
                    return [frozenset()] * c + v[: 64 - c]
        if op in ("Shl", "Shr"):
            va, vb = _bd(a, inp), _bd(b, inp)
            alld = frozenset().union(*va, *vb)
            return [alld] * 64
    # unknown: every output bit may depend on every input bit mentioned
    return [frozenset(range(64))] * 64


def deps_union(v):
    return frozenset().union(*v)


# ----------------------------------------------------------------------------------------
# guards on expanded atoms
# ----------------------------------------------------------------------------------------

def expand_state(body, s, hist=False):
    """Same valuation with every atom rewritten in expanded form (immutable single-definition
    variables substituted), so rules do not depend on local variable names.  hist=True uses the
    branch history (decisions taken on the path, not invalidated by later writes)."""
    lits = set()
    for a, v in (s.hist if hist else s.lits):
        ea = norm(body.expand(a))
        pol = v
        while ea[0] == "un" and ea[1] == "Not":
            ea = ea[2]
            pol = not pol
        lits.add((ea, pol))
    return PathState(frozenset(lits), s.user)


def all_states(body, at, node_key, formula, expand=True, hist=False):
    """(ok, counterexample) : formula holds in every state reaching node_key."""
    sts = at.get(node_key, set())
    for s in sts:
        es = expand_state(body, s, hist) if expand else (s.as_hist() if hist else s)
        if feval(formula, es) is not True:
            return False, es
    return True, None


def precedes_each_time(body, a_bi, b_bi):
    """Block a dominates block b and every cycle through b passes a (a is executed before each
    execution of b)."""
    if not block_dominates(body, a_bi, b_bi):
        return False
    seen = set()
    stack = list(body.succs(b_bi))
    while stack:
        x = stack.pop()
        if x in seen or x == a_bi:
            continue
        seen.add(x)
        if x == b_bi:
            return False
        stack.extend(body.succs(x))
    return True


SEND_NAMES = ("Sender::send", "Sender::try_send", "SelectedOperation::send", "Sender::send_blocking")


def send_sites(body):
    """Channel send sites: (bi, term, channel expr, payload expr).  crossbeam's select! expands
    to SelectedOperation::send(oper, unbind(&chan), msg)."""
    out = []
    for bi, t in body.calls():
        c = body.callee_of(t)
        if not any(callee_matches(c, n) for n in SEND_NAMES):
            continue
        a = [norm(x) for x in body.call_args(t)]
        if callee_matches(c, "SelectedOperation::send"):
            ch = a[1]
            if ch[0] == "call" and ch[1].endswith("::unbind"):
                ch = ch[2][0]
            out.append((bi, t, norm(ch), a[2]))
        else:
            out.append((bi, t, a[0], a[1] if len(a) > 1 else None))
    return out


def A(e):
    return ("atom", e)


def NOT(f):
    return ("not", f)


def AND(*fs):
    return ("and",) + fs


def OR(*fs):
    return ("or",) + fs


def call(name, *args):
    return ("call", name, tuple(args))


def some_payload(e):
    return ("field", ("downcast", e, "Some"), "0")


def stmt_nodes(body, pred):
    """(bi, si, stmt) for assign statements in live blocks satisfying pred(stmt)."""
    out = []
    for bi in body.live_blocks():
        for si, st in enumerate(body.blocks[bi]["stmts"]):
            if st["k"] == "assign" and pred(st):
                out.append((bi, si, st))
    return out


def agg_nodes(body, adt_suffix, variant=None):
    """Aggregate constructions of an ADT (path suffix) -> (bi, si, stmt, expr)."""
    out = []
    for bi, si, st in stmt_nodes(body, lambda s: s["rv"]["k"] == "agg" and s["rv"].get("ak") == "adt"):
        name = strip_generics(st["rv"]["adt"])
        if (name == adt_suffix or name.endswith("::" + adt_suffix)) and (variant is None or st["rv"]["variant"] == variant):
            out.append((bi, si, st, norm(body.rvalue_expr(st["rv"], True))))
    return out


ALL_FACTS = []  # every Facts object loaded (core.Facts registers itself): lets agg_fields read through constructors


def agg_fields(e):
    """Field -> operand of a struct / variant construction: an aggregate, or a call of a crate function
    that only builds one from its parameters (`Item::new(k, c, ..)` for `Item { index: k, conflict: c, .. }`)."""
    if e and e[0] == "agg":
        return dict(zip(e[4], e[3]))
    if e and e[0] == "call":
        for facts in ALL_FACTS:
            c = facts.by_spath.get(strip_generics(e[1]), [])
            if len(c) == 1 and not c[0].is_closure and not any(True for _ in c[0].calls()):
                b = c[0]
                r = return_expr(b)
                if r is None:
                    continue
                r = norm(r)
                if r[0] == "agg" and r[1] == "adt" and r[4]:
                    m = {V(b.local_name.get(i + 1, "arg%d" % (i + 1))): norm(a) for i, a in enumerate(e[2])}
                    r = norm(subst(r, m))
                    return dict(zip(r[4], r[3]))
    return {}


def closure_passed_to(facts, cb):
    """For closure body cb: (parent body, call block, call term) of the call it is passed to."""
    par = parent_of(facts, cb)
    if par is None:
        return None
    for bi, t in par.calls():
        for ce in closure_of_call(par, t):
            if ce[1] == cb.path:
                return par, bi, t
    return None


def descendants(facts, body):
    """body plus all closure bodies nested in it."""
    out = [body]
    i = 0
    while i < len(out):
        out.extend(facts.children(out[i]))
        i += 1
    return out


def var_def_exprs(body, v, expand=True):
    """Defining expressions of a named local (mutable ones included)."""
    if isinstance(v, tuple) and v and v[0] == "tmp" and isinstance(v[1], int):
        l = v[1]   # an unnamed multi-def temporary (the result slot of an inlined helper)
    elif not (isinstance(v, tuple) and v and v[0] == "var"):
        return []
    else:
        l = body.name_local.get(v[1])
    if l is None:
        return []
    return [norm(body.def_expr(bi, si, expand)) for bi, si in body.defs.get(l, [])]


RECV_NAMES = ("Receiver::recv", "Receiver::try_recv", "SelectedOperation::recv", "Receiver::recv_blocking", "Receiver::recv_timeout")


def canon_self(body, ch):
    """`this.stop_rx` -> `self.stop_rx` when `this` is a local of the type the function is implemented for (a
    worker built as a literal inside an associated `spawn(..)` instead of being passed in as `self`)."""
    if ch[0] != "field" or ch[1][0] != "var" or ch[1][1] == "self":
        return ch
    try:
        root = body.facts.body(strip_generics(body.raw["root"]), required=False)
    except Exception:
        root = None
    owner = strip_generics((root.raw.get("impl_self") or "").split("<")[0]) if root is not None else ""
    a = body.facts.adts.get(owner)
    if not a or (root is not None and root.arg_count >= 1 and root.local_name.get(1) == "self"):
        return ch
    if not any(f["name"] == ch[2] for v in a["variants"] for f in v["fields"]):
        return ch
    # the local must be of that type (looked up in the root function, where it is declared)
    l = root.name_local.get(ch[1][1])
    if l is None or strip_generics(root.locals[l]["ty"].split("<")[0]) != owner:
        return ch
    return ("field", ("var", "self"), ch[2])


def recv_sites(body):
    """Channel receive sites: (bi, term, channel expr)."""
    return [(bi, t, canon_self(body, ch)) for bi, t, ch in _recv_sites(body)]


def _recv_sites(body):
    out = []
    for bi, t in body.calls():
        c = body.callee_of(t)
        if not any(callee_matches(c, n) for n in RECV_NAMES):
            continue
        a = [norm(x) for x in body.call_args(t)]
        if callee_matches(c, "SelectedOperation::recv"):
            ch = a[1]
            if ch[0] == "call" and ch[1].endswith("::unbind"):
                ch = ch[2][0]
            out.append((bi, t, norm(ch)))
        else:
            out.append((bi, t, a[0]))
    return out


def user_code(body):
    """Is this body written in the repository (not a macro-internal closure of a dependency)?"""
    return body.span["f"].startswith("src/")


# ----------------------------------------------------------------------------------------
# iterations of a (flattened) body: `it.for_each(|e| ..)`, `it.all(|e| ..)` and `for e in it { .. }`
# all have the shape  loop { match Iterator::next(&mut it) { Some(e) => body, None => break } }
# ----------------------------------------------------------------------------------------

def fixed_len(facts, body, coll):
    """Length of `self.<field>` when the field is a fixed-size array [T; N] (N a literal or a constant of the
    type's module), else None."""
    coll = norm(coll)
    if coll[0] != "field" or coll[1] != ("var", "self") or body.arg_count < 1:
        return None
    ty = body.locals[1]["ty"].replace("&mut ", "").replace("&", "").split("<")[0].strip()
    a = facts.adts.get(ty)
    if not a:
        return None
    for v in a["variants"]:
        for f in v["fields"]:
            if f["name"] == coll[2]:
                m = re.match(r"^\[.*; (\w+)\]$", f["ty"])
                if not m:
                    return None
                if m.group(1).isdigit():
                    return int(m.group(1))
                mod = ty.rsplit("::", 1)[0] if "::" in ty else ""
                for cand in ((mod + "::" if mod else "") + m.group(1), m.group(1)):
                    try:
                        cv = facts.const_value(cand)
                    except Exception:
                        cv = None
                    if isinstance(cv, int):
                        return cv
    return None


class Iteration:
    """One loop around an Iterator::next call in `body` (normally a flattened body)."""

    def __init__(self, body, nbi, nt):
        self.body = body
        self.nbi = nbi
        self.nt = nt
        self.res = norm(body.call_expr(nt, True))
        self.payload = ("field", ("downcast", self.res, "Some"), "0")
        self.some = self.none = None
        for b2 in body.succs(nbi):
            for tgt, atom, pol in edge_literals(body, b2):
                if atom is not None and atom[0] == "variant" and pol:
                    if atom[2] == "Some":
                        self.some = tgt
                    elif atom[2] == "None":
                        self.none = tgt
        cut = [(p_, nbi) for p_ in body.preds(nbi)]
        self.region = set()
        if self.some is not None:
            fwd = body.reachable(self.some, removed_edges=cut)
            self.region = {b for b in fwd if nbi in body.reachable(b)}
        # variables that name the element (or a component of a tuple element)
        self.elem_vars = {}
        pl_payload = None
        for b in sorted(self.region):
            for si, st in enumerate(body.blocks[b]["stmts"]):
                if st["k"] != "assign" or st["pl"]["p"]:
                    continue
                name = body.local_name.get(st["pl"]["l"])
                if name is None:
                    continue
                e = norm(body.rvalue_expr(st["rv"], True))
                if e == self.payload:
                    self.elem_vars[("var", name)] = ("elem",)
                elif e[0] == "field" and e[1] == self.payload:
                    self.elem_vars[("var", name)] = ("field", ("elem",), e[2])
        self.source = self._source()
        for _ in range(3):
            if (is_call(self.source, "into_iter") or is_call(self.source, "IntoIterator::into_iter")) and len(self.source[2]) == 1:
                self.source = norm(self.source[2][0])
            elif whole_drain(self.source):
                self.source = norm(self.source[2][0])   # `v.drain(..)` hands out every element of v in order, like `for x in v`

    def _source(self):
        """What is iterated: the expression the iterator was made from (into_iter / `&mut` stripped)."""
        body = self.body
        a = self.nt["args"][0]
        cur = a["pl"]["l"] if a.get("k") in ("move", "copy") and not a["pl"]["p"] else None
        for _ in range(6):
            if cur is None:
                break
            rd = body.defs.get(cur, [])
            outside = [d for d in rd if d[0] not in self.region and d[0] != self.nbi] or rd
            if len(outside) != 1:
                break
            rb, rs = outside[0]
            bb = body.blocks[rb]
            if rs >= len(bb["stmts"]):
                e = norm(body.call_expr(bb["term"], True))
                if is_call(e, "into_iter") or is_call(e, "IntoIterator::into_iter"):
                    return norm(e[2][0])
                if whole_drain(e):
                    return norm(e[2][0])   # `v.drain(..)` hands out every element of v in order, like `for x in v`
                return e
            st = bb["stmts"][rs]
            rv = st["rv"]
            if rv["k"] == "ref" and (not rv["pl"]["p"] or rv["pl"]["p"] == ["*"]):
                cur = rv["pl"]["l"]
                continue
            if rv["k"] == "use" and rv["op"].get("k") in ("move", "copy") and not rv["op"]["pl"]["p"]:
                cur = rv["op"]["pl"]["l"]
                continue
            return norm(body.rvalue_expr(rv, True))
        return norm(body.expand(norm(body.call_args(self.nt)[0])))

    def origin(self):
        """The source, expanded, looking through a named (possibly `mut`) local that is defined once: `let mut v = x;
        for e in v.drain(..)` iterates x."""
        e = norm(self.body.expand(self.source))
        for _ in range(3):
            if e[0] != "var":
                break
            ds = var_def_exprs(self.body, e, True)
            if len(ds) != 1 or ds[0] == e:
                break
            e = norm(ds[0])
        return e

    def canon(self, e):
        """e with the element (and variables naming it) replaced by ('elem',)."""
        e = norm(self.body.expand(norm(e)))
        m = dict(self.elem_vars)
        m[self.payload] = ("elem",)
        return norm(subst(e, m))

    def is_elem(self, e):
        return self.canon(e) == ("elem",)

    def components(self):
        """What the element is made of: [(path, kind, coll)], path = tuple of tuple-field names inside the element,
        kind "index" (the position 0, 1, 2, ..: coll is the Range, or None for enumerate) or "item" (the items of
        `coll`, in order).  Covers ranges, x.iter() / x.iter_mut() / `for _ in x`, zip and enumerate."""
        def comp(src, path):
            src = norm(src)
            if is_call(src, "Iterator::zip") and len(src[2]) == 2:
                return comp(src[2][0], path + ("0",)) + comp(src[2][1], path + ("1",))
            if is_call(src, "Iterator::enumerate") and len(src[2]) == 1:
                return [(path + ("0",), "index", None)] + comp(src[2][0], path + ("1",))
            if (is_call(src, "into_iter") or is_call(src, "IntoIterator::into_iter")) and len(src[2]) == 1:
                return comp(src[2][0], path)
            if whole_drain(src):
                return comp(src[2][0], path)
            if (is_call(src, "iter") or is_call(src, "iter_mut")) and len(src[2]) == 1:
                return [(path, "item", norm(src[2][0]))]
            if src[0] == "agg" and src[2].endswith("Range::Range"):
                return [(path, "index", src)]
            return [(path, "item", src)]
        return comp(self.source, ())

    def indexed(self, e):
        """canon(e) in positional form: the k-th item of a collection that is walked in step with the loop reads
        ("index", coll, ("elem",)) and the position itself ("elem",) - the same as `for i in 0..n { coll[i] }`."""
        e = self.canon(e)
        m = {}
        for path, kind, coll in self.components():
            x = ("elem",)
            for f in path:
                x = ("field", x, f)
            if kind == "item":
                m[x] = ("index", coll, ("elem",))
            elif path:
                m[x] = ("elem",)
        return norm(subst(e, m)) if m else e

    def rounds(self, facts):
        """Number of rounds when it is a constant: the shortest of the zipped components (range bounds, lengths of
        fixed-size arrays held in fields of self); None when not known."""
        best = None
        for path, kind, coll in self.components():
            n = None
            if kind == "index" and coll is None:
                continue
            if kind == "index":
                lo, hi = coll[3][0], coll[3][1]
                if lo[0] == "const" and hi[0] == "const" and isinstance(lo[1], int) and isinstance(hi[1], int):
                    n = max(0, hi[1] - lo[1])
            else:
                n = fixed_len(facts, self.body, coll)
            if n is None:
                return None
            best = n if best is None else min(best, n)
        return best

    def calls_to(self, *names):
        return [(bi, t) for bi, t in self.body.calls() if bi in self.region and any(callee_matches(self.body.callee_of(t), n) for n in names)]

    def deref_writes(self):
        """Assignments through a pointer inside the region: (bi, si, stmt)."""
        return [(b, si, st) for b in sorted(self.region) for si, st in enumerate(self.body.blocks[b]["stmts"]) if st["k"] == "assign" and "*" in st["pl"]["p"]]

    def every_round(self, blocks):
        """Every path from the start of a round to the next next() call passes one of `blocks`."""
        return self.some is not None and must_pass_through(self.body, list(blocks), from_bi=self.some, exits=[self.nbi])

    def once_per_round(self, bi):
        cut = [(p_, self.nbi) for p_ in self.body.preds(self.nbi)]
        again = set()
        for s2 in self.body.succs(bi):
            again |= self.body.reachable(s2, removed_edges=cut)
        return bi not in again


def resolve_payloads(body, e, rounds=4):
    """`(x as Some).0` where x is a local with several definitions of which exactly one builds `Some(y)` (the result
    slot of an inlined helper: `Some(y)` on one path, `None` / an early error on the others) is y - no other
    definition can be the value whose payload is read.  Likewise through `?`: `(Try::branch(x) as Continue).0`
    with the one definition `Ok(y)`."""
    e = norm(e)
    for _ in range(rounds):
        m = {}
        for sub in subexprs(e):
            if sub[0] != "field" or sub[2] not in ("0", 0) or sub[1][0] != "downcast":
                continue
            x, want = sub[1][1], sub[1][2]
            if is_call(x, "Try>::branch") or is_call(x, "Try::branch"):
                if want != "Continue" or len(x[2]) != 1:
                    continue
                x, want = norm(x[2][0]), ("Ok", "Some")
            else:
                want = (want,)
            if x[0] not in ("tmp", "var"):
                continue
            ds = [norm(d_) for d_ in var_def_exprs(body, x, True)]
            if len(ds) < 2:
                continue
            pays = [d_[3][0] for d_ in ds if d_[0] == "agg" and d_[1] == "adt" and len(d_[3]) == 1 and str(d_[2]).rsplit("::", 1)[-1] in want]
            if len(pays) == 1:
                m[sub] = norm(body.expand(pays[0]))
        if not m:
            break
        e = norm(subst(e, m))
    return e


def err_exit_blocks(body):
    """Blocks through which a fallible function leaves with an error: the `?` residual conversions and the explicit
    `return Err(..)` (an assignment of `Err(..)` to the return place)."""
    out = [bi for bi, t in body.calls() if callee_matches(body.callee_of(t), "FromResidual::from_residual")]
    for bi in body.live_blocks():
        for st in body.blocks[bi]["stmts"]:
            if st["k"] == "assign" and st["pl"]["l"] == 0 and not st["pl"]["p"] and st["rv"]["k"] == "agg" and st["rv"].get("ak") == "adt" \
                    and st["rv"].get("variant") == "Err" and str(st["rv"].get("adt", "")).endswith("result::Result"):
                out.append(bi)
    return out


def whole_drain(e):
    """`Vec::drain(v, ..)` / `VecDeque::drain(v, ..)` over the full range."""
    return (is_call(e, "Vec::drain") or is_call(e, "VecDeque::drain") or is_call(e, "drain")) and len(e[2]) == 2 and e[2][1][0] == "agg" and str(e[2][1][2]).endswith("RangeFull")


def iterates(it, coll, mutable=None):
    """Does iteration `it` run over the collection expression `coll`: coll.iter(), coll.iter_mut(), or
    `for x in &coll` / `&mut coll` / `coll`?"""
    src = it.source
    coll = norm(coll)
    if (is_call(src, "iter") or is_call(src, "iter_mut")) and norm(src[2][0]) == coll:
        return mutable is None or mutable == is_call(src, "iter_mut")
    return src == coll or norm(it.body.expand(src)) == coll


def iterations(body):
    out = []
    for bi, t in body.calls():
        if callee_matches(body.callee_of(t), "Iterator::next") and body.in_loop(bi):
            it = Iteration(body, bi, t)
            if it.some is not None:
                out.append(it)
    return out


def single_iteration(facts, body):
    """The unique iteration of the flattened `body`, or None."""
    fb = facts.flat(body)
    its = iterations(fb)
    return its[0] if len(its) == 1 else None


# ----------------------------------------------------------------------------------------
# path-wise symbolic evaluation of small loop-free bodies: what is returned on which path,
# whatever the spelling (`let mut x = a; if c { x += 1 } x`, `if c { a + 1 } else { a }`, early returns)
# ----------------------------------------------------------------------------------------

def sym_segment(body, start, stops, max_paths=128):
    """Like sym_paths for a piece of a body: every path from block `start` to the first block of `stops` (not
    entered), as [(lits, env)] with env mapping normalised place expressions to the value they hold at the end of
    the path (over what they held at `start`).  Used for one round of a loop."""
    out = []
    stops = set(stops)

    def ev(e, env):
        e = norm(e)
        return norm(subst(e, env)) if env else e

    def run(bi, env, lits, depth, seen):
        if len(out) > max_paths or depth > 200:
            raise TooManyStates("sym_segment: too many paths in %s" % body.spath)
        if bi in stops:
            out.append((tuple(lits), env))
            return
        if bi in seen:
            return  # an inner cycle: not followed
        seen = seen | {bi}
        bb = body.blocks[bi]
        env = dict(env)
        for st in bb["stmts"]:
            if st["k"] != "assign":
                continue
            pl = st["pl"]
            if pl["p"]:
                tg = place_target(body, pl)
                if tg is not None and tg[0] == "var":
                    # a write through a reference to a variable (a captured `&mut min` of a spliced closure)
                    env[norm(tg)] = ev(body.rvalue_expr(st["rv"], False), env)
                    continue
                key = body.place_expr({"l": pl["l"], "p": []}, False)
                if "*" not in pl["p"]:
                    env.pop(norm(key), None)
                continue
            env[norm(body.place_expr(pl, False))] = ev(body.rvalue_expr(st["rv"], False), env)
        t = bb["term"]
        if t is None or t["k"] == "return":
            return
        if t["k"] == "call":
            if t["t"] is None:
                return
            if not t["dest"]["p"]:
                env[norm(body.place_expr(t["dest"], False))] = ev(body.call_expr(t, False), env)
            run(t["t"], env, lits, depth + 1, seen)
            return
        if t["k"] == "switch":
            for tgt, atom, pol in edge_literals(body, bi):
                l2 = lits
                if atom is not None:
                    a = ev(atom, env)
                    if any(a == x and pol != v for x, v in lits):
                        continue
                    l2 = lits + [(a, pol)]
                run(tgt, env, l2, depth + 1, seen)
            return
        for s2 in body.succs(bi):
            run(s2, env, lits, depth + 1, seen)
    try:
        run(start, {}, [], 0, frozenset())
    except RecursionError:
        return None
    return out


def sym_paths(body, max_paths=128):
    """[(lits, ret)] for every path of a loop-free body: lits = ((atom, bool), ...) and ret = the value
    of the return place, both over parameters, fields of *self, constants and call results (locals
    are substituted by the value they hold on that path).  None if the body has a loop or too many
    paths.  Writes through pointers other than whole locals are ignored (not tracked)."""
    live = body.live_blocks()
    if any(body.in_loop(b) for b in live):
        return None
    out = []

    def ev(e, env):
        e = norm(e)
        return norm(subst(e, env)) if env else e

    def run(bi, env, lits, depth):
        if len(out) > max_paths or depth > 200:
            raise TooManyStates("sym_paths: too many paths in %s" % body.spath)
        bb = body.blocks[bi]
        env = dict(env)
        for st in bb["stmts"]:
            if st["k"] != "assign":
                continue
            pl = st["pl"]
            if pl["p"]:
                # a write into part of a local: forget what we knew about it
                key = body.place_expr({"l": pl["l"], "p": []}, False)
                if "*" not in pl["p"]:
                    env.pop(norm(key), None)
                continue
            val = ev(body.rvalue_expr(st["rv"], False), env)
            env[norm(body.place_expr(pl, False))] = val
        t = bb["term"]
        if t is None:
            return
        k = t["k"]
        if k == "return":
            out.append((tuple(lits), env.get(norm(body.place_expr({"l": 0, "p": []}, False)))))
            return
        if k == "call":
            if t["t"] is None:
                return
            if not t["dest"]["p"]:
                env[norm(body.place_expr(t["dest"], False))] = ev(body.call_expr(t, False), env)
            run(t["t"], env, lits, depth + 1)
            return
        if k == "switch":
            for tgt, atom, pol in edge_literals(body, bi):
                l2 = lits
                if atom is not None:
                    a = ev(atom, env)
                    # contradictory with what this path already decided?
                    if any(a == x and pol != v for x, v in lits):
                        continue
                    # a test on a value that is in sight on this path: `Some(x) is None` cannot be taken, and
                    # `Some(x) is Some` says nothing new
                    if a[0] == "variant" and a[1][0] == "agg" and a[1][1] == "adt" and isinstance(a[1][2], str) and "::" in a[1][2]:
                        if (a[1][2].rsplit("::", 1)[1] == a[2]) != bool(pol):
                            continue
                        run(tgt, env, lits, depth + 1)
                        continue
                    if a[0] == "const" and isinstance(a[1], (bool, int)) and a[2] == "bool":
                        if bool(a[1]) != bool(pol):
                            continue
                        run(tgt, env, lits, depth + 1)
                        continue
                    l2 = lits + [(a, pol)]
                run(tgt, env, l2, depth + 1)
            return
        for s2 in body.succs(bi):
            run(s2, env, lits, depth + 1)
    try:
        run(0, {}, [], 0)
    except RecursionError:
        return None
    return out
