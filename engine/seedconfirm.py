"""Confirm a seeded change produced in a scratch worktree and file it under /verif/seeded/<name>/.

    python3 engine/seedconfirm.py <worktree> <name>

In the worktree (never /repo): reset src to HEAD, apply seed/patch.diff, check that the crate
builds in the three configurations, run the pinned suite without the demonstration (must pass),
run the demonstration (must fail), revert the patch, run the demonstration again (must pass).
Then run every quick check against the patch applied to /repo (engine/seedcheck.py restores
/repo afterwards) and write patch.diff, the demonstration and meta.json to /verif/seeded/<name>/.
"""
import json
import os
import re
import shutil
import subprocess
import sys

VERIF = os.path.dirname(os.path.dirname(os.path.abspath(__file__)))


def sh(cmd, cwd, timeout=1800):
    r = subprocess.run(cmd, cwd=cwd, shell=True, stdout=subprocess.PIPE, stderr=subprocess.STDOUT, text=True, timeout=timeout, env=dict(os.environ, CARGO_NET_OFFLINE="true"))
    return r.returncode, r.stdout


def main():
    wt, name = os.path.abspath(sys.argv[1]), sys.argv[2]
    seed = os.path.join(wt, "seed")
    patch = os.path.join(seed, "patch.diff")
    meta = json.load(open(os.path.join(seed, "meta.json")))
    demo_files = [f for f in os.listdir(seed) if f.startswith("demo")]
    log = {}
    # demonstration: an integration test file, or a diff adding a cfg(test) module
    demo_rs = [f for f in demo_files if f.endswith(".rs")]
    demo_diff = [f for f in demo_files if f.endswith(".diff")]
    sh("git checkout -- src && rm -rf tests/demo_*.rs", wt)
    rc, out = sh("git apply --whitespace=nowarn seed/patch.diff", wt)
    if rc != 0:
        print("patch does not apply: " + out)
        return 1
    for cfgname, args in (("default", ""), ("async", "--no-default-features --features async"), ("full", "--features full")):
        rc, out = sh("cargo check --offline %s 2>&1 | tail -3" % args, wt)
        log["build_" + cfgname] = "error" not in out
        if "error" in out:
            print("does not build (%s): %s" % (cfgname, out))
            return 1
    # test_cache_key_to_hash (sleep 10 ms, then count hash calls while spinning) fails now and then on a
    # loaded machine, with or without any change: a suite run counts when one of three attempts is clean
    for attempt in range(3):
        rc, out = sh("cargo test --workspace --no-fail-fast --offline 2>&1 | grep -E '^test result|^test .*FAILED' | head -5", wt)
        m = re.search(r"(\d+) passed; (\d+) failed", out)
        if m and int(m.group(2)) == 0:
            break
        if "test_cache_key_to_hash" not in out:
            break
    log["suite_with_change"] = out.strip()
    if not m or int(m.group(1)) < 75 or int(m.group(2)) != 0:
        print("suite does not pass with the change: " + out)
        return 1
    # install the demonstration
    mcmd = meta.get("demo_cmd", "")
    cargo_part = re.search(r"cargo test[^;&|]*", mcmd)
    if demo_rs:
        os.makedirs(os.path.join(wt, "tests"), exist_ok=True)
        for f in demo_rs:
            shutil.copy2(os.path.join(seed, f), os.path.join(wt, "tests", f))
        demo_cmd = cargo_part.group(0).strip() if cargo_part and "--test" in cargo_part.group(0) else "cargo test --offline " + " ".join("--test " + f[:-3] for f in demo_rs)
    elif demo_diff:
        rc, out = sh("git apply --whitespace=nowarn seed/%s" % demo_diff[0], wt)
        if rc != 0:
            print("demo diff does not apply: " + out)
            return 1
        demo_cmd = cargo_part.group(0).strip() if cargo_part else "cargo test --offline --lib demo"
    else:
        print("no demonstration found")
        return 1
    fails = 0
    for i in range(2):
        rc, out = sh(demo_cmd + " 2>&1 | tail -25", wt)
        rcx, outx = sh(demo_cmd + " >/dev/null 2>&1; echo rc=$?", wt)
        if "rc=0" not in outx:
            fails += 1
    log["demo_with_change_failed_runs"] = "%d/2" % fails
    if fails == 0:
        print("demonstration does not fail with the change")
        return 1
    # revert the behavioural change, keep the demonstration
    rc, out = sh("git apply -R --whitespace=nowarn seed/patch.diff", wt)
    if rc != 0:
        print("cannot revert patch: " + out)
        return 1
    passes = 0
    for i in range(3):
        rcx, outx = sh(demo_cmd + " >/dev/null 2>&1; echo rc=$?", wt)
        if "rc=0" in outx:
            passes += 1
    log["demo_without_change_passed_runs"] = "%d/3" % passes
    sh("git checkout -- src && rm -rf tests/demo_*.rs", wt)
    if passes < 3:
        print("demonstration does not pass reliably without the change (%d/3)" % passes)
        return 1
    # run the checks (skipped with SEED_NO_CHECK=1: engine/seedsweep.py fills checks_fired later)
    fired = {}
    if not os.environ.get("SEED_NO_CHECK"):
        r = subprocess.run([sys.executable, os.path.join(VERIF, "engine", "seedcheck.py"), patch], stdout=subprocess.PIPE, stderr=subprocess.STDOUT, text=True)
        print(r.stdout)
        mm = re.search(r'\{"fired": .*\}', r.stdout)
        if mm:
            fired = json.loads(mm.group(0))["fired"]
    dst = os.path.join(VERIF, "seeded", name)
    os.makedirs(dst, exist_ok=True)
    if os.environ.get("SEED_KEEP_FIRED") and os.path.exists(os.path.join(dst, "meta.json")):
        fired = json.load(open(os.path.join(dst, "meta.json"))).get("checks_fired", {})
    if os.path.abspath(patch) != os.path.abspath(os.path.join(dst, "patch.diff")):
        shutil.copy2(patch, os.path.join(dst, "patch.diff"))
    for f in demo_files:
        if os.path.abspath(os.path.join(seed, f)) != os.path.abspath(os.path.join(dst, f)):
            shutil.copy2(os.path.join(seed, f), os.path.join(dst, f))
    meta_out = {
        "property": meta.get("property"),
        "summary": meta.get("summary"),
        "needs": meta.get("needs"),
        "origin": meta.get("origin") or "independent sub-agent given only the property text and a scratch worktree",
        "validated_against": subprocess.run(["git", "-C", wt, "rev-parse", "--short", "HEAD"], stdout=subprocess.PIPE, text=True).stdout.strip(),
        "demo_cmd": demo_cmd,
        "confirmed": log,
        "what_was_run": "in the scratch worktree: git apply patch; cargo check x3 configs; pinned suite (75 passed, 0 failed); demonstration failed with the change and passed 3/3 without it; "
                        "then engine/seedcheck.py: patch applied to /repo, every quick check run, /repo restored",
        "checks_fired": fired,
        "caught": bool(fired),
    }
    json.dump(meta_out, open(os.path.join(dst, "meta.json"), "w"), indent=1)
    print("filed under %s; caught=%s by %s" % (dst, bool(fired), sorted(fired)))
    return 0


if __name__ == "__main__":
    sys.exit(main())
