"""Property registry: id -> (rule function, floors, evidence metadata)."""
import props_policy
import props_sketch

COMMON_ASSUMPTIONS = [
    "rustc's type checker / MIR construction and the fact extractor's serialisation are trusted",
    "semantics of std / parking_lot / crossbeam / async-channel / wg calls are modelled, not analysed",
    "user-supplied KeyBuilder / Coster / UpdateValidator / CacheCallback / hasher / spawner are opaque and assumed not to panic, block or re-enter the cache",
    "static analysis only: no stretto code is executed; history / timing / numerical clauses of the property are not decided (see DESIGN.md)",
]

PROPS = {
    "C01": dict(fn=props_policy.check_C01, floor={"sync": 30, "async": 30},
                explanation="Inductive invariant used == sum(key_costs) and used <= max_cost after admission, decided structurally on the MIR of "
                            "SampledLFU and impl_policy!::add (both flavours): writer inventory, symbolic effect balance per path, guard dominance "
                            "(oversize test, key-absent test), typestate of `room` (fresh and >= 0 at every admission), value of room_left, capacity plumbing."),
    "C07": dict(fn=props_policy.check_C07, floor={"sync": 30, "async": 30},
                explanation="The TinyLFU / sampled-LFU rule written as path predicates over impl_policy!::add, the min-search closure and "
                            "SampledLFU::fill_sample (both flavours): fast path when room >= 0, eviction only while fresh room < 0, strict `<` rejection, "
                            "victim = sampled minimum, sample refilled per round, five samples."),
    "C13": dict(fn=props_sketch.check_C13, floor={"sync": 25, "async": 25},
                explanation="Count-min sketch and TinyLFU decided structurally: get/increment address the same nibble, the increment is dominated by the "
                            "saturation test on that nibble, reset halves / clear zeroes every byte of every row, increment and estimate index every row "
                            "with (hash ^ seed[i]) & mask, estimate is a minimum fold, sizing obligations folded over all 64 powers of two, TinyLFU "
                            "estimate/increment/try_reset/reset/clear shape, fresh state zero."),
    "C14": dict(fn=props_sketch.check_C14, floor={"sync": 15, "async": 15},
                explanation="Bloom filter decided structurally: add and contains probe the same positions the same number of times, set and is_set address "
                            "the same (byte, bit), demanded-bits analysis shows which bits of the position reach the cell address, writer inventory of the bit "
                            "array, reset/clear zero every word, sizing obligations (power-of-two size, mask, shift, word count, highest byte written) folded "
                            "over every size exponent."),
}

NOT_APPLICABLE = {}
