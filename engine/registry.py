"""Property registry: id -> (rule function, floors, evidence metadata)."""
import props_policy
import props_sketch
import props_store
import props_cache
import props_life
import props_keys
import props_panic
import props_sibling
import props_values
import witness
import props_fixture

COMMON_ASSUMPTIONS = [
    "rustc's type checker / MIR construction and the fact extractor's serialisation are trusted",
    "semantics of std / parking_lot / crossbeam / async-channel / wg calls are modelled, not analysed",
    "user-supplied KeyBuilder / Coster / UpdateValidator / CacheCallback / hasher / spawner are opaque and assumed not to panic, block or re-enter the cache",
    "static analysis only: no stretto code is executed; history / timing / numerical clauses of the property are not decided (see DESIGN.md)",
]

PROPS = {
    "C01": dict(fn=props_policy.check_C01, floor={"sync": 30, "async": 30}, once=lambda rep: props_fixture.check_fixture(rep, {"locks"}),
                explanation="Inductive invariant used == sum(key_costs) and used <= max_cost after admission, decided structurally on the MIR of "
                            "SampledLFU and impl_policy!::add (both flavours): writer inventory, symbolic effect balance per path, guard dominance "
                            "(oversize test, key-absent test), typestate of `room` (fresh and >= 0 at every admission), value of room_left, capacity plumbing."),
    "C07": dict(fn=props_policy.check_C07_all, floor={"sync": 30, "async": 30},
                explanation="The TinyLFU / sampled-LFU rule written as path predicates over impl_policy!::add, the min-search closure and "
                            "SampledLFU::fill_sample (both flavours): fast path when room >= 0, eviction only while fresh room < 0, strict `<` rejection, "
                            "victim = sampled minimum, sample refilled per round, five samples."),
    "C13": dict(fn=props_sketch.check_C13, floor={"sync": 25, "async": 25},
                explanation="Count-min sketch and TinyLFU decided structurally: get/increment address the same nibble, the increment is dominated by the "
                            "saturation test on that nibble, reset halves / clear zeroes every byte of every row, increment and estimate index every row "
                            "with (hash ^ seed[i]) & mask, estimate is a minimum fold, sizing obligations folded over all 64 powers of two, TinyLFU "
                            "estimate/increment/try_reset/reset/clear shape, fresh state zero."),
    "C14": dict(fn=props_sketch.check_C14, floor={"sync": 15, "async": 15},
                explanation="Bloom filter decided structurally: add and contains probe the same positions the same number of times, set and is_set address "
                            "the same (byte, bit), demanded-bits analysis shows which bits of the position reach the cell address, writer inventory of the bit "
                            "array, reset/clear zero every word, sizing obligations (power-of-two size, mask, shift, word count, highest byte written) folded "
                            "over every size exponent."),
    "C03": dict(fn=props_store.check_C03, floor={"sync": 35, "async": 35},
                explanation="TTL visibility decided structurally: lookups hand out a value only past the conflict and expiry guards, get_ttl goes through the "
                            "expiry-checked lookup of the same key, Time::{is_expired,get_ttl,now*} have the canonical shape, the ttl parameter becomes the stored "
                            "deadline (insert*, try_update, Item, StoreItem), an update replaces the deadline, and the sweeper uses the same predicate as the lookup."),
    "C05": dict(fn=props_store.check_C05, floor={"sync": 33, "async": 33},
                explanation="Expiry index and sweeper decided structurally: bucket arithmetic, a TTL key is filed in the bucket of its deadline on every path, "
                            "try_update moves exactly the updated key, the due set is every bucket <= cleanup_bucket(now), the sweeper re-checks the stored deadline "
                            "(non-zero and elapsed), reads the cost before releasing the charge, removes the same key and reports it once through on_evict."),
    "C09": dict(fn=props_store.check_C09, floor={"sync": 28, "async": 28},
                explanation="Conditional writes decided structurally: insert_if_present passes only_update, try_update yields no item on NotExist/Reject/Conflict with "
                            "only_update, every mutation in store.try_update/try_insert (value swap, deadline write, expiry-index update, shard insert) is dominated "
                            "by the conflict test and should_update == true, rejected paths return the caller's value."),
    "C16": dict(fn=props_cache.check_C16, floor={"sync": 20, "async": 20},
                explanation="Cost plumbing decided stage by stage as value-flow on the MIR (both flavours): external_cost = Coster iff cost == 0; New carries cost+external, "
                            "Update carries (cost, external); Item constructors map one-to-one; handle_item charges calculate_internal_cost(cost) (+external for updates); "
                            "calculate_internal_cost adds size_of::<StoreItem<V>>() unless the builder's flag is set; rejected / evicted / swept items report the charged cost."),
    "C17": dict(fn=props_cache.check_C17, floor={"sync": 35, "async": 35},
                explanation="Metrics conservation decided as exactly-once / pairing rules over all paths: one Hit xor Miss per open lookup; CostAdd per admission, CostEvict+KeyEvict "
                            "per released charge, RejectSets per rejection; KeyUpdate + wrapping signed CostAdd delta on in-place updates; KeyAdd iff added; DropSets iff a non-update "
                            "send fails; ratio/get/add shapes; METRIC_TYPES_ARRAY exhaustive and cleared stripe by stripe; one histogram bucket per sample."),
    "C15": dict(fn=props_cache.check_C15, floor={"sync": 10, "async": 10},
                explanation="Lookup -> estimator chain decided as must-call rules: get/get_mut push build_key(key).0 before the store lookup on every open path; the ring appends, flushes iff "
                            "full and empties the buffer; LFUPolicy::push accounts each flushed batch exactly once as kept or dropped; one channel policy -> worker; a received batch is applied "
                            "with admit.increments under the lock."),
    "C06": dict(fn=props_life.check_C06, floor={"sync": 20, "async": 20},
                explanation="Store/policy agreement decided as pairing + thread-affinity rules: membership-changing operations run only on the processor (call graph with thread "
                            "contexts), handle_item pairs added<->try_insert, victim<->try_remove, Delete<->policy.remove+store.try_remove, client remove pairs the store removal with a "
                            "queued Delete of the same (index, conflict), the sweeper pairs policy.remove with store.try_remove, no fallible call sits between paired changes, len() sums all shards."),
    "C10": dict(fn=props_life.check_C10, floor={"sync": 18, "async": 18}, once=lambda rep: props_fixture.check_fixture(rep, {"leak", "locks"}),
                explanation="wait() barrier decided structurally: a single bounded FIFO with three audited send sites and two receivers (both on the processor), handle_item applies items "
                            "synchronously and exhaustively with a releasing Wait arm, the Wait token is released on every way an item can be destroyed (Drop of its carrier, async drain after close), "
                            "wait() uses try_send and waits only after a successful enqueue, closed check first, workers leave their loops on the stop arm."),
    "C11": dict(fn=props_life.check_C11, floor={"sync": 25, "async": 25},
                explanation="clear() decided structurally: signal + policy/store/metrics reset on every successful path, the cleaner drains the buffer (New -> on_evict, Wait -> release), "
                            "policy.clear/TinyLFU::clear/SampledLFU::clear/ShardedMap::clear/Metrics::clear reset every piece of state, stale expiry-bucket entries are inert (sweeper predicate), "
                            "thread affinity of the reset."),
    "C12": dict(fn=props_life.check_C12, floor={"sync": 25, "async": 25}, once=lambda rep: props_fixture.check_fixture(rep, {"locks", "unwrap"}),
                explanation="close() decided structurally: every public operation tests is_closed before its first effect and returns the neutral value when closed, close() must pass through "
                            "stop signal + policy.close() + flag, worker loops return on their stop arm for message and disconnect alike and own no sender, no public operation unwraps a "
                            "Result whose Err is constructible (interprocedural may-Err analysis)."),
    "C18": dict(fn=props_keys.check_C18, floor={"sync": 40, "async": 40}, once_thorough=lambda rep: witness.check_witnesses(rep, "R18.1/K11"),
                explanation="Key identity decided structurally: every TransparentHasher::write_* stores `i as u64`, finish returns it, TransparentKeyBuilder hashes through a fresh "
                            "identity hasher with conflict 0, build_key = (hash_index, hash_conflict); key hashing is pure (no clock / RNG / global / self mutation, seed drawn once, builder "
                            "never written after finalize); the conflict test guards all five store accessors; every cache operation passes index and conflict of one build_key call; "
                            "charge isolation of colliding keys = R06.2 (known finding F10)."),
    "C02": dict(fn=props_keys.check_C02, floor={"sync": 50, "async": 50}, once_thorough=lambda rep: witness.check_witnesses(rep, "R02.3/K11"),
                explanation="Same-key lookups decided structurally: one shard selector in all accessors, a reference is handed out only for the looked-up key past the conflict and expiry "
                            "guards and borrows from that item under the guard moved into it, resident values are written only by store.try_update (after conflict + validator) and "
                            "through ValueRefMut, the swapped-out value goes to on_exit only, every insert runs the in-place update before returning, remove deletes before returning and "
                            "queues Delete on the single FIFO, store.try_insert only for admitted items."),
    "C04": dict(fn=props_keys.check_C04, floor={"sync": 40, "async": 40},
                explanation="Closed-world argument: every site that removes or overwrites a store entry or releases a charge is inventoried (shard mutations, callers of try_remove / "
                            "clear / policy.remove / SampledLFU::remove) and each category's guard is checked: eviction/rejection only while room < 0, sweeper only for due, non-zero, "
                            "elapsed deadlines of the same key, expiry-index update moves exactly one key, an absent key is always inserted, insert fails only on buffer-full/closed."),
    "C20": dict(fn=props_panic.check_C20, floor={"sync": 60, "async": 60}, once=lambda rep: props_fixture.check_fixture(rep, {"locks", "unwrap"}),
                explanation="Accepted configurations decided structurally: finalize returns InvalidNumCounters / InvalidMaxCost / InvalidBufferSize on the respective zero before any channel, "
                            "policy or worker is created and hands the validated values on; every panic-capable site of the crate (bounds / division asserts, unwrap / expect, Vec indexing, explicit "
                            "panics) is enumerated and must be discharged automatically (constant divisor, index bounded by construction, infallible Result by the may-Err analysis, builder options "
                            "always Some, ...) or by an audited entry with its reason; sketch and Bloom sizing obligations folded over all powers of two; lock-order graph acyclic, nothing blocking "
                            "and no unexpected user callback under a lock.",
                assumptions=["overflow checks (debug builds only) on cost / counter arithmetic are not counted as panic sites: costs are user data outside the configuration space of C20",
                             "the system clock does not step backwards (Time::elapsed / unix unwrap a SystemTimeError)"]),
    "C08": dict(fn=props_values.check_C08, floor={"sync": 40, "async": 40}, once=lambda rep: props_fixture.check_fixture(rep, {"leak"}), once_thorough=lambda rep: witness.check_witnesses(rep, "R08.3/K11"),
                explanation="Value conservation decided structurally: (R08.1) move analysis on mir_built of every repository body: each implicit drop of a value-bearing local (V, Option<V>, "
                            "StoreItem<V>, Item<V>, UpdateResult<V>, send errors, ...) that is live on some path is enumerated and must be one of the audited `insert -> false` / remnant cases; "
                            "(R08.2) routing table: the closed list of callers of on_exit / on_evict / on_reject with the provenance of the value each hands over; (R08.3) no duplication or leak "
                            "primitive anywhere (values stay affine); (R08.4) resident values are bulk-dropped only by ShardedMap::clear, reached only from clear()."),
    "C19": dict(fn=props_sibling.check_C19, floor={"sync": 0, "async": 750},
                explanation="AsyncCache vs Cache decided structurally: (R19.1) every rule of every other property is instantiated on the async flavour - the only analysis the async code gets, "
                            "since the pinned test-suite never compiles it; (R19.2) effect-skeleton diff of 35 sibling function pairs: the sets of path signatures (multiset of store / policy / "
                            "metrics / callback / channel / flag effects per path-sensitive return state), closure effects and return classes must be equal modulo .await and type renaming, "
                            "except for a frozen table of accepted differences with one reason each."),
}

NOT_APPLICABLE = {}
