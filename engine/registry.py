"""Property registry: id -> (rule function, floors, evidence metadata)."""
import props_policy

COMMON_ASSUMPTIONS = [
    "rustc's type checker / MIR construction and the fact extractor's serialisation are trusted",
    "semantics of std / parking_lot / crossbeam / async-channel / wg calls are modelled, not analysed",
    "user-supplied KeyBuilder / Coster / UpdateValidator / CacheCallback / hasher / spawner are opaque and assumed not to panic, block or re-enter the cache",
    "static analysis only: no stretto code is executed; history / timing / numerical clauses of the property are not decided (see DESIGN.md)",
]

PROPS = {
    "C01": dict(fn=props_policy.check_C01, floor={"sync": 30, "async": 30},
                explanation="Inductive invariant used == sum(key_costs) and used <= max_cost after admission, decided structurally on the MIR of "
                            "SampledLFU and impl_policy!::add (both flavours): writer inventory, symbolic effect balance per path, guard dominance "
                            "(oversize test, key-absent test), typestate of `room` (fresh and >= 0 at every admission), value of room_left, capacity plumbing."),
    "C07": dict(fn=props_policy.check_C07, floor={"sync": 30, "async": 30},
                explanation="The TinyLFU / sampled-LFU rule written as path predicates over impl_policy!::add, the min-search closure and "
                            "SampledLFU::fill_sample (both flavours): fast path when room >= 0, eviction only while fresh room < 0, strict `<` rejection, "
                            "victim = sampled minimum, sample refilled per round, five samples."),
}

NOT_APPLICABLE = {}
