"""K11 compile-fail witnesses: builds a throw-away crate (path-depending on the tree under
analysis) from /verif/witnesses/src and runs its doctests on nightly, where the error codes of
`compile_fail,E0xxx` are checked."""
import os
import re
import shutil
import subprocess

import factsrun

VERIF = factsrun.VERIF


def run_witnesses():
    """-> (ok, n_passed, n_failed, output tail)"""
    repo = factsrun.REPO
    th = factsrun.tree_hash(repo)
    wdir = os.path.join(factsrun.CACHE, "witness-crate")
    shutil.rmtree(wdir, ignore_errors=True)
    os.makedirs(os.path.join(wdir, "src"))
    shutil.copy2(os.path.join(VERIF, "witnesses", "src", "lib.rs"), os.path.join(wdir, "src", "lib.rs"))
    with open(os.path.join(wdir, "Cargo.toml"), "w") as f:
        f.write('[package]\nname = "stretto-witnesses"\nversion = "0.1.0"\nedition = "2021"\n\n[lib]\npath = "src/lib.rs"\n\n'
                '[dependencies]\nstretto = { path = "%s" }\n\n[workspace]\n' % repo)
    lock = os.path.join(repo, "Cargo.lock")
    if os.path.exists(lock):
        shutil.copy2(lock, os.path.join(wdir, "Cargo.lock"))
    env = dict(os.environ, CARGO_NET_OFFLINE="true", CARGO_TARGET_DIR=os.path.join(factsrun.CACHE, "target", "witnesses"))
    env.pop("RUSTC_WORKSPACE_WRAPPER", None)
    r = subprocess.run(["cargo", "+nightly", "test", "--doc", "--offline"], cwd=wdir, env=env, stdout=subprocess.PIPE, stderr=subprocess.STDOUT, text=True)
    out = r.stdout
    m = re.search(r"test result: (\w+)\. (\d+) passed; (\d+) failed", out)
    shutil.rmtree(wdir, ignore_errors=True)
    if not m:
        return False, 0, 0, out[-3000:]
    failed = re.findall(r"^test (src/lib\.rs - \S+ \(line \d+\)[^\n]*) \.\.\. FAILED", out, re.M)
    return (r.returncode == 0 and m.group(1) == "ok"), int(m.group(2)), int(m.group(3)), ("\n".join(failed) + "\n" + out[-1500:]) if failed else ""


def check_witnesses(rep, rule):
    """Adds one instance per run (not per flavour)."""
    fl = "witness-crate/nightly"
    ok, n_pass, n_fail, tail = run_witnesses()
    rep.check(ok and n_pass >= 12, rule, fl, "witnesses", "compile-fail witnesses",
              "%d doctests passed: 6 compile_fail witnesses (E0597 x2, E0382 x2, E0277, E0599) failed to compile with the expected code and their 6 twins compiled" % n_pass,
              "compile-fail witnesses: %d passed, %d failed: a borrow / ownership fact of the public API no longer holds (or a twin stopped compiling): %s" % (n_pass, n_fail, tail[-600:]))


if __name__ == "__main__":
    print(run_witnesses())
