"""Development helper: run quick checks against a seeded patch applied to a scratch copy of /repo
(outside /repo and /verif, removed afterwards) -- does not touch /repo, so several can run at once.

    python3 engine/seedtry.py <patch.diff> [prop ...]
"""
import os
import re
import shutil
import subprocess
import sys
import concurrent.futures as cf

VERIF = os.path.dirname(os.path.dirname(os.path.abspath(__file__)))
sys.path.insert(0, os.path.join(VERIF, "engine"))
import registry  # noqa: E402
import selftest  # noqa: E402


def main():
    patch = os.path.abspath(sys.argv[1])
    props = sys.argv[2:] or sorted(registry.PROPS)
    d = selftest.make_scratch()
    try:
        r = subprocess.run(["patch", "-p1", "-s", "-i", patch], cwd=d, stdout=subprocess.PIPE, stderr=subprocess.STDOUT, text=True)
        if r.returncode != 0:
            print("patch does not apply: " + r.stdout)
            return 2
        # first check builds the facts; the rest reuse the cache
        def one(p):
            rc, out = selftest.run_check(d, p)
            rules = sorted(set(re.findall(r"^\s+(?:VIOLATION|ANCHOR-MISSING) (\S+) ", out, re.M)))
            first = re.search(r"^\s+(?:VIOLATION|ANCHOR-MISSING) .*\n\s+(.*)$", out, re.M)
            return p, rc, rules, (first.group(1)[:220] if first else ""), ("FATAL" in out)
        res = [one(props[0])]
        with cf.ThreadPoolExecutor(8) as ex:
            res += list(ex.map(one, props[1:]))
        for p, rc, rules, first, fatal in res:
            if rc != 0:
                print("%s: FIRED %s%s | %s" % (p, ",".join(rules), " FATAL" if fatal else "", first))
        print("fired: " + " ".join(p for p, rc, *_ in res if rc != 0))
    finally:
        shutil.rmtree(d, ignore_errors=True)
    return 0


if __name__ == "__main__":
    sys.exit(main())
