"""Behaviour-preserving refactorings (/verif/benign/*.diff, written by independent sub-agents who saw
nothing of /verif) must leave every check silent.

    python3 engine/benignsweep.py [-j N] [name-substring ...]

Each patch is applied to a scratch copy of /repo's working tree (outside /repo and /verif, removed
afterwards) and all 20 quick checks are run on it.  Exit 1 if any check fires."""
import os
import re
import shutil
import subprocess
import sys
import concurrent.futures as cf

VERIF = os.path.dirname(os.path.dirname(os.path.abspath(__file__)))
sys.path.insert(0, os.path.join(VERIF, "engine"))
import registry  # noqa: E402
import selftest  # noqa: E402


def one(patch):
    d = selftest.make_scratch()
    name = os.path.basename(patch)[:-5]
    try:
        r = subprocess.run(["patch", "-p1", "-s", "-i", patch], cwd=d, stdout=subprocess.PIPE, stderr=subprocess.STDOUT, text=True)
        if r.returncode != 0:
            return name, None, "does not apply"
        fired = {}
        for p in sorted(registry.PROPS):
            rc, out = selftest.run_check(d, p)
            if rc != 0:
                rules = sorted(set(re.findall(r"^\s+(?:VIOLATION|ANCHOR-MISSING) (\S+) ", out, re.M)))
                first = re.search(r"^\s+(?:VIOLATION|ANCHOR-MISSING) .*\n\s+(.*)$", out, re.M)
                fired[p] = (rules, first.group(1)[:200] if first else ("FATAL" if "FATAL" in out else ""))
        return name, fired, ""
    finally:
        shutil.rmtree(d, ignore_errors=True)


def main():
    args = sys.argv[1:]
    j = 4
    if "-j" in args:
        i = args.index("-j")
        j = int(args[i + 1])
        del args[i:i + 2]
    base = os.path.join(VERIF, "benign")
    patches = sorted(os.path.join(base, f) for f in os.listdir(base) if f.endswith(".diff") and (not args or any(a in f for a in args)))
    bad = 0
    skipped = 0
    with cf.ThreadPoolExecutor(j) as ex:
        for name, fired, note in ex.map(one, patches):
            if fired is None:
                skipped += 1
                print("SKIP   %-12s %s" % (name, note), flush=True)
            elif fired:
                bad += 1
                print("ALARM  %-12s %s" % (name, "; ".join("%s:%s %s" % (p, ",".join(r), m) for p, (r, m) in fired.items() if p != "C19" or len(fired) == 1)[:600]), flush=True)
            else:
                print("SILENT %-12s" % name, flush=True)
    print("%d refactorings, %d silent, %d alarms, %d skipped" % (len(patches), len(patches) - bad - skipped, bad, skipped))
    return 1 if bad else 0


if __name__ == "__main__":
    sys.exit(main())
