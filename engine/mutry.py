"""Development helper: apply each edit set of a JSON file ([{name, edits:[{file, find, replace, count}]}]) to a scratch
copy of /repo, check that it still compiles, and run the quick checks on it; prints which properties fire.

    python3 engine/mutry.py <file.json> [name-filter] [-- prop ...]
"""
import json
import os
import re
import shutil
import subprocess
import sys
import concurrent.futures as cf

VERIF = os.path.dirname(os.path.dirname(os.path.abspath(__file__)))
sys.path.insert(0, os.path.join(VERIF, "engine"))
import registry  # noqa: E402
import selftest  # noqa: E402


def one_mutant(m, props):
    d = selftest.make_scratch()
    try:
        err = selftest.apply(m, d)
        if err:
            return m["name"], "SKIP " + err
        def one(p):
            rc, out = selftest.run_check(d, p)
            rules = sorted(set(re.findall(r"^\s+(?:VIOLATION|ANCHOR-MISSING) (\S+) ", out, re.M)))
            return p, rc, rules, ("FATAL" in out)
        res = [one(props[0])]
        with cf.ThreadPoolExecutor(4) as ex:
            res += list(ex.map(one, props[1:]))
        fired = ["%s:%s%s" % (p, ",".join(rules), " FATAL" if fatal else "") for p, rc, rules, fatal in res if rc != 0]
        return m["name"], "fired: " + ("; ".join(fired) if fired else "-")
    finally:
        shutil.rmtree(d, ignore_errors=True)


def main():
    args = sys.argv[1:]
    props = sorted(registry.PROPS)
    if "--" in args:
        i = args.index("--")
        props = args[i + 1:]
        args = args[:i]
    muts = json.load(open(args[0]))
    if len(args) > 1:
        muts = [m for m in muts if any(f in m["name"] for f in args[1:])]
    with cf.ThreadPoolExecutor(3) as ex:
        for name, res in ex.map(lambda m: one_mutant(m, props), muts):
            print("%-50s %s" % (name, res), flush=True)


if __name__ == "__main__":
    main()
