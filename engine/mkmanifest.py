"""Regenerates /verif/MANIFEST.json from the registry (run after adding a property)."""
import json, os, sys
sys.path.insert(0, os.path.dirname(os.path.abspath(__file__)))
import registry

VERIF = os.path.dirname(os.path.dirname(os.path.abspath(__file__)))
ALL = ["C%02d" % i for i in range(1, 21)]

checks = []
for pid in ALL:
    if pid not in registry.PROPS:
        continue
    m = registry.PROPS[pid]
    checks.append({
        "property_id": pid,
        "quick_cmd": "./check %s --tier quick" % pid,
        "thorough_cmd": "./check %s --tier thorough" % pid,
        "evidence_file": "/verif/evidence/%s.json" % pid,
        "replay_cmd_template": "cat {path}",
        "engine": "stretto-static",
        "level_claimed": {
            "category": "other",
            "text": m.get("level_text") or ("Static analysis of the type-checked MIR of /repo's current tree, exhaustive over all paths of the analysed functions in both "
                     "the sync and the async flavour: decides the structural necessary conditions of the property listed in DESIGN.md section 3 (" + pid + "), "
                     "not the behavioural property as a whole. " + m["explanation"]),
            "design_ref": "DESIGN.md section 3, " + pid,
        },
        "level_note": m.get("level_note") or ("Trusted: rustc MIR construction, the fact extractor, the rule engine (validated by the mutant/benign corpus in /verif/mutants). "
                       "Library semantics are modelled. History-, timing- and numeric clauses are not decided (DESIGN.md section 4)."),
        "technique": m.get("technique", "custom MIR dataflow / guard-dominance / value-flow rules (rustc_private driver + Python rule engine)"),
    })
na = []
for pid in ALL:
    if pid not in registry.PROPS:
        na.append({"property_id": pid, "reason": registry.NOT_APPLICABLE.get(pid, "rules for this property are not implemented yet in this snapshot; no claim is made")})
man = {
    "version": 1,
    "setup_cmd": "./setup.sh",
    "hooks": {
        "guard": "transparencies_stretto_verif",
        "enable": "none needed: static analysis reads the unmodified tree (no source hooks)",
        "baseline_off_cmd": "cd /repo && cargo test --workspace --no-fail-fast --offline",
        "source_commits": [],
        "add_only": True,
    },
    "engines": [
        {"name": "stretto-static", "path": "/verif/check", "serves_properties": [c["property_id"] for c in checks],
         "kind_free_text": "rustc_private fact extractor (driver/) + Python rule engine (engine/): path-sensitive MIR dataflow, guard dominance, value-flow, inventories"},
    ],
    "checks": checks,
    "not_applicable": na,
    "notes": "All checks are static: they rebuild MIR facts from /repo's working tree with `cargo +nightly check` under a rustc_private wrapper and never execute stretto. "
             "Known findings are listed in /verif/KNOWN_FINDINGS.txt. Self-validation corpus: python3 engine/selftest.py.",
}
json.dump(man, open(os.path.join(VERIF, "MANIFEST.json"), "w"), indent=1)
print("MANIFEST.json: %d checks, %d not_applicable" % (len(checks), len(na)))
