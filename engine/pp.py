"""Pretty-printer for the facts JSON (debugging aid, not part of any verdict)."""
import json, sys

def pl(p):
    s = "_%d" % p["l"]
    for e in p["p"]:
        if e == "*":
            s = "(*%s)" % s
        elif e.startswith("."):
            s = "%s%s" % (s, e.partition("@")[0])
        elif e.startswith("as "):
            s = "(%s %s)" % (s, e)
        else:
            s = s + e
    return s

def op(o):
    if o["k"] in ("copy", "move"):
        return ("move " if o["k"] == "move" else "") + pl(o["pl"])
    if o["k"] == "const":
        if "fn" in o:
            return "fn:" + o["fn"]
        if "v" in o:
            return "const %s:%s" % (o["v"], o["ty"])
        return "const{" + o["s"] + "}"
    return str(o)

def rv(r):
    k = r["k"]
    if k == "use": return op(r["op"])
    if k == "ref": return "&%s %s" % (r["bk"], pl(r["pl"]))
    if k == "rawptr": return "&raw %s" % pl(r["pl"])
    if k == "cast": return "%s as %s [%s]" % (op(r["op"]), r["ty"], r["ck"])
    if k == "binop": return "%s(%s, %s)" % (r["op"], op(r["a"]), op(r["b"]))
    if k == "unop": return "%s(%s)" % (r["op"], op(r["a"]))
    if k == "discr": return "discr(%s)" % pl(r["pl"])
    if k == "agg":
        ak = r["ak"]
        f = ", ".join(op(x) for x in r["fields"])
        if ak == "adt": return "%s::%s{%s}" % (r["adt"], r["variant"], f)
        if ak in ("closure", "coroutine", "coroutine_closure"): return "%s<%s>[%s]" % (ak, r["def"], f)
        return "%s(%s)" % (ak, f)
    return str(r)

def term(t):
    k = t["k"]
    if k == "goto": return "goto bb%d" % t["t"]
    if k == "switch": return "switch %s [%s] else bb%d" % (op(t["d"]), ", ".join("%d->bb%d" % (v, b) for v, b in t["tg"]), t["o"])
    if k == "call":
        c = t["callee"] or ("<indirect %s>" % op(t["fnop"]))
        r = t.get("resolved")
        extra = ""
        if r and r != t["callee"]: extra = "  ==> " + r
        if t.get("closures"): extra += "  closures=%s" % t["closures"]
        return "%s = %s(%s) -> bb%s%s" % (pl(t["dest"]), c, ", ".join(op(a) for a in t["args"]), t["t"], extra)
    if k == "drop": return "drop(%s : %s) -> bb%d" % (pl(t["pl"]), t["ty"], t["t"])
    if k == "assert": return "assert(%s == %s) [%s] -> bb%d" % (op(t["cond"]), t["expected"], t["ak"], t["t"])
    if k == "yield": return "yield %s -> bb%d" % (op(t["v"]), t["t"])
    if k == "falseedge": return "falseedge bb%d (imag bb%d)" % (t["t"], t["imag"])
    if k == "falseunwind": return "falseunwind bb%d" % t["t"]
    return k

def pp(b, out=sys.stdout):
    w = out.write
    w("=== %s  [%s] %s:%d\n" % (b["path"], b["defkind"], b["span"]["f"], b["span"]["l"]))
    names = {}
    for d in b["debug"]:
        if "pl" in d:
            names.setdefault(pl(d["pl"]), []).append(d["name"])
    for i, l in enumerate(b["locals"]):
        w("  let _%d: %s%s%s\n" % (i, l["ty"], "  // " + ",".join(names.get("_%d" % i, [])) if "_%d" % i in names else "", " (user)" if l["user"] else ""))
    for k, v in names.items():
        if not k[1:].isdigit():
            w("  debug %s => %s\n" % (",".join(v), k))
    for i, bb in enumerate(b["blocks"]):
        if bb["cleanup"]:
            continue
        w("  bb%d:\n" % i)
        for s in bb["stmts"]:
            if s["k"] == "assign":
                w("    %s = %s   // L%d\n" % (pl(s["pl"]), rv(s["rv"]), s["sp"]["l"]))
            elif s["k"] in ("live", "dead"):
                pass
            else:
                w("    %s\n" % s)
        if bb["term"]:
            w("    %s   // L%d\n" % (term(bb["term"]), bb["term"]["sp"]["l"]))

if __name__ == "__main__":
    d = json.load(open(sys.argv[1]))
    key = "optimized" if len(sys.argv) > 3 and sys.argv[3] == "opt" else "bodies"
    for b in d[key]:
        if sys.argv[2] in b["path"]:
            pp(b)
