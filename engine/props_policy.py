"""C01 (charged cost <= max_cost) and C07 (TinyLFU / sampled-LFU admission rule).

Both live in `impl_policy!::add` (one expansion per flavour) and `SampledLFU`."""
from lib import *
from cachelib import ctor_fields

SLFU = "policy::SampledLFU"


# ----------------------------------------------------------------------------------------
# discovery: who writes SampledLFU.used / mutates SampledLFU.key_costs
# ----------------------------------------------------------------------------------------

def slfu_writers(facts):
    """root function spath -> set of fields ('used' / 'key_costs') it writes or mutably borrows."""
    out = {}
    for b in facts.bodies:
        for bi, si, role, pl in b.place_uses():
            if role not in ("write", "mutref"):
                continue
            for fld in ("used", "key_costs"):
                if has_field(pl, fld, SLFU):
                    name, owner = field_last(pl)
                    # a write *through* the field (e.g. key_costs.x) or of the field itself
                    root = strip_generics(b.raw["root"])
                    out.setdefault(root, set()).add(fld)
    return out


# ----------------------------------------------------------------------------------------
# R01.2: effect balance  used  <->  sum(key_costs)
# ----------------------------------------------------------------------------------------

class Unmodelled(Exception):
    pass


def closure_used_delta(facts, cdef):
    """Effect of a closure body on its captured `self.used`, as a linear form over the closure's
    parameters.  Returns (delta, param_names)."""
    cb = facts.closure_body(cdef)
    params = [cb.local_name.get(i, "arg%d" % i) for i in range(2, cb.arg_count + 1)]
    delta = {}
    for bi in cb.live_blocks():
        bb = cb.blocks[bi]
        for si, st in enumerate(bb["stmts"]):
            if st["k"] != "assign":
                continue
            tgt = place_target(cb, st["pl"])
            if tgt is None or tgt[0] != "var" or "used" not in tgt[1]:
                continue
            if cb.in_loop(bi):
                raise Unmodelled("write to captured used inside a loop in %s" % cdef)
            rv = cb.rvalue_expr(st["rv"], True)
            d = lin_sub(lin(rv), {tgt: 1})
            if any(mentions(t, tgt) for t in d if t != 1):
                raise Unmodelled("non-linear update of captured used in %s" % cdef)
            delta = lin_add(delta, d)
    return delta, params, cb


def balance_of(facts, body):
    """Path-sensitive symbolic effect of a SampledLFU method on (used, sum key_costs).
    Returns list of (return-state description, used_delta, map_delta, used_reset, map_reset)."""
    self_used = norm(F(V("self"), "used"))
    self_map = norm(F(V("self"), "key_costs"))
    init = ((), (), False, False)  # (used lin key items, map lin key items, used_reset, map_reset)

    def get(u):
        return dict(u[0]), dict(u[1]), u[2], u[3]

    def put(ud, md, ur, mr):
        return (tuple(sorted(ud.items(), key=repr)), tuple(sorted(md.items(), key=repr)), ur, mr)

    def node_fn(s, bi, si, node):
        ud, md, ur, mr = get(s.user)
        if node["k"] == "assign":
            pl = node["pl"]
            tgt = place_target(body, pl)
            if tgt is None:
                return None
            if tgt == self_used:
                rv = body.rvalue_expr(node["rv"], True)
                if body.in_loop(bi):
                    raise Unmodelled("write to used inside a loop")
                rvn = norm(rv)
                if rvn[0] == "const":
                    return s.with_user(put({} if rvn[1] == 0 else {1: rvn[1]}, md, True, mr))
                d = lin_sub(lin(rv), {self_used: 1})
                # `let cost = self.key_costs.remove(k)?; self.used -= cost`: the payload of the removal is the removed value
                d2_ = {}
                for t_, c_ in d.items():
                    if isinstance(t_, tuple):
                        for sub_ in list(subexprs(t_)):
                            if sub_[0] == "field" and sub_[2] in ("0", 0) and sub_[1][0] == "downcast" and sub_[1][2] == "Some" and is_call(sub_[1][1], "HashMap::remove") \
                                    and norm(sub_[1][1][2][0]) == self_map:
                                t_ = subst(t_, {sub_: ("removed", sub_[1][1])})
                    d2_[t_] = d2_.get(t_, 0) + c_
                d = d2_
                if any(isinstance(t, tuple) and mentions(t, self_used) for t in d):
                    raise Unmodelled("used := %s is not used + delta" % show(rv))
                return s.with_user(put(lin_add(ud, d), md, ur, mr))
            # write through a pointer obtained from key_costs.get_mut(..)
            if tgt[0] == "var":
                src = body.expand(tgt) if tgt[1] in body.name_local else tgt
                l = body.name_local.get(tgt[1])
                if l is not None and "*" in pl["p"]:
                    de = body.def_expr(*body.defs[l][0], True) if len(body.defs.get(l, [])) == 1 else None
                    if de is not None and any(is_call(c, "HashMap::get_mut") and norm(c[2][0]) == self_map for c in calls_in(de)):
                        if body.in_loop(bi):
                            raise Unmodelled("write through get_mut pointer inside a loop")
                        rv = body.rvalue_expr(node["rv"], True)
                        d = lin_sub(lin(rv), {norm(body.expand(tgt)): 1})
                        return s.with_user(put(ud, lin_add(md, d), ur, mr))
            return None
        if node["k"] == "call":
            c = body.callee_of(node)
            args = [norm(a) for a in body.call_args(node)]
            cl = closure_of_call(body, node)
            if any(any(norm(x) == self_used for x in ce[2]) for ce in cl):
                # closures capturing used: Option::map(removed, |c| used -= c)
                handled = False
                for ce in cl:
                    cap_used = any(norm(x) == self_used for x in ce[2])
                    if cap_used:
                        handled = True
                        if c != "std::option::Option::map":
                            raise Unmodelled("closure writing used passed to %s" % c)
                        delta, params, cb = closure_used_delta(body.facts, ce[1])
                        recv = args[0]
                        if not (is_call(recv, "HashMap::remove") and norm(recv[2][0]) == self_map):
                            raise Unmodelled("Option::map receiver is not key_costs.remove(..)")
                        sym = ("removed", recv)
                        # closure param (payload) := the removed value; captured used := self.used
                        mp = {V(params[0]): sym} if params else {}
                        d2 = {}
                        for t, co in delta.items():
                            t2 = subst(t, mp) if t != 1 else 1
                            d2[t2] = d2.get(t2, 0) + co
                        if body.in_loop(bi):
                            raise Unmodelled("closure writing used called in a loop")
                        return s.with_user(put(lin_add(ud, d2), md, ur, mr))
                return None
            if not args or not any(a == self_map or a == self_used for a in args):
                return None
            if body.in_loop(bi):
                raise Unmodelled("%s on key_costs inside a loop" % short(c))
            if c == "std::collections::HashMap::insert" and args[0] == self_map:
                return s.with_user(put(ud, lin_add(md, lin(args[2])), ur, mr))
            if c == "std::collections::HashMap::remove" and args[0] == self_map:
                sym = ("removed", norm(body.call_expr(node, True)))
                return s.with_user(put(ud, lin_add(md, {sym: -1}), ur, mr))
            if c == "std::collections::HashMap::clear" and args[0] == self_map:
                return s.with_user(put(ud, {}, ur, True))
            if c in ("std::collections::HashMap::get_mut", "std::collections::HashMap::get", "std::collections::HashMap::contains_key",
                     "std::collections::HashMap::iter", "std::collections::HashMap::len"):
                return None
            raise Unmodelled("call %s touching used/key_costs" % short(c))
        return None

    at, entry = dataflow(body, init_user=init, node_fn=node_fn)
    outs = []
    for rb in body.return_blocks():
        for s in at.get((rb, term_idx(body, rb)), set()):
            ud, md, ur, mr = get(s.user)
            # equalities known on this path (a `cmp(..) is Equal` arm, an `==` test): the two
            # effects may differ by a multiple of (x - y)
            eqs = []
            for a, v in expand_state(body, s, hist=True).lits:
                if a[0] == "variant" and is_call(a[1], "HashMap::remove") and ((v and a[2] == "None") or (v is False and a[2] == "Some")):
                    # the removal found nothing on this path: nothing left the map
                    sym_ = ("removed", norm(a[1]))
                    ud = {t_: c_ for t_, c_ in ud.items() if t_ != sym_}
                    md = {t_: c_ for t_, c_ in md.items() if t_ != sym_}
                if v and a[0] == "variant" and a[2] == "Equal" and is_call(a[1], "cmp"):
                    x, y = a[1][2][0], a[1][2][1]
                    eqs.append(lin_sub(lin(x), lin(y)))
                elif v and a[0] == "bin" and a[1] == "Eq":
                    eqs.append(lin_sub(lin(a[2]), lin(a[3])))
            diff = lin_sub(ud, md)
            for e in eqs:
                for k in (1, -1, 2, -2):
                    if diff and lin_key(diff) == lin_key({t: c * k for t, c in e.items()}):
                        md = lin_add(md, diff)
                        diff = {}
            outs.append((show_state(s), ud, md, ur, mr))
    return outs


def check_balance(rep, fl, writers):
    facts = fl.facts
    for root in sorted(writers):
        b = facts.body(root, required=False)
        if b is None:
            continue
        try:
            outs = balance_of(facts, b)
        except Unmodelled as e:
            rep.bad("R01.2", fl, b, "balance", "cannot establish used == sum(key_costs): %s" % e)
            continue
        if not outs:
            rep.missing("R01.2", fl, "no return state for %s" % root)
            continue
        allok = True
        for desc, ud, md, ur, mr in outs:
            if lin_key(ud) != lin_key(md) or ur != mr:
                allok = False
                rep.bad("R01.2", fl, b, "balance[%s]" % desc,
                        "effect on used (%s%s) differs from effect on sum(key_costs) (%s%s) on the path where %s" % (
                            "reset; " if ur else "", lin_show(ud), "reset; " if mr else "", lin_show(md), desc))
        if allok:
            d0 = outs[-1]
            rep.ok("R01.2", fl, b, "balance", "%d return states; e.g. used %s%s == map %s%s" % (
                len(outs), "reset " if d0[3] else "", lin_show(d0[1]), "reset " if d0[4] else "", lin_show(d0[2])))
        # read-before-write of `*prev` copies (update): every named copy of the pointee used in the
        # used-delta must be taken before the pointee is overwritten
        for bi in b.live_blocks():
            bb = b.blocks[bi]
            for si, st in enumerate(bb["stmts"]):
                if st["k"] != "assign" or "*" not in st["pl"]["p"]:
                    continue
                tgt = place_target(b, st["pl"])
                if tgt is None or tgt[0] != "var":
                    continue
                # copies: named locals whose single definition is a read of the same pointee
                for l, name in b.local_name.items():
                    defs = b.defs.get(l, [])
                    if len(defs) != 1 or (1 <= l <= b.arg_count):
                        continue
                    dbi, dsi = defs[0]
                    dbb = b.blocks[dbi]
                    if dsi >= len(dbb["stmts"]):
                        continue
                    dst = dbb["stmts"][dsi]
                    if dst["rv"]["k"] != "use" or dst["rv"]["op"]["k"] not in ("copy", "move"):
                        continue
                    spl = dst["rv"]["op"]["pl"]
                    if "*" in spl["p"] and norm(b.place_expr(spl)) == tgt:
                        before = (dbi == bi and dsi < si) or (dbi != bi and block_dominates(b, dbi, bi) and dbi not in b.reachable(bi))
                        rep.check(before, "R01.2", fl, b, "read-before-write(%s)" % name,
                                  "copy `%s` of the old per-key cost is taken before the overwrite" % name,
                                  "`%s` is read after `*%s` was overwritten: the delta applied to used is computed from the new value" % (name, tgt[1]),
                                  loc=st["sp"])


# ----------------------------------------------------------------------------------------
# the `add` function
# ----------------------------------------------------------------------------------------

def add_context(fl):
    """Locate `add` by role and compute its dataflow once."""
    # flattened: the minimum search (`for_each` closure or `for` loop) and the victim bookkeeping
    # (`.map(|cost| ..)` or `if let Some(cost)`) are plain control flow either way
    body = fl.facts.flat(fl.policy_fn("add"))
    costs = None
    for bi, t in calls_to(body, SLFU + "::room_left"):
        costs = norm(body.call_args(t)[0])
    if costs is None:
        raise AnchorMissing("add(): no call to SampledLFU::room_left")
    return body, costs


def room_vars(body):
    """Variables with at least one definition that is a room_left(costs, cost) call (the
    remaining-room variable, whatever its name)."""
    out = []
    for l, name in sorted(body.local_name.items()):
        defs = body.defs.get(l, [])
        if not defs or (1 <= l <= body.arg_count):
            continue
        if any(is_call(body.def_expr(bi, si, True), "SampledLFU::room_left") for bi, si in defs):
            out.append((l, name))
    return out


def add_dataflow(body, costs, room, writers):
    """Path-sensitive dataflow over add() with user state (room freshness, key-known-absent,
    oversize-test-passed).
    room: fresh after `room = room_left(costs, cost)`, stale after any writer call on costs;
    absent: set on the false edge of update(costs, key, _) / contains(costs, key), cleared by an
    inserting writer (removals cannot make a key present);
    sized: set on the false edge of `cost > get_max_cost(costs)`."""
    key, cost = norm(V("key")), norm(V("cost"))
    non_inserting = {SLFU + "::remove", SLFU + "::clear", SLFU + "::update"}

    def is_fresh_rl(e):
        e = norm(e)
        return is_call(e, "SampledLFU::room_left") and norm(e[2][0]) == costs and norm(e[2][1]) == cost

    def node_fn(s, bi, si, node):
        rs, ab, sz = s.user
        if node["k"] == "assign":
            if place_target(body, node["pl"]) == room:
                e = body.rvalue_expr(node["rv"], True)
                return s.with_user(("fresh" if is_fresh_rl(e) else "stale", ab, sz))
            return None
        if node["k"] == "call":
            c = body.callee_of(node)
            if c == SLFU + "::room_left":
                if place_target(body, node["dest"]) == room:
                    return s.with_user(("fresh" if is_fresh_rl(body.call_expr(node, True)) else "stale", ab, sz))
                return None
            if c in writers:
                return s.with_user(("stale", ab if c in non_inserting else False, sz))
            for ce in closure_of_call(body, node):
                cb = body.facts.closure_body(ce[1])
                for _, t2 in cb.calls():
                    c2 = cb.callee_of(t2)
                    if c2 in writers:
                        return s.with_user(("stale", ab if c2 in non_inserting else False, sz))
        return None

    def edge_fn(s, bi, tgt, atom, pol):
        if atom is None:
            return None
        ea = norm(body.expand(atom))
        while ea[0] == "un" and ea[1] == "Not":
            ea, pol = ea[2], (not pol)
        # cost <= max_cost established in any spelling, including the stricter cost < max_cost
        if ea[0] == "bin" and ea[1] in ("Lt", "Le"):
            mx = lambda x: is_call(x, "SampledLFU::get_max_cost") and norm(x[2][0]) == costs
            if pol is False and mx(ea[2]) and ea[3] == cost:      # !(max < cost), !(max <= cost)
                return s.with_user((s.user[0], s.user[1], True))
            if pol is True and ea[2] == cost and mx(ea[3]):       # cost < max, cost <= max
                return s.with_user((s.user[0], s.user[1], True))
        if pol is not False:
            return None
        if (is_call(ea, "SampledLFU::update") or is_call(ea, "SampledLFU::contains")) and norm(ea[2][0]) == costs and norm(ea[2][1]) == key:
            return s.with_user((s.user[0], True, s.user[2]))
        return None

    return dataflow(body, init_user=("none", False, False), node_fn=node_fn, edge_fn=edge_fn)


def check_update_tells_tracked(rep, fl, rule="R01.3"):
    """`SampledLFU::update(k, ..)` answers false exactly when k has no entry in the cost table: `add` reads a false as
    "not tracked" and goes on to admit and charge the key (R01.3), the processor then writes the queued value over
    whatever is resident.  Every `false` is returned where the lookup of k found nothing, every `true` where it found
    the entry."""
    facts = fl.facts
    ub = facts.body(SLFU + "::update", required=False)
    if ub is None:
        rep.missing(rule, fl, "SampledLFU::update")
        return
    b = facts.flat(ub)
    at, entry = dataflow(b)
    kc = norm(F(V("self"), "key_costs"))
    kname = V(b.local_name.get(2, "k"))

    def lookup(x):
        x = norm(b.expand(x))
        return x[0] == "call" and x[1].rsplit("::", 1)[-1] in ("get_mut", "get", "contains_key", "entry", "remove") and len(x[2]) >= 2 and norm(x[2][0]) == kc and strip_casts(norm(x[2][1])) in (kname, ("deref", kname))

    def verdict(s):
        # True: found, False: absent, None: unknown on this path
        for a, v in s.lits:
            if a[0] == "variant" and a[2] in ("Some", "None") and lookup(a[1]):
                return (a[2] == "Some") == bool(v)
            if lookup(a) and a[1].endswith("contains_key"):
                return bool(v)
        return None
    bad = []
    n = 0
    for e in [norm(b.def_expr(rbi, rsi, True)) for rbi, rsi in b.defs.get(0, [])]:
        pass
    for rbi, rsi in b.defs.get(0, []):
        e = norm(b.def_expr(rbi, rsi, True))
        sts = [expand_state(b, s_, hist=True) for s_ in at.get((rbi, rsi), set())]
        if e[0] == "const" and isinstance(e[1], (bool, int)) and e[2] == "bool":
            n += 1
            want = bool(e[1])
            if not sts or any(verdict(s_) is not want for s_ in sts):
                bad.append("returns %s on a path where the key was %s" % (str(want).lower(), "found" if not want else "not (known to be) found"))
        else:
            bad.append("returns %s: not a constant decided by the lookup" % show(e))
    rep.check(not bad and n >= 2, rule, fl, ub, "false iff untracked", "update answers false where the cost table has no entry for k, true where it has (%d returns)" % n,
              "SampledLFU::update %s: add() takes a false for `not tracked`, admits and charges the key again, and the queued value is written over the resident one" % "; ".join(bad[:2]))


def check_room_left(rep, fl, rule="R01.6"):
    """room_left(cost) is max_cost - used - cost, negative amounts included: its sign decides between the fast path
    and the eviction loop (C01: the admission re-establishes used <= max_cost; C07: "when there is room")."""
    facts = fl.facts
    rl = facts.body(SLFU + "::room_left")
    re_ = return_expr(rl)
    want = {("call", SLFU + "::get_max_cost", (V("self"),)): 1, norm(F(V("self"), "used")): -1, V("cost"): -1}
    got = lin(re_) if re_ is not None else None
    rep.check(got is not None and lin_key(got) == lin_key(want), rule, fl, rl, "return",
              "room_left(cost) == get_max_cost() - used - cost", "room_left returns %s, expected max_cost - used - cost" % (lin_show(got) if got else "?"))
    gm = facts.body(SLFU + "::get_max_cost")
    ge = norm(return_expr(gm))
    okg = is_call(ge, "load") and norm(ge[2][0]) == norm(F(V("self"), "max_cost"))
    rep.check(okg, rule, fl, gm, "return", "get_max_cost() == load(self.max_cost)", "get_max_cost returns %s" % show(ge))


def check_C01(rep, fl):
    facts = fl.facts
    # "the total cost charged for resident entries": what clear() un-charges it also removes - store.clear() empties every
    # shard, waiting for its lock (a shard skipped because somebody holds it keeps entries the policy no longer charges)
    import props_store as _ps0
    import props_life as _pl0
    _ps0.keep_rules(rep, fl, _pl0.check_clear_parts, {"R11.2"}, rename="R01.9")
    _ps0.check_blocking_shard_locks(rep, fl, rule="R01.9")
    # ---- R01.1 writers -----------------------------------------------------------
    writers = slfu_writers(facts)
    for root, flds in sorted(writers.items()):
        b = facts.body(root, required=False)
        inside = b is not None and strip_generics(b.raw.get("impl_self", "")).startswith(SLFU)
        rep.check(inside, "R01.1", fl, root, "writes:" + ",".join(sorted(flds)),
                  "writer of SampledLFU.{%s} is a SampledLFU method" % ",".join(sorted(flds)),
                  "SampledLFU.{%s} is written outside impl SampledLFU: the used/key_costs invariant cannot be maintained there" % ",".join(sorted(flds)))
    if len(writers) < 3:
        rep.missing("R01.1", fl, "fewer than 3 writers of SampledLFU.used/key_costs found (%s)" % sorted(writers))
    # ---- R01.2 balance -------------------------------------------------------------
    check_balance(rep, fl, writers)

    # ---- add() ---------------------------------------------------------------------
    body, costs = add_context(fl)
    key = V("key")
    cost = V("cost")
    writer_methods = {r for r in writers}
    rvars = room_vars(body)
    if len(rvars) != 1:
        raise AnchorMissing("add(): expected one `room` variable defined by room_left, found %s" % rvars)
    room = V(rvars[0][1])

    at, entry = add_dataflow(body, costs, room, writer_methods)

    incs = calls_to(body, SLFU + "::increment")
    upds = calls_to(body, SLFU + "::update")
    if len(incs) < 1:
        raise AnchorMissing("add(): no call to SampledLFU::increment")
    # who may charge a new key: only add(), where each site is shown below to follow the absent / size / room tests
    other = "r#async" if fl.name == "sync" else "::sync::"
    outside = []
    for ob in facts.bodies:
        if not user_code(ob) or "::test" in ob.spath or other in ob.spath or ob.spath == body.spath or ob.spath.startswith(body.spath + "::{closure"):
            continue
        for bi_, t_ in calls_to(ob, SLFU + "::increment"):
            outside.append((ob, t_))
    check_update_tells_tracked(rep, fl)
    rep.check(not outside, "R01.3", fl, SLFU + "::increment", "callers", "a new key is charged (SampledLFU::increment) only by add(), behind its absent / size / room tests",
              "%s also charges a key through SampledLFU::increment, without add()'s tests: the key may already be charged, be larger than max_cost, or not fit"
              % ", ".join(sorted({o.spath for o, _ in outside})), loc=outside[0][1]["sp"] if outside else None)
    maxc_atoms = []
    for bi, t in incs:
        nk = (bi, term_idx(body, bi))
        a = [norm(x) for x in body.call_args(t)]
        site = "increment(%s)" % ", ".join(show(x) for x in a[1:])
        same = a[0] == costs and a[1] == norm(key) and a[2] == norm(cost)
        rep.check(same, "R01.4", fl, body, site + ":args", "increment is applied to the incoming key and cost",
                  "increment is not applied to (key, cost) of the incoming item: %s" % show(body.call_expr(t)), loc=t["sp"])
        # R01.3: key absent: update(costs, key, _) returned false on every path
        ok3 = True
        ok4 = True
        ok5 = True
        bad3 = bad4 = bad5 = None
        for s in at.get(nk, set()):
            f3 = s.user[1] is True
            f4 = s.user[2] is True
            if not f3:
                ok3, bad3 = False, s
            if not f4:
                ok4, bad4 = False, s
            v = feval(("not", ("atom", ("bin", "Lt", room, ("const", 0, "i64")))), s)
            if not (s.user[0] == "fresh" and v is True):
                ok5, bad5 = False, s
        rep.check(ok3, "R01.3", fl, body, site, "dominated by update(costs, key, _) == false: the key is absent, so the discarded old value of insert is None",
                  "reachable without having established that `key` is absent (path: %s): key_costs.insert would overwrite a charged key without subtracting its old cost" % (show_state(bad3) if bad3 else ""), loc=t["sp"])
        rep.check(ok4, "R01.4", fl, body, site, "dominated by !(cost > get_max_cost(costs)) read under the lock",
                  "reachable without the oversize test `cost > max_cost` (path: %s)" % (show_state(bad4) if bad4 else ""), loc=t["sp"])
        rep.check(ok5, "R01.5", fl, body, site, "room is fresh (recomputed after the last change of costs) and >= 0",
                  "reached with room %s on path [%s]: the admission does not re-establish used <= max_cost" % (
                      (bad5.user[0] if bad5 else ""), show_state(bad5) if bad5 else ""), loc=t["sp"])
    for bi, t in upds:
        nk = (bi, term_idx(body, bi))
        ok4 = True
        bad4 = None
        for s in at.get(nk, set()):
            if s.user[2] is not True:
                ok4, bad4 = False, s
        rep.check(ok4, "R01.4", fl, body, "update(key, cost)", "dominated by !(cost > max_cost)",
                  "update reachable without the oversize test (path: %s)" % (show_state(bad4) if bad4 else ""), loc=t["sp"])

    check_room_left(rep, fl)
    # ... and every key add() un-charges is named in the victim list it returns
    import props_store
    props_store.keep_rules(rep, fl, check_C07, {"R07.6"})
    # ... and the TTL sweep releases the charge of exactly the entries it removes (a resident entry that lost its
    # charge lets later admissions overfill the cache)
    props_store.check_sweeper(rep, fl)
    props_store.check_store_writes(rep, fl, prop="C01")   # R06.7: a victim's wildcard removal is carried out
    # ... and charges are wiped (policy.clear) on the processor only, between items: a reset from a client thread
    # un-charges entries the processor has admitted meanwhile, and later admissions overfill the cache
    import props_life as _pl
    _pl.check_clear_affinity(rep, fl, rule="R01.9")
    # R01.9: the charge the policy released for a victim is matched by the entry leaving the store - otherwise the
    # resident entries add up to more than max_cost while `used` looks fine
    import props_life
    props_life.check_handle_item_pairing(rep, fl, rule="R01.9", collisions=False,
                                         only_sites=("victim => try_remove(victim.key, 0)", "victims inspected on every path",
                                                     "Delete => policy.remove + store.try_remove"))

    # ---- R01.7 capacity plumbing ---------------------------------------------------
    um = facts.body(SLFU + "::update_max_cost")
    st = calls_to(um, "store")
    okst = len(st) == 1 and norm(um.call_args(st[0][1])[0]) == norm(F(V("self"), "max_cost")) and norm(um.call_args(st[0][1])[1]) == V("mc")
    rep.check(okst, "R01.7", fl, um, "store", "update_max_cost(mc) stores mc into self.max_cost", "update_max_cost does not store its argument into max_cost")
    # no other field of SampledLFU / PolicyInner / LFUPolicy caches the capacity: max_cost is read only via get_max_cost
    readers = set()
    for b in facts.bodies:
        for bi, si, role, pl in b.place_uses():
            if has_field(pl, "max_cost", SLFU):
                readers.add(strip_generics(b.raw["root"]))
    extra = readers - {SLFU + "::get_max_cost", SLFU + "::update_max_cost"}
    rep.check(not extra, "R01.7", fl, SLFU, "max_cost accessors", "SampledLFU.max_cost is touched only by get_max_cost / update_max_cost (and constructors)",
              "SampledLFU.max_cost is accessed directly in %s" % sorted(extra))
    for meth, inner in (("max_cost", "get_max_cost"), ("update_max_cost", "update_max_cost")):
        pb = fl.policy_fn(meth)
        cs = calls_to(pb, SLFU + "::" + inner)
        lk = calls_to(pb, "Mutex::lock")
        ok = len(cs) == 1 and len(lk) == 1 and must_pass_through(pb, [cs[0][0]])
        if ok and meth == "update_max_cost":
            ok = norm(pb.call_args(cs[0][1])[1]) == V("mc")
        if ok and meth == "max_cost":
            ok = is_call(norm(return_expr(pb)), "SampledLFU::get_max_cost")
        rep.check(ok, "R01.7", fl, pb, inner, "policy.%s forwards to costs.%s under the inner lock" % (meth, inner),
                  "policy.%s does not forward to costs.%s" % (meth, inner))
        cb = fl.cache_fn(meth)
        cs2 = calls_to(cb, fl.policy + "::" + meth)
        ok2 = len(cs2) == 1 and must_pass_through(cb, [cs2[0][0]])
        if ok2 and meth == "update_max_cost":
            ok2 = norm(cb.call_args(cs2[0][1])[1]) == V("max_cost")
        if ok2 and meth == "max_cost":
            ok2 = is_call(norm(return_expr(cb)), "::" + meth) or is_call(norm(return_expr(cb)), meth)
        rep.check(ok2, "R01.7", fl, cb, meth, "Cache::%s forwards to policy.%s" % (meth, meth), "Cache::%s does not forward to the policy" % meth)
    # add() reads the capacity on every call, under the lock
    gmc = calls_to(body, SLFU + "::get_max_cost")
    lk = calls_to(body, "Mutex::lock")
    ok = len(gmc) >= 1 and len(lk) == 1 and block_dominates(body, lk[0][0], gmc[0][0]) and must_pass_through(body, [gmc[0][0]])
    rep.check(ok, "R01.7", fl, body, "get_max_cost", "add() re-reads max_cost on every call under the policy lock",
              "add() does not read max_cost under the lock on every path")

    # ---- R01.8 no bypass of the policy mutex ---------------------------------------
    banned = ("data_ptr", "force_unlock", "force_unlock_fair", "make_guard_unchecked", "raw", "get_mut", "into_inner")
    hits = []
    for b in facts.bodies:
        for bi, t in b.calls():
            c = b.callee_of(t)
            if "lock_api::Mutex::" in c and c.split("::")[-1] in banned:
                hits.append((b, t, c))
    rep.check(not hits, "R01.8", fl, "crate", "mutex-bypass", "no call bypasses a parking_lot Mutex (data_ptr / force_unlock / make_guard_unchecked)",
              "mutex bypass: %s" % ", ".join("%s in %s" % (short(c), b.spath) for b, t, c in hits))
    # every method of the policy that touches inner.* does so through the guard returned by lock()
    pol_methods = [b for b in facts.bodies if strip_generics(b.raw["root"]).startswith(fl.policy + "::") and not b.is_closure and not b.coroutine]
    n_locked = 0
    for b in pol_methods:
        touches = [(bi, t) for bi, t in b.calls() if b.callee_of(t).startswith(SLFU + "::") or b.callee_of(t).startswith("policy::TinyLFU::")]
        if not touches:
            continue
        lk = calls_to(b, "Mutex::lock")
        ok = len(lk) >= 1 and all(block_dominates(b, lk[0][0], bi) for bi, _ in touches)
        n_locked += 1
        rep.check(ok, "R01.8", fl, b, "lock-dominates", "every access to costs/admit is dominated by inner.lock()",
                  "costs/admit accessed without holding the policy lock")
    if n_locked < 8:
        rep.missing("R01.8", fl, "only %d policy methods touching costs/admit found" % n_locked)


# ----------------------------------------------------------------------------------------
# C07
# ----------------------------------------------------------------------------------------

def check_policy_forwarding(rep, fl, rule="R16.6"):
    """LFUPolicy::update / remove hand their arguments to the SampledLFU unconditionally: a guard in
    the wrapper (e.g. `if cost > max_cost { return }`) leaves an updated entry with its old charge."""
    for meth, callee, nargs in (("update", SLFU + "::update", 2), ("remove", SLFU + "::remove", 1)):
        b = fl.facts.flat(fl.policy_fn(meth))
        cs = calls_to(b, callee)
        ok = len(cs) == 1
        if ok:
            a = [norm(x) for x in b.call_args(cs[0][1])]
            params = [V(b.local_name.get(2 + i, "arg%d" % (2 + i))) for i in range(nargs)]
            ok = [norm(b.expand(x)) if x[0] != "var" else x for x in a[1:1 + nargs]] == params and must_pass_through(b, [cs[0][0]])
        rep.check(ok, rule, fl, b, "%s forwards" % meth, "policy.%s applies SampledLFU::%s to its own arguments on every path" % (meth, meth),
                  "policy.%s does not reach SampledLFU::%s with its own arguments on every path: the charge of the entry is left as it was" % (meth, meth))


def check_C07(rep, fl):
    facts = fl.facts
    # "when there is room nothing is evicted": room is computed from `used` (R01.2)
    check_balance(rep, fl, slfu_writers(facts))
    body, costs = add_context(fl)
    key, cost = V("key"), V("cost")
    rvars = room_vars(body)
    if len(rvars) != 1:
        raise AnchorMissing("add(): room variable")
    room = V(rvars[0][1])
    room_neg = ("atom", ("bin", "Lt", room, ("const", 0, "i64")))
    writers = set(slfu_writers(facts))

    at, entry = add_dataflow(body, costs, room, writers)

    # --- R07.8: an item is refused for its size only when it is larger than the whole cache -----
    sized = []
    for bi in body.live_blocks():
        t = body.term(bi)
        if not t or t["k"] != "switch":
            continue
        for tgt, atom, pol in edge_literals(body, bi):
            if atom is None:
                continue
            ea = norm(body.expand(atom))
            while ea[0] == "un" and ea[1] == "Not":
                ea, pol = ea[2], (not pol)
            if ea[0] == "bin" and ea[1] in ("Lt", "Le") and {0, 1} == {0 if (is_call(x, "SampledLFU::get_max_cost") and norm(x[2][0]) == costs) else (1 if x == norm(cost) else 2) for x in (ea[2], ea[3])}:
                sized.append((bi, ea, pol, t))
    exact = bool(sized)
    for bi, ea, pol, t in sized:
        # accepted: max < cost (cost > max_cost) and !(cost <= max)
        mx_first = is_call(ea[2], "SampledLFU::get_max_cost")
        if not ((ea[1] == "Lt" and mx_first) or (ea[1] == "Le" and not mx_first)):
            exact = False
    rep.check(exact, "R07.8", fl, body, "oversize test", "the size refusal is exactly `cost > max_cost`: an item that fills the whole cache is still admitted when there is room",
              "the oversize test is not `cost > max_cost` (%s): an item with cost == max_cost is refused although there is room for it" % "; ".join(sorted({show(ea) for bi, ea, pol, t in sized})),
              loc=sized[0][3]["sp"] if sized else None)

    # --- R07.1: room >= 0 edge => increment; return (None, true); nothing evicted -------------
    # find the first increment (the one whose states all have !(room<0) and no remove before)
    incs = calls_to(body, SLFU + "::increment")
    rems = calls_to(body, SLFU + "::remove")
    fills = calls_to(body, SLFU + "::fill_sample")
    ests = calls_to(body, "policy::TinyLFU::estimate")
    if not rems or not fills or not ests:
        raise AnchorMissing("add(): remove/fill_sample/estimate call missing")
    # paths with room >= 0 immediately after the first room_left: from that switch edge no remove / reject
    first_rl = None
    for bi, t in calls_to(body, SLFU + "::room_left"):
        if first_rl is None or block_dominates(body, bi, first_rl[0]):
            first_rl = (bi, t)
    # blocks reachable from entry without crossing a `room < 0 == true` edge and without passing the loop
    # simpler structural statement: every remove / RejectSets / `(_, false)` after room_left requires room<0 literal true
    for bi, t in rems:
        nk = (bi, term_idx(body, bi))
        ok = all(feval(room_neg, s) is True and s.user[0] == "fresh" for s in at.get(nk, set()))
        a = [norm(x) for x in body.call_args(t)]
        rep.check(ok, "R07.2", fl, body, "costs.remove(%s)" % show(a[1]), "victim removal only while room (fresh) < 0",
                  "a victim is removed on a path where room is not known to be (fresh and) negative", loc=t["sp"])
    # R07.1 / R04.2: on the room>=0 edge straight to increment + return (None,true)
    # = the increment reachable with no remove executed: check there is an increment site whose every state
    # has no literal on inc_hits (never entered the loop) and that it is followed by return (None, true)
    ret_ok = False
    for bi, t in incs:
        nk = (bi, term_idx(body, bi))
        sts = at.get(nk, set())
        # does any path to this increment pass through a remove?  (block-level reachability)
        via_remove = any(bi in body.reachable(rb) for rb, _ in rems)
        if not via_remove:
            ok = all(feval(("not", room_neg), s) is True for s in sts)
            # return value on this path: (None, true)
            rets = []
            for rbi, rsi in body.defs.get(0, []):
                if rbi in body.reachable(bi) and not any(rbi in body.reachable(rb) for rb, _ in rems):
                    rets.append(norm(body.def_expr(rbi, rsi, True)))
            good = len(rets) == 1 and rets[0][0] == "agg" and rets[0][3][0][0] == "agg" and rets[0][3][0][2].endswith("Option::None") \
                and rets[0][3][1] == ("const", 1, "bool")
            rep.check(ok and good, "R07.1", fl, body, "room>=0 fast path", "room >= 0 => increment(key,cost); return (None, true) without sampling or eviction",
                      "fast path broken: guard ok=%s, returns %s" % (ok, [show(r) for r in rets]), loc=t["sp"])
            ret_ok = True
    if not ret_ok:
        rep.bad("R07.1", fl, body, "room>=0 fast path", "no admission path without eviction found: with room available the policy still samples/evicts")
    # the first switch on room after the first room_left: its room>=0 successor must not reach estimate/fill_sample/remove before returning
    # (covered by: every remove requires room<0 literal, and fast path exists)

    # --- R07.2 loop recomputes room after each removal ------------------------------------------
    for bi, t in rems:
        # after a remove, every path that reaches another remove or an increment passes a room_left
        rls = [b for b, _ in calls_to(body, SLFU + "::room_left")]
        targets = [b for b, _ in rems] + [b for b, _ in incs]
        seen = set()
        stack = list(body.succs(bi))
        bad = None
        while stack:
            x = stack.pop()
            if x in seen or x in rls:
                continue
            seen.add(x)
            if x in targets:
                bad = x
                break
            stack.extend(body.succs(x))
        rep.check(bad is None, "R07.2", fl, body, "recompute-after-remove", "room = room_left(cost) is recomputed after every victim removal before the next decision",
                  "after costs.remove a further removal/admission (bb%s) is reachable without recomputing room" % bad, loc=t["sp"])

    # --- R07.3 fill_sample ----------------------------------------------------------------------
    fs = facts.body(SLFU + "::fill_sample")
    check_fill_sample(rep, fl, fs)
    # the candidate pool starts empty on every call: a buffer carried over from an earlier add() (a scratch field
    # that is not emptied on some way out) makes fill_sample top up a stale sample, whose keys may have left since
    okfresh = bool(fills)
    srcs = []
    for bi_, t_ in fills:
        a_ = norm(body.call_args(t_, expand_vars=False)[1])
        if a_[0] != "var":
            okfresh = False
            continue
        l_ = body.name_local.get(a_[1])
        for db, ds_ in body.defs.get(l_, []):
            if body.in_loop(db):
                continue  # `sample = fill_sample(sample)` and the swap-remove inside the loop
            e_ = norm(body.def_expr(db, ds_, True))
            srcs.append(show(e_))
            if not (is_call(e_, "Vec::with_capacity") or is_call(e_, "Vec::new") or (e_[0] == "agg" and "Vec" in str(e_[2]) and not e_[3])):
                okfresh = False
    rep.check(okfresh, "R07.3", fl, body, "sample starts empty", "the candidate pool of add() is a new, empty Vec on every call",
              "the candidate pool of add() is not created empty in the call (%s): candidates sampled by an earlier add() are re-used although they may no longer be resident" % ", ".join(srcs))
    ds = facts.const_value("policy::DEFAULT_SAMPLES")
    rep.check(ds == 5, "R07.3", fl, "policy::DEFAULT_SAMPLES", "value", "DEFAULT_SAMPLES == 5", "DEFAULT_SAMPLES == %s (the property states five candidates)" % ds)
    wh = facts.body(SLFU + "::with_hasher")
    whe = norm(return_expr(wh))
    cf = ctor_fields(facts, whe)   # the literal itself, or a delegation to with_samples_and_hasher(.., DEFAULT_SAMPLES, ..)
    ok = cf is not None and norm(cf[1].get("samples", ())) == ("const", 5, "usize")
    rep.check(ok, "R07.3", fl, wh, "samples", "SampledLFU::with_hasher sets samples = DEFAULT_SAMPLES", "SampledLFU::with_hasher sets samples to something else: %s" % show(whe))
    pin = facts.body("policy::PolicyInner::with_hasher")
    rep.check(len(calls_to(pin, SLFU + "::with_hasher")) == 1, "R07.3", fl, pin, "ctor", "the policy is built with SampledLFU::with_hasher (5 samples)",
              "PolicyInner::with_hasher no longer builds SampledLFU::with_hasher")
    # fill_sample called at the top of every loop iteration: every remove is preceded (dominated within the iteration) by fill_sample
    for bi, t in rems:
        fb = [b for b, _ in fills]
        # every cycle through remove passes fill_sample: remove not reachable from itself when fill blocks removed
        seen = set()
        stack = list(body.succs(bi))
        loops = False
        while stack:
            x = stack.pop()
            if x in seen or x in fb:
                continue
            seen.add(x)
            if x == bi:
                loops = True
                break
            stack.extend(body.succs(x))
        dom = dominates_all_paths(body, fb, bi)
        rep.check(dom and not loops, "R07.3", fl, body, "fill-before-pick", "the sample is refilled before every victim selection",
                  "a victim can be selected without refilling the sample first", loc=t["sp"])
        # the refilled vector is the one searched
        for fbi, ft in fills:
            a = [norm(x) for x in body.call_args(ft)]
            tgt = place_target(body, ft["dest"])
            # sample = fill_sample(sample) through a temporary: `_63 = fill_sample(costs, move sample); sample = move _63`
            rep.check(a[0] == costs and a[1][0] == "var", "R07.3", fl, body, "fill_sample args", "fill_sample(costs, sample)", "fill_sample called on %s" % show(a[1]), loc=ft["sp"])

    # --- R07.4 min search -----------------------------------------------------------------------
    check_min_search(rep, fl, body, costs)

    # --- R07.5 reject iff inc_hits < min_hits -----------------------------------------------------
    inc_e = None
    for bi, t in ests:
        a = [norm(x) for x in body.call_args(t)]
        if a[1] == norm(key):
            inc_e = (bi, t)
    if inc_e is None:
        rep.bad("R07.5", fl, body, "inc_hits", "the popularity of the incoming key is never estimated in add()")
        return
    inc_tgt = place_target(body, inc_e[1]["dest"])
    # estimate of the incoming key computed before the loop (not in a loop)
    rep.check(not body.in_loop(inc_e[0]), "R07.5", fl, body, "inc_hits once", "admit.estimate(key) computed once before the eviction loop",
              "admit.estimate(key) is recomputed inside the loop", loc=inc_e[1]["sp"])
    mv = min_vars(body)
    if mv is None:
        raise AnchorMissing("add(): min search closure not found")
    min_hits = V(mv["hits"])
    rej_atom = ("atom", ("bin", "Lt", inc_tgt, min_hits))
    # every return with false after the sampling requires rej true; every remove requires rej false
    for bi, t in rems:
        nk = (bi, term_idx(body, bi))
        ok = all(feval(("not", rej_atom), s) is True for s in at.get(nk, set()))
        rep.check(ok, "R07.5", fl, body, "remove requires !(inc_hits < min_hits)", "the victim is evicted only when the newcomer is at least as popular",
                  "a victim is evicted on a path where `inc_hits < min_hits` is not known to be false", loc=t["sp"])
    # returns: classify each definition of _0
    n_rej = 0
    for rbi, rsi in body.defs.get(0, []):
        e = norm(body.def_expr(rbi, rsi, True))
        if e[0] != "agg" or len(e[3]) != 2:
            continue
        added = e[3][1]
        some = e[3][0][0] == "agg" and e[3][0][2].endswith("Option::Some")
        sts = at.get((rbi, rsi), set())
        if some and added == ("const", 0, "bool"):
            n_rej += 1
            ok = all(feval(rej_atom, s) is True and feval(room_neg, s) is True for s in sts)
            rep.check(ok, "R07.5", fl, body, "return (Some(victims), false)", "rejection exactly on inc_hits < min_hits (strict) while room < 0",
                      "the newcomer is rejected on a path where `inc_hits < min_hits` (strict) is not established", loc=body.blocks[rbi]["stmts"][rsi]["sp"])
        if some and added == ("const", 1, "bool"):
            ok = all(feval(("not", room_neg), s) is True for s in sts)
            rep.check(ok, "R07.6", fl, body, "return (Some(victims), true)", "admission after evictions only once room >= 0",
                      "admitted after evictions although room may still be negative", loc=body.blocks[rbi]["stmts"][rsi]["sp"])
    rep.check(n_rej == 1, "R07.5", fl, body, "reject return", "one rejection return (Some(victims), false)", "%d rejection returns found" % n_rej)
    # on the true edge of inc_hits < min_hits the function returns (no removal): every state with rej true never reaches remove — covered above.
    # conversely, when rej is false (and room<0) the removal must happen: the false edge of the switch leads to remove on all paths
    for bi in body.live_blocks():
        t = body.term(bi)
        if t and t["k"] == "switch":
            for tgt, atom, pol in edge_literals(body, bi):
                if atom == norm(("bin", "Lt", inc_tgt, min_hits)) and pol is False:
                    ok = must_pass_through(body, [b for b, _ in rems], from_bi=tgt)
                    rep.check(ok, "R07.5", fl, body, "not-rejected => evict", "when the newcomer is not less popular the sampled minimum is evicted",
                              "on the false edge of `inc_hits < min_hits` a return is reachable without evicting", loc=t["sp"])

    # --- R07.6 per victim bookkeeping -------------------------------------------------------------
    for bi, t in rems:
        a = [norm(x) for x in body.call_args(t)]
        rep.check(a[0] == costs and is_role(mv, "key", a[1]), "R07.6", fl, body, "remove(min_key)", "the removed key is the sampled minimum",
                  "costs.remove is applied to %s, not to the sampled minimum %s" % (show(a[1]), mv["key"]), loc=t["sp"])
    pushes = [(b, t) for b, t in calls_to(body, "Vec::push")]
    okp = False
    for b, t in pushes:
        a = [norm(x) for x in body.call_args(t)]
        if a[0][0] == "var" and is_call(a[1], "PolicyPair::new"):
            pa = a[1][2]
            okp = is_role(mv, "key", pa[0]) and is_role(mv, "cost", pa[1])
            rep.check(okp, "R07.6", fl, body, "victims.push", "victims.push(PolicyPair(min_key, min_cost))",
                      "the victim record is (%s, %s), not (min_key, min_cost) of the selected candidate" % (show(pa[0]), show(pa[1])), loc=t["sp"])
            # pushed exactly when removed: same straight-line region
            rb = rems[0][0]
            rep.check(b in body.reachable(rb) and must_pass_through(body, [b], from_bi=rb, exits=[x for x, _ in calls_to(body, SLFU + "::room_left") if x in body.reachable(rb)]),
                      "R07.6", fl, body, "push-after-remove", "every removal is recorded in victims before room is recomputed", "a removal can skip victims.push", loc=t["sp"])
    if not pushes:
        rep.bad("R07.6", fl, body, "victims.push", "removed victims are never recorded")
    # swap-remove of sample[min_id]
    idxm = calls_to(body, "IndexMut::index_mut")
    oki = False
    for b, t in idxm:
        a = [norm(x) for x in body.call_args(t)]
        if is_role(mv, "id", a[1]):
            oki = True
    rep.check(oki, "R07.6", fl, body, "sample[min_id]", "the chosen candidate is taken out of the sample (sample[min_id] overwritten, tail drained)",
              "the chosen candidate is not removed from the sample: it can be selected (and reported) again")


def is_role(mv, role, e):
    """Is expression e the variable that plays `role` in the minimum search (or the caller's copy of it)?"""
    return e in (V(mv[role]), V(mv.get("inner", mv)[role]))


def loop_of(body, bi):
    """Blocks of the innermost cycle through block bi (empty if bi is not in a loop)."""
    return {b for b in body.live_blocks() if bi in body.reachable(b) and b in body.reachable(bi)}


def min_vars(body):
    """Find the minimum search of add() by role, in the flattened body (a `for_each` closure and a
    `for` loop look the same there): the innermost loop around an Iterator::next call that calls
    TinyLFU::estimate and writes >= 3 variables declared outside the loop.  Returns the names of the
    (hits, key, id, cost) variables, the loop's blocks and the iterated expression."""
    for ebi, et in calls_to(body, "policy::TinyLFU::estimate"):
        if not body.in_loop(ebi):
            continue
        nexts = [(bi, t) for bi, t in body.calls() if callee_matches(body.callee_of(t), "Iterator::next") and ebi in body.reachable(bi) and bi in body.reachable(ebi)]
        if not nexts:
            continue
        # innermost: the smallest cycle through both the next() call and the estimate call
        nbi, nt = min(nexts, key=lambda x: len(loop_of(body, x[0]) & loop_of(body, ebi)))
        region = {b for b in body.live_blocks() if nbi in body.reachable(b) and b in body.reachable(nbi) and (ebi in body.reachable(b) or b in body.reachable(ebi))}
        region = {b for b in region if b in loop_of(body, nbi)}
        # restrict to the cycle that does not leave through the outer loop: blocks from which next() is reachable without passing the region's entry from outside
        inner = _inner_cycle(body, nbi, ebi)
        writes = {}
        for cbi in sorted(inner):
            for si, st in enumerate(body.blocks[cbi]["stmts"]):
                if st["k"] != "assign":
                    continue
                tg = place_target(body, st["pl"])
                if tg is None or tg[0] != "var":
                    continue
                l = body.name_local.get(tg[1])
                if l is None:
                    continue
                # declared outside the loop: has a definition outside the cycle
                if not any(d[0] not in inner for d in body.defs.get(l, [])):
                    continue
                writes[tg[1]] = (cbi, si, norm(body.rvalue_expr(st["rv"], True)))
        if len(writes) < 3:
            continue
        res = {"region": inner, "next": (nbi, nt), "estimate": (ebi, et), "writes": writes}
        for name, (cbi, si, e) in writes.items():
            ee = norm(body.expand(e))
            if is_call(e, "TinyLFU::estimate") or is_call(ee, "TinyLFU::estimate"):
                res["hits"] = name
            elif e[0] == "field" and e[2] == "key":
                res["key"] = name
            elif e[0] == "field" and e[2] == "cost":
                res["cost"] = name
            else:
                res["id"] = name
        if all(k in res for k in ("hits", "key", "cost", "id")):
            # when the search lives in a helper that returns (key, hits, id, cost), the caller's
            # variables are copies of the helper's: after the loop the rules speak about the copies
            res["inner"] = {k: res[k] for k in ("hits", "key", "cost", "id")}
            for role in ("hits", "key", "cost", "id"):
                inner_v = V(res[role])
                for l, name in body.local_name.items():
                    if name == res[role]:
                        continue
                    ds = body.defs.get(l, [])
                    if len(ds) == 1 and ds[0][0] not in inner and norm(body.def_expr(ds[0][0], ds[0][1], True)) == inner_v:
                        res[role] = name
            return res
    return None


def _inner_cycle(body, nbi, ebi):
    """Blocks on a cycle nbi -> ... -> ebi -> ... -> nbi that stays inside the smallest loop around
    nbi: computed as the blocks reachable from nbi that reach nbi again without going through a block
    that dominates nbi's loop from outside (approximated by: without passing a block from which ebi
    is not reachable *and* that is reachable from the exit edge of the next() switch)."""
    # exit edge of the iteration: the None arm of the switch on next()'s result
    exits = set()
    for b in body.succs(nbi):
        t = body.term(b)
        if t and t["k"] == "switch":
            for tgt, atom, pol in edge_literals(body, b):
                if atom is not None and atom[0] == "variant" and atom[2] == "None" and pol:
                    exits.add((b, tgt))
    fwd = body.reachable(nbi, removed_edges=exits)
    return {b for b in fwd if nbi in body.reachable(b, removed_edges=exits)}


def check_min_search(rep, fl, body, costs):
    mv = min_vars(body)
    if mv is None:
        rep.bad("R07.4", fl, body, "min-search", "no per-candidate minimum search (loop over the sample calling admit.estimate and recording the minimum) found in add()")
        return
    region = mv["region"]
    at, entry = dataflow(body)
    # the iterated collection is the sample vector, enumerated
    nbi, nt = mv["next"]
    recv = norm(body.expand(norm(body.call_args(nt)[0])))
    src = [c for c in calls_in(recv) if is_call(c, "Iterator::enumerate") or is_call(c, "iter") or is_call(c, "into_iter")]
    ok_iter = any(is_call(c, "Iterator::enumerate") for c in src) and any((is_call(c, "iter") or is_call(c, "into_iter")) and any(x[0] == "var" for x in subexprs(c)) for c in src)
    if not ok_iter:
        # the iterator is held in a variable: look at its definition(s)
        for x in subexprs(recv):
            if x[0] in ("var", "tmp"):
                l = body.name_local.get(x[1]) if x[0] == "var" else x[1]
                for dbi, dsi in body.defs.get(l, []) if isinstance(l, int) else []:
                    de = norm(body.def_expr(dbi, dsi, True))
                    cs = calls_in(de)
                    if any(is_call(c, "Iterator::enumerate") for c in cs) and any(is_call(c, "iter") or is_call(c, "into_iter") for c in cs):
                        ok_iter = True
    rep.check(ok_iter, "R07.4", fl, body, "iterates sample", "the minimum is searched over sample.iter().enumerate()", "the minimum search iterates %s" % show(recv), loc=nt["sp"])
    # estimate(pair.key) for the element
    ebi, et = mv["estimate"]
    ea = [norm(x) for x in body.call_args(et)]
    elem_key = ea[1]
    rep.check(elem_key[0] == "field" and elem_key[2] == "key", "R07.4", fl, body, "estimate(pair.key)", "popularity is estimated for the candidate's key", "estimate is applied to %s" % show(elem_key))
    hits_tgt = place_target(body, et["dest"])
    inner = mv["inner"]
    want = ("atom", ("bin", "Lt", hits_tgt, V(inner["hits"])))
    pair = elem_key[1]
    for name, (cbi, si, e) in sorted(mv["writes"].items()):
        ok = all(feval(want, s) is True for s in entry.get(cbi, set()))
        rep.check(ok, "R07.4", fl, body, "write %s" % name, "min_* updated only when hits < min_hits (strictly smaller => least popular kept)",
                  "%s is overwritten on a path where `hits < min_hits` does not hold: the selected victim is not the least popular candidate" % name,
                  loc=body.blocks[cbi]["stmts"][si]["sp"])
        # value provenance: from the same element
        if name == inner["hits"]:
            okv = e == norm(body.expand(hits_tgt)) or e == hits_tgt or is_call(e, "TinyLFU::estimate") or is_call(norm(body.expand(e)), "TinyLFU::estimate")
        elif name == inner["key"]:
            okv = e == ("field", pair, "key")
        elif name == inner["cost"]:
            okv = e == ("field", pair, "cost")
        else:
            okv = e[0] in ("var", "field") and e != ("field", pair, "key") and not mentions(e, V(inner["hits"]))
        rep.check(okv, "R07.4", fl, body, "value %s" % name, "%s takes its value from the same candidate" % name, "%s := %s is not taken from the compared candidate" % (name, show(e)),
                  loc=body.blocks[cbi]["stmts"][si]["sp"])
    # all four written together (same block)
    blocks = {cbi for (cbi, si, e) in mv["writes"].values()}
    rep.check(len(blocks) == 1 and len(mv["writes"]) >= 4, "R07.4", fl, body, "atomic update", "key, hits, index and cost of the minimum are updated together",
              "the four min_* variables are not updated together (%s)" % sorted(mv["writes"]))
    # min_hits initialised to i64::MAX at the top of every iteration
    hl = body.name_local.get(inner["hits"])
    inits = [norm(body.def_expr(dbi, dsi, True)) for dbi, dsi in body.defs.get(hl, []) if dbi not in region]
    rep.check(inits == [("const", 9223372036854775807, "i64")], "R07.4", fl, body, "min_hits init", "min_hits starts at i64::MAX for every selection",
              "min_hits initial value(s): %s" % [show(i) for i in inits])
    # the init is inside the loop (re-initialised per selection), i.e. dominated by fill_sample
    outer_defs = [d for d in body.defs.get(hl, []) if d[0] not in region]
    if outer_defs:
        dbi = outer_defs[0][0]
        fills = [b for b, _ in calls_to(body, SLFU + "::fill_sample")]
        rep.check(dominates_all_paths(body, fills, dbi) and body.in_loop(dbi), "R07.4", fl, body, "min_hits re-init", "the minimum is re-initialised for every selection",
                  "min_* are not re-initialised for each selection round")


def check_victim_pair(rep, fl, rule="R16.5"):
    """The (key, cost) pair recorded for an evicted victim names the key whose charge was released
    and carries that key's own charged cost: the cost read from the *same* sample element as the
    key in the minimum search (or the value returned by costs.remove(key))."""
    facts = fl.facts
    body, costs = add_context(fl)
    rems = calls_to(body, SLFU + "::remove")
    pushes = []
    for b, t in calls_to(body, "Vec::push"):
        a = [norm(x) for x in body.call_args(t)]
        cf_ = ctor_fields(facts, a[1]) or ctor_fields(facts, body.expand(a[1]))   # `PolicyPair::new(k, c)` or the literal
        if cf_ is not None and cf_[0].endswith("PolicyPair") and "key" in cf_[1] and "cost" in cf_[1]:
            pushes.append((b, t, (norm(cf_[1]["key"]), norm(cf_[1]["cost"]))))
    if len(pushes) != 1 or len(rems) != 1:
        rep.bad(rule, fl, body, "victim record", "expected one costs.remove and one victims.push(PolicyPair::new(..)) in add(), found %d / %d" % (len(rems), len(pushes)))
        return
    b, t, (k_e, c_e) = pushes[0]
    rk = norm(body.call_args(rems[0][1])[1])
    okk = k_e == rk
    # provenance of the cost
    okc = False
    why = "the recorded cost is %s" % show(c_e)
    rem_res = norm(body.call_expr(rems[0][1], True))
    if mentions(c_e, rem_res) or mentions(norm(body.expand(c_e)), rem_res):
        okc = True
    elif c_e[0] == "var" and k_e[0] == "var":
        mv = min_vars(body)
        if mv is not None and is_role(mv, "key", k_e) and is_role(mv, "cost", c_e):
            kb, ks, ke = mv["writes"][mv["inner"]["key"]]
            cb_, cs, ce_ = mv["writes"][mv["inner"]["cost"]]
            # same guarded block, same candidate element
            okc = kb == cb_ and ke[0] == "field" and ce_[0] == "field" and ke[2] == "key" and ce_[2] == "cost" and ke[1] == ce_[1]
            if okc:
                # and not reassigned in add() after the search (apart from its initialisation)
                l = body.name_local.get(c_e[1])
                # (a plain copy of the search's own variable - the search lives in a helper, or fills a struct - is the same value)
                def _is_init(e_):
                    # a constant, also when it is spelled as a field of a constructor call: `PolicyPair::new(0, 0).cost`
                    e_ = norm(e_)
                    if e_[0] == "const":
                        return True
                    if e_[0] == "field":
                        cf2 = ctor_fields(facts, e_[1])
                        return cf2 is not None and norm(cf2[1].get(e_[2], ("?",)))[0] == "const"
                    return False
                others = [d for d in body.defs.get(l, []) if d[0] not in mv["region"] and not _is_init(body.def_expr(d[0], d[1], True))
                          and norm(body.def_expr(d[0], d[1], True)) != V(mv["inner"]["cost"])]
                if others:
                    okc = False
                    why = "%s is reassigned in add() after the minimum search" % c_e[1]
        elif mv is not None:
            why = "the recorded cost is %s, the minimum search records the candidate's cost in %s" % (show(c_e), mv.get("cost"))
    rep.check(okk and okc, rule, fl, body, "victim record", "the victim record is (the un-charged key, the cost sampled from the same element as that key)",
              "the victim record does not carry the victim's own charge (key %s vs released key %s; %s): on_evict reports another entry's cost" % (show(k_e), show(rk), why), loc=t["sp"])


def check_fill_sample(rep, fl, fs):
    """R07.3: fill_sample returns its input if len >= samples; else pushes (k, cost) pairs from
    key_costs until len >= samples or exhausted."""
    at, _ = dataflow(fs)
    pairs = V("pairs")
    samples = norm(F(V("self"), "samples"))
    full = ("atom", ("bin", "Lt", ("call", "std::vec::Vec::len", (pairs,)), samples))  # len < samples
    pushes = calls_to(fs, "Vec::push")
    rep.check(len(pushes) == 1, "R07.3", fl, fs, "push", "one push site", "%d push sites" % len(pushes))
    for bi, t in pushes:
        a = [norm(x) for x in fs.call_args(t)]
        okv = a[0] == pairs and is_call(a[1], "PolicyPair::new")
        # pair built from the iterated (k, v) of key_costs
        it = calls_to(fs, "HashMap::iter")
        okit = len(it) == 1 and norm(fs.call_args(it[0][1])[0]) == norm(F(V("self"), "key_costs"))
        rep.check(okv and okit, "R07.3", fl, fs, "push(PolicyPair(k,v))", "candidates are (key, charged cost) pairs read from key_costs",
                  "fill_sample pushes %s / iterates %s" % (show(a[1]), [show(norm(fs.call_args(x[1])[0])) for x in it]), loc=t["sp"])
        if okv:
            k, v = a[1][2]
            okkv = k != v and k[0] in ("field", "var") and v[0] in ("field", "var")
            rep.check(okkv, "R07.3", fl, fs, "pair fields", "PolicyPair::new(*k, *v)", "pair built from (%s, %s)" % (show(k), show(v)), loc=t["sp"])
        # never pushes when already full
        nk = (bi, term_idx(fs, bi))
        ok = all(feval(full, s) is True for s in at.get(nk, set()))
        rep.check(ok, "R07.3", fl, fs, "push only while len < samples", "no candidate is added once the sample holds `samples` entries",
                  "a candidate can be pushed although the sample is already full", loc=t["sp"])
    # every return either has len >= samples or the iterator is exhausted
    for rbi, rsi in fs.defs.get(0, []):
        e = norm(fs.def_expr(rbi, rsi, True))
        rep.check(e == pairs, "R07.3", fl, fs, "returns pairs", "returns the (extended) input vector", "returns %s" % show(e))
        sts = at.get((rbi, rsi), set())
        for s in sts:
            v = feval(("not", full), s)
            exhausted = any(a[0] == "variant" and a[2] == "None" and val and is_call(a[1], "Iterator::next") for a, val in s.lits)
            if not (v is True or exhausted):
                rep.bad("R07.3", fl, fs, "return condition", "fill_sample can return with fewer than `samples` candidates although key_costs is not exhausted (path: %s)" % show_state(s))
                break
        else:
            rep.ok("R07.3", fl, fs, "return condition@bb%d" % rbi if False else "return condition", "returns only when len >= samples or key_costs is exhausted")


def check_C07_all(rep, fl):
    check_C07(rep, fl)
    # every charge is the outcome of an admission decision: only add() charges a key (R01.3)
    import props_store as _ps
    _ps.keep_rules(rep, fl, check_C01, {"R01.3"})
    # "less popular": popularity is what the lookups of every handle have recorded - all handles feed one lookup buffer
    # and one policy (a per-handle buffer dies with its handle, unflushed)
    import props_cache as _pc
    _pc.check_handle_sharing(rep, fl, rule="R07.9", fields=("get_buf", "policy"))
    # ... of resident keys and of newcomers alike: a lookup is recorded before the store is consulted, hit or miss (a key
    # that is asked for again and again while absent is exactly the newcomer that should win the duel)
    _ps.keep_rules(rep, fl, _pc.check_C15, {"R15.1"}, rename="R07.9")
    # "when there is room" / "only while room is still lacking": room is max_cost - used - cost, with its sign
    check_room_left(rep, fl)
    # R07.7: what the policy decides is carried out - every victim leaves the store (and goes to on_evict), whether
    # or not the newcomer was admitted in the end; a refused newcomer goes to on_reject
    import props_life
    props_life.check_handle_item_pairing(rep, fl, rule="R07.7", collisions=False,
                                         only_sites=("victim => try_remove(victim.key, 0)", "victims inspected on every path", "added => try_insert"))


def check_C07_fastpath(rep, fl):
    """Only the `room available => admit, evict nothing` instances of C07 (shared with C04)."""
    from framework import Report
    tmp = Report(rep.prop, rep.tier)
    check_C07(tmp, fl)
    for i in tmp.instances:
        if i.rule in ("R07.1", "R07.2", "R07.8"):
            i.rule = "R04.2" if i.rule == "R07.1" else i.rule
            rep.instances.append(i)
