"""Run the registered quick checks against a seeded change.

    python3 engine/seedcheck.py <patch.diff> [prop ...]

Applies the patch to /repo (git apply), runs the quick check of every property (or the named
ones) with the evidence directory redirected, and restores /repo (git checkout -- .) whatever
happens.  Prints, per property, the rules that fired.  Exit 0 if at least one check fired."""
import json
import os
import re
import subprocess
import sys
import tempfile

VERIF = os.path.dirname(os.path.dirname(os.path.abspath(__file__)))
sys.path.insert(0, os.path.join(VERIF, "engine"))
import registry  # noqa: E402

REPO = "/repo"


def main():
    patch = os.path.abspath(sys.argv[1])
    props = sys.argv[2:] or sorted(registry.PROPS)
    st = subprocess.run(["git", "-C", REPO, "status", "--porcelain", "--untracked-files=no"], stdout=subprocess.PIPE, text=True).stdout.strip()
    if st:
        print("refusing: /repo has uncommitted changes:\n" + st)
        return 2
    r = subprocess.run(["git", "-C", REPO, "apply", "--whitespace=nowarn", patch], stdout=subprocess.PIPE, stderr=subprocess.STDOUT, text=True)
    if r.returncode != 0:
        print("patch does not apply:\n" + r.stdout)
        return 2
    fired = {}
    evd = tempfile.mkdtemp(prefix="seed-evidence-")
    try:
        for p in props:
            env = dict(os.environ, VERIF_EVIDENCE_DIR=evd)
            rr = subprocess.run([os.path.join(VERIF, "check"), p, "--tier", "quick"], cwd=VERIF, env=env, stdout=subprocess.PIPE, stderr=subprocess.STDOUT, text=True)
            rules = sorted(set(re.findall(r"^\s+(?:VIOLATION|ANCHOR-MISSING) (\S+) ", rr.stdout, re.M)))
            if "FATAL" in rr.stdout:
                rules.append("FATAL")
            if rr.returncode != 0:
                fired[p] = rules or ["exit1"]
            first = re.search(r"^\s+(?:VIOLATION|ANCHOR-MISSING) .*\n\s+(.*)$", rr.stdout, re.M)
            print("%s: %s%s" % (p, "FIRED " + ",".join(fired[p]) if p in fired else "silent", ("  | " + first.group(1)[:200]) if (p in fired and first) else ""))
    finally:
        subprocess.run(["git", "-C", REPO, "checkout", "--", "."], check=False)
        subprocess.run(["rm", "-rf", evd])
    print(json.dumps({"fired": fired}))
    return 0 if fired else 1


if __name__ == "__main__":
    sys.exit(main())
