"""Development helper: for each named seeded change, run its own property's quick check (plus C19) on a scratch
copy and say whether the target fires.   python3 engine/seedown.py <name-substring> ..."""
import json, os, re, subprocess, sys
VERIF = os.path.dirname(os.path.dirname(os.path.abspath(__file__)))
for d in sorted(os.listdir(os.path.join(VERIF, "seeded"))):
    if d == "retired" or not any(a in d for a in sys.argv[1:]):
        continue
    prop = json.load(open(os.path.join(VERIF, "seeded", d, "meta.json")))["property"]
    r = subprocess.run([sys.executable, os.path.join(VERIF, "engine", "seedtry.py"), os.path.join(VERIF, "seeded", d, "patch.diff")], stdout=subprocess.PIPE, stderr=subprocess.STDOUT, text=True)
    fired = [l for l in r.stdout.splitlines() if l.startswith("fired:")]
    f = fired[0].split()[1:] if fired else []
    lines = [l for l in r.stdout.splitlines() if l.startswith(prop + ":")]
    print("%-48s target=%s %s | all: %s%s" % (d, prop, "CAUGHT" if prop in f else "MISSED", " ".join(f), ("\n      " + lines[0][:230]) if lines else ""), flush=True)
