"""Checker self-validation: apply each mutant of /verif/mutants/*.json to a scratch copy of /repo
(outside /repo and /verif, removed afterwards), run the named property check on it and require
that the named rule fires (breaking mutants) or that the check stays silent (benign mutants).

    python3 engine/selftest.py [name-substring ...]

A mutant file is a JSON list of
  {"name":..., "kind":"breaking"|"benign", "edits":[{"file":..., "find":..., "replace":...}],
   "expect":[{"prop":"C01","rule":"R01.5"}, ...], "props":["C01", ...] (benign: properties to run)}
`find` must occur exactly once in the file, otherwise the mutant is skipped (tree was edited).
"""
import glob
import json
import os
import shutil
import subprocess
import sys
import tempfile

VERIF = os.path.dirname(os.path.dirname(os.path.abspath(__file__)))
REPO = "/repo"


def load(filters):
    out = []
    for p in sorted(glob.glob(os.path.join(VERIF, "mutants", "*.json"))):
        for m in json.load(open(p)):
            m["_file"] = os.path.basename(p)
            if not filters or any(f in m["name"] or f in m["_file"] for f in filters):
                out.append(m)
    return out


def make_scratch():
    d = tempfile.mkdtemp(prefix="stretto-mut-")
    for item in ("src", "Cargo.toml", "Cargo.lock", "benches", "examples"):
        s = os.path.join(REPO, item)
        if os.path.isdir(s):
            shutil.copytree(s, os.path.join(d, item))
        elif os.path.exists(s):
            shutil.copy2(s, os.path.join(d, item))
    return d


def apply(m, d):
    for e in m["edits"]:
        p = os.path.join(d, e["file"])
        s = open(p).read()
        n = s.count(e["find"])
        if n != e.get("count", 1):
            return "find text occurs %d times in %s" % (n, e["file"])
        s = s.replace(e["find"], e["replace"])
        open(p, "w").write(s)
    return None


def run_check(d, prop, tier="quick"):
    env = dict(os.environ, STRETTO_REPO=d, VERIF_EVIDENCE_DIR=os.path.join(d, "_evidence"))
    r = subprocess.run([os.path.join(VERIF, "check"), prop, "--tier", tier], cwd=VERIF, env=env,
                       stdout=subprocess.PIPE, stderr=subprocess.STDOUT, text=True)
    return r.returncode, r.stdout


def run_for_property(prop, limit=None):
    """Run the breaking mutants that name `prop` (quick tier) and the benign mutants that list it.
    -> dict(caught=[..], missed=[..], false_alarm=[..], silent=[..], skipped=[..])"""
    res = {"caught": [], "missed": [], "false_alarm": [], "silent": [], "skipped": []}
    muts = [m for m in load([]) if m.get("tier", "quick") == "quick" and
            ((m["kind"] == "breaking" and any(e["prop"] == prop for e in m["expect"])) or (m["kind"] == "benign" and prop in m.get("props", [])))]
    if limit:
        muts = muts[:limit]
    for m in muts:
        d = make_scratch()
        try:
            err = apply(m, d)
            if err:
                res["skipped"].append(m["name"])
                continue
            if m["kind"] == "breaking":
                ok = True
                for ex in m["expect"]:
                    if ex["prop"] != prop:
                        continue
                    rc, out = run_check(d, prop)
                    if not (rc == 1 and (("VIOLATION %s " % ex["rule"]) in out or ("ANCHOR-MISSING %s " % ex["rule"]) in out)):
                        ok = False
                res["caught" if ok else "missed"].append(m["name"])
            else:
                rc, out = run_check(d, prop)
                res["silent" if rc == 0 else "false_alarm"].append(m["name"])
        finally:
            shutil.rmtree(d, ignore_errors=True)
    return res


def run_seeded_for_property(prop):
    """Apply the seeded changes written against `prop` (/verif/seeded/*/meta.json) to scratch copies and
    run the property's quick check: each must be reported.  -> dict(caught=[..], missed=[..], skipped=[..])"""
    res = {"caught": [], "missed": [], "skipped": []}
    base = os.path.join(VERIF, "seeded")
    for name in sorted(os.listdir(base)) if os.path.isdir(base) else []:
        mp = os.path.join(base, name, "meta.json")
        patch = os.path.join(base, name, "patch.diff")
        if not (os.path.exists(mp) and os.path.exists(patch)):
            continue
        if json.load(open(mp)).get("property") != prop:
            continue
        d = make_scratch()
        try:
            r = subprocess.run(["patch", "-p1", "-s", "-i", patch], cwd=d, stdout=subprocess.PIPE, stderr=subprocess.STDOUT, text=True)
            if r.returncode != 0:
                res["skipped"].append(name)
                continue
            rc, out = run_check(d, prop)
            res["caught" if rc == 1 and "VIOLATION" in out else "missed"].append(name)
        finally:
            shutil.rmtree(d, ignore_errors=True)
    return res


def run_benign_sample(prop, per_prop=6):
    """A deterministic sample of the behaviour-preserving refactorings (/verif/benign/*.diff): the property's
    quick check must stay silent on each.  -> dict(silent=[..], false_alarm=[..], skipped=[..])"""
    res = {"silent": [], "false_alarm": [], "skipped": []}
    base = os.path.join(VERIF, "benign")
    files = sorted(f for f in os.listdir(base) if f.endswith(".diff")) if os.path.isdir(base) else []
    if not files:
        return res
    off = int(prop[1:]) if prop[1:].isdigit() else 0
    step = max(1, len(files) // per_prop)
    pick = [files[(off + i * step) % len(files)] for i in range(per_prop)]
    for f in sorted(set(pick)):
        d = make_scratch()
        try:
            r = subprocess.run(["patch", "-p1", "-s", "-i", os.path.join(base, f)], cwd=d, stdout=subprocess.PIPE, stderr=subprocess.STDOUT, text=True)
            if r.returncode != 0:
                res["skipped"].append(f[:-5])
                continue
            rc, out = run_check(d, prop)
            res["silent" if rc == 0 else "false_alarm"].append(f[:-5])
        finally:
            shutil.rmtree(d, ignore_errors=True)
    return res


def main():
    filters = [a for a in sys.argv[1:] if not a.startswith("-")]
    verbose = "-v" in sys.argv
    muts = load(filters)
    res = {"caught": 0, "missed": 0, "silent_ok": 0, "false_alarm": 0, "skipped": 0, "broken": 0}
    failed = []
    for m in muts:
        d = make_scratch()
        try:
            err = apply(m, d)
            if err:
                res["skipped"] += 1
                print("SKIP   %-45s %s" % (m["name"], err))
                continue
            if m["kind"] == "breaking":
                allok = True
                for ex in m["expect"]:
                    rc, out = run_check(d, ex["prop"], m.get("tier", "quick"))
                    if "FATAL" in out and "cargo check failed" in out:
                        print("BROKEN %-45s does not compile" % m["name"])
                        res["broken"] += 1
                        allok = None
                        break
                    fired = rc == 1 and ("VIOLATION %s " % ex["rule"]) in out
                    if not fired:
                        allok = False
                        if verbose:
                            print(out)
                if allok is True:
                    res["caught"] += 1
                    print("CAUGHT %-45s %s" % (m["name"], ",".join(e["prop"] + "/" + e["rule"] for e in m["expect"])))
                elif allok is False:
                    res["missed"] += 1
                    failed.append(m["name"])
                    print("MISSED %-45s expected %s" % (m["name"], ",".join(e["prop"] + "/" + e["rule"] for e in m["expect"])))
            else:
                bad = []
                for prop in m["props"]:
                    rc, out = run_check(d, prop, m.get("tier", "quick"))
                    if rc != 0:
                        bad.append(prop)
                        if verbose:
                            print(out)
                if bad:
                    res["false_alarm"] += 1
                    failed.append(m["name"])
                    print("ALARM  %-45s benign edit reported by %s" % (m["name"], ",".join(bad)))
                else:
                    res["silent_ok"] += 1
                    print("SILENT %-45s (%s)" % (m["name"], ",".join(m["props"])))
        finally:
            shutil.rmtree(d, ignore_errors=True)
    print(json.dumps(res))
    return 1 if failed or res["broken"] else 0


if __name__ == "__main__":
    sys.exit(main())
