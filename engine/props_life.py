"""Lifecycle rules: C06 (store/policy agreement), C10 (wait barrier), C11 (clear), C12 (close)."""
from cachelib import *
import props_store

SM = "store::ShardedMap"


def closed_load_atom(self_expr=V("self")):
    return call("std::sync::atomic::Atomic::load", F(self_expr, "is_closed"), ("agg", "adt", "atomic::Ordering::SeqCst", (), ()))


def is_closed_lit(a):
    return is_call(a, "load") and any(s[0] == "field" and s[2] == "is_closed" for s in subexprs(a))


def effect_calls(fl, body):
    """Calls in body that have an effect on the cache: store / policy / metrics / callback /
    ring / channel sends / key hashing.  -> list of (bi, term, label)"""
    out = []
    for bi, t in body.calls():
        c = body.callee_of(t)
        lab = None
        if c.startswith(SM + "::") or c.startswith(fl.policy + "::") or c.startswith(fl.ring + "::") or c.startswith("metrics::Metrics::") \
                or callee_matches(c, "CacheCallback::on_exit") or callee_matches(c, "CacheCallback::on_evict") or callee_matches(c, "CacheCallback::on_reject") \
                or callee_matches(c, "KeyBuilder::build_key") or callee_matches(c, "Coster::cost") or c.startswith(fl.cache + "::"):
            lab = short(c)
        elif any(callee_matches(c, n) for n in SEND_NAMES):
            lab = "send"
        elif callee_matches(c, "WaitGroup::wait") or callee_matches(c, "AsyncWaitGroup::wait"):
            lab = "wg.wait"
        elif callee_matches(c, "Atomic::store"):
            lab = "store(flag)"
        if lab:
            out.append((bi, t, lab))
    return out


# ----------------------------------------------------------------------------------------
# C12
# ----------------------------------------------------------------------------------------

def guard_in_callee(fl, b):
    """The is_closed test of an operation may live in the private helper it starts with (`try_insert_in` begins with
    `self.try_update(..)`, which tests the flag first and yields `Ok(None)` for a closed cache).  -> (callee name,
    flat body of the operation) when `b` itself never loads the flag, calls exactly one such helper, every effect of
    the helper is dominated by is_closed == false and the helper's closed edge returns Ok(None) / None; else None."""
    facts = fl.facts
    if any(is_call(norm(b.call_expr(t, True)), "load") and is_closed_lit(norm(b.call_expr(t, True))) for _, t in b.calls()):
        return None
    cands = []
    for bi, t in b.calls():
        c = b.callee_of(t)
        if c.startswith(fl.cache + "::") and c != strip_generics(b.raw["root"]) and "{closure" not in c:
            h = facts.body(c, required=False)
            if h is not None:
                cands.append((c, h))
    if len(cands) != 1:
        return None
    c, h = cands[0]
    at, entry = dataflow(h)
    effs = effect_calls(fl, h)
    if not effs:
        return None
    for bi, t, lab in effs:
        for s in [expand_state(h, s_, hist=True) for s_ in at.get((bi, term_idx(h, bi)), set())]:
            if [val for a, val in s.lits if is_closed_lit(a)] != [False]:
                return None
    okret = False
    for rbi, rsi in h.defs.get(0, []):
        e = norm(h.def_expr(rbi, rsi, True))
        sts = [expand_state(h, s_, hist=True) for s_ in at.get((rbi, rsi), set())]
        if sts and all([val for a, val in s_.lits if is_closed_lit(a)] == [True] for s_ in sts):
            inner = e[3][0] if e[0] == "agg" and e[2].endswith("Result::Ok") and e[3] else e
            okret = inner[0] == "agg" and inner[2].endswith("Option::None")
    if not okret:
        return None
    return c, facts.flat(b)


def check_closed_first(rep, fl, rule="R12.1", only_ops=None):
    """In every public operation named by C12 the first effect is dominated by the false edge of
    is_closed.load(); the closed edge returns false / None / Ok(()) without any effect."""
    facts = fl.facts
    ops = {"try_insert_in": ("agg", "Ok", ("const", 0, "bool")), "get": "None", "get_mut": "None", "try_remove": ("agg", "Ok", "unit"), "clear": ("agg", "Ok", "unit"),
           "wait": ("agg", "Ok", "unit"), "close": ("agg", "Ok", "unit")}
    for op, want in sorted(ops.items()):
        if only_ops is not None and op not in only_ops:
            continue
        b = fl.cache_fn(op)
        gic = guard_in_callee(fl, b) if op == "try_insert_in" else None
        if gic is not None:
            # the flag is tested by the helper the operation starts with: that call is the guard; whatever else the
            # operation does happens where the helper's answer is known to be Some(..) (an open cache), and a None
            # answer is turned into the neutral value
            helper, b = gic
            at, entry = dataflow(b)
            effs = effect_calls(fl, b)
            open_lit = lambda a, val: val is True and a[0] == "variant" and a[2] == "Some" and any(is_call(x, helper) for x in subexprs(norm(b.expand(a[1]))))
            none_lit = lambda a, val: (val is True and a[0] == "variant" and a[2] == "None" or val is False and a[0] == "variant" and a[2] == "Some") and any(is_call(x, helper) for x in subexprs(norm(b.expand(a[1]))))
            bad = None
            for bi, t, lab in effs:
                if strip_generics(b.callee_of(t)) == helper:
                    continue
                for s in [expand_state(b, s_, hist=True) for s_ in at.get((bi, term_idx(b, bi)), set())]:
                    if not any(open_lit(a, val) for a, val in s.lits):
                        bad = (lab, t, s)
            rep.check(bad is None and bool(effs), rule, fl, b, "closed check first", "%s starts with %s, which tests is_closed before any effect and answers None for a closed cache; every other effect of %s is where that answer is Some (%d effects)" % (op, short(helper), op, len(effs)),
                      "%s performs `%s` on a path that does not know the cache to be open (the is_closed test lives in %s): a closed cache still acts" % (op, bad[0] if bad else "?", short(helper)),
                      loc=bad[1]["sp"] if bad else None)
            okret = False
            for rbi, rsi in b.defs.get(0, []):
                e = norm(b.def_expr(rbi, rsi, True))
                sts = [expand_state(b, s_, hist=True) for s_ in at.get((rbi, rsi), set())]
                if sts and all(any(none_lit(a, val) for a, val in s_.lits) for s_ in sts):
                    okret = e[0] == "agg" and e[2].endswith("Result::Ok") and e[3][0] == want[2]
            rep.check(okret, rule, fl, b, "closed => neutral", "on a closed cache %s returns Ok(false) (the helper's None)" % op, "%s does not return the neutral value on its closed path" % op)
            continue
        at, entry = dataflow(b)
        bodies = [b]
        effs = effect_calls(fl, b)
        not_closed = AND(A(closed_load_atom()))
        bad = None
        for bi, t, lab in effs:
            sts = [expand_state(b, s, hist=True) for s in at.get((bi, term_idx(b, bi)), set())]
            for s in sts:
                v = [val for a, val in s.lits if is_closed_lit(a)]
                if v != [False]:
                    bad = (lab, t, s)
        rep.check(bad is None and bool(effs), rule, fl, b, "closed check first", "every effect of %s is dominated by is_closed == false (%d effects)" % (op, len(effs)),
                  "%s performs `%s` on a path that did not (or not successfully) test is_closed: a closed cache still acts" % (op, bad[0] if bad else "?"),
                  loc=bad[1]["sp"] if bad else None)
        # the closed edge returns the neutral value and nothing else happens on it
        okret = False
        for rbi, rsi in b.defs.get(0, []):
            e = norm(b.def_expr(rbi, rsi, True))
            sts = [expand_state(b, s, hist=True) for s in at.get((rbi, rsi), set())]
            if sts and all([val for a, val in s.lits if is_closed_lit(a)] == [True] for s in sts):
                if want == "None":
                    okret = e[0] == "agg" and e[2].endswith("Option::None")
                elif want[2] == "unit":
                    okret = e[0] == "agg" and e[2].endswith("Result::Ok") and e[3][0][0] == "agg" and e[3][0][1] == "tuple" and not e[3][0][3]
                else:
                    okret = e[0] == "agg" and e[2].endswith("Result::Ok") and e[3][0] == want[2]
        rep.check(okret, rule, fl, b, "closed => neutral", "on a closed cache %s returns %s" % (op, "None" if want == "None" else "Ok(false)" if want[2] != "unit" else "Ok(())"),
                  "%s does not return the neutral value on its closed path" % op)
    if only_ops is not None:
        return
    # public wrappers reach the guarded operation only
    for w, tgt in (("insert", None), ("try_insert", None), ("insert_with_ttl", None), ("try_insert_with_ttl", None), ("insert_if_present", None), ("try_insert_if_present", None), ("remove", "try_remove")):
        b = fl.cache_fn(w, required=False)
        if b is None:
            continue
        effs = [(bi, t, lab) for bi, t, lab in effect_calls(fl, b)]
        for x in descendants(facts, b):
            if x is not b:
                effs += [(bi, t, lab) for bi, t, lab in effect_calls(fl, x)]
        # guarded: the operations checked above and the other wrappers - not the private helpers behind the guard
        # (try_update swaps the value in the store without looking at is_closed)
        guarded = {fl.cache + "::" + n for n in list(ops) + ["insert", "try_insert", "insert_with_ttl", "try_insert_with_ttl", "insert_if_present", "try_insert_if_present", "remove"]}
        names = {g.split("::")[-1] for g in guarded}
        strip = lambda c: re.sub(r"::\{closure#\d+\}$", "", c or "")
        # an async wrapper also builds the guarded operation's future: label `<op>::{closure#0}`
        ok = all(strip(b.callee_of(t)) in guarded or (lab.endswith("}") and strip(lab) in names) for _, t, lab in effs) and effs
        rep.check(ok, rule, fl, b, "wrapper", "%s only forwards to a guarded operation" % w, "%s has effects of its own, not behind the is_closed test: %s" % (w, sorted({l for _, _, l in effs})))


def check_close_sequence(rep, fl, rule="R12.2"):
    b = fl.cache_fn("close")
    at, entry = dataflow(b)
    stop = [(bi, t) for bi, t, ch, pay in send_sites(b) if ch == norm(F(V("self"), "stop_tx"))]
    pc = calls_to(b, fl.policy + "::close")
    st = [(bi, t) for bi, t in calls_to(b, "Atomic::store") if norm(b.call_args(t)[0]) == norm(F(V("self"), "is_closed")) and norm(b.call_args(t)[1]) == ("const", 1, "bool")]
    ok = len(stop) == 1 and len(pc) == 1 and len(st) == 1
    # every Ok return on the not-closed path passed all three
    if ok:
        for rbi, rsi in b.defs.get(0, []):
            e = norm(b.def_expr(rbi, rsi, True))
            if not (e[0] == "agg" and e[2].endswith("Result::Ok")):
                continue
            sts = [expand_state(b, s, hist=True) for s in at.get((rbi, rsi), set())]
            if all([val for a, val in s.lits if is_closed_lit(a)] == [True] for s in sts):
                continue
            for x in (stop[0][0], pc[0][0], st[0][0]):
                ok = ok and dominates_all_paths(b, [x] + [bb for bb in b.live_blocks() if False], rbi) or _closed_only(b, at, rbi, rsi)
                if not dominates_all_paths(b, [x], rbi):
                    # allowed only if all paths avoiding x are closed paths
                    ok = ok and _avoiding_paths_closed(b, at, x, rbi)
    rep.check(ok, rule, fl, b, "stop + policy.close + flag", "a successful close() has signalled the processor, closed the policy and set is_closed",
              "close() can return Ok on an open cache without stop signal / policy.close() / is_closed = true (found: stop=%d policy.close=%d flag=%d)" % (len(stop), len(pc), len(st)))
    pcl = fl.policy_fn("close")
    stop = [(bi, t) for bi, t, ch, pay in send_sites(pcl) if ch == norm(F(V("self"), "stop_tx"))]
    st = [(bi, t) for bi, t in calls_to(pcl, "Atomic::store") if norm(pcl.call_args(t)[0]) == norm(F(V("self"), "is_closed")) and norm(pcl.call_args(t)[1]) == ("const", 1, "bool")]
    ok = len(stop) == 1 and len(st) == 1 and block_dominates(pcl, stop[0][0], st[0][0])
    rep.check(ok, rule, fl, pcl, "policy stop + flag", "policy.close() signals the policy worker and sets its flag", "policy.close() does not signal its worker and set its flag")


def _closed_only(b, at, rbi, rsi):
    return False


def _avoiding_paths_closed(b, at, x, rbi):
    """Every path entry -> rbi that avoids block x lies on the closed edge."""
    # blocks reachable from entry without x
    seen = set()
    stack = [0]
    while stack:
        y = stack.pop()
        if y in seen or y == x:
            continue
        seen.add(y)
        stack.extend(b.succs(y))
    if rbi not in seen:
        return True
    # the avoiding path must cross the closed == true edge: check that removing that edge disconnects
    for bi in b.live_blocks():
        t = b.term(bi)
        if t and t["k"] == "switch":
            for tgt, atom, pol in edge_literals(b, bi):
                if atom is not None and is_closed_lit(norm(b.expand(atom))) and pol is True:
                    seen2 = set()
                    stack = [0]
                    while stack:
                        y = stack.pop()
                        if y in seen2 or y == x:
                            continue
                        seen2.add(y)
                        for s2 in b.succs(y):
                            if (y, s2) == (bi, tgt):
                                continue
                            stack.append(s2)
                    return rbi not in seen2
    return False


def check_worker_exit(rep, fl, rule="R12.3"):
    facts = fl.facts
    for proc, stopfield in ((fl.processor, "stop_rx"), (fl.pproc, "stop_rx")):
        sp = facts.body(proc + "::spawn")
        loop = None
        for x in descendants(facts, sp):
            if x is not sp and user_code(x) and any(ch == norm(F(V("self"), stopfield)) for _, _, ch in recv_sites(x)):
                loop = x
        if loop is None:
            rep.bad(rule, fl, sp, "stop arm", "the worker loop of %s never receives from its stop channel: it cannot be stopped" % short(proc))
            continue
        rs = [(bi, t) for bi, t, ch in recv_sites(loop) if ch == norm(F(V("self"), stopfield))]
        # the stop request is taken in the loop's stop arm and nowhere else: a handler that receives (or polls) the stop
        # channel itself completes the closer's rendezvous / takes its message, close() returns, and the loop - which
        # never sees the request - keeps running
        others = []
        for x in facts.bodies:
            if x is loop or not user_code(x) or not strip_generics(x.raw["root"]).startswith(proc + "::"):
                continue
            for bi_, t_, ch_ in recv_sites(x):
                if ch_ == norm(F(V("self"), stopfield)):
                    others.append((x, t_))
        rep.check(not others, rule, fl, loop, "stop taken in the stop arm only", "the stop channel of %s is received from in the worker loop's stop arm only" % short(proc),
                  "the stop channel is also received from in %s: a stop request taken there is gone when the loop selects again - close() has returned and the worker keeps running" % sorted({short(x.spath) for x, _ in others}),
                  loc=others[0][1]["sp"] if others else None)
        if fl.name == "sync":
            # SelectedOperation::recv(oper, &stop_rx) must not be in a cycle: it is followed by return whatever the result
            bi, t = rs[-1]
            ok = not loop.in_loop(bi)
            # no switch on the received value before returning
            res = place_target(loop, t["dest"])
            rep.check(ok, rule, fl, loop, "stop arm returns", "after receiving on the stop channel (message or disconnect) the loop returns", "the stop arm can continue looping", loc=t["sp"])
        else:
            # async: the arm body is reached via the select! result; the close handler / `return` must not be in a cycle
            hc = calls_to(loop, proc + "::handle_close_event")
            if proc != fl.pproc and not hc and facts.body(proc + "::handle_close_event", required=False) is None:
                # the stop arm written out in the loop: it is where the worker closes its own stop channel
                hc = [(bi_, t_) for bi_, t_ in loop.calls() if callee_matches(loop.callee_of(t_), "Receiver::close") and canon_self(loop, norm(loop.call_args(t_)[0])) == norm(F(V("self"), stopfield))]
            if proc == fl.pproc:
                # `drop(self); return;` : find a return-reaching block that is outside the loop and reachable from the select
                outs = [b_ for b_ in loop.live_blocks() if not loop.in_loop(b_) and b_ != 0 and any(loop.in_loop(p) for p in loop.preds(b_))]
                ok = bool(outs)
            else:
                ok = len(hc) == 1 and not loop.in_loop(hc[0][0])
            rep.check(ok, rule, fl, loop, "stop arm returns", "the stop arm leaves the loop", "the stop arm does not leave the worker loop")
        # the loop has exactly one way out besides panics
        # the worker owns no sender of its own channels
        adt = facts.adts.get(proc)
        flds = [(f["name"], f["ty"]) for f in adt["variants"][0]["fields"]] if adt else []
        senders = [n for n, ty in flds if "Sender<" in ty]
        rep.check(not senders and flds, rule, fl, proc, "owns no sender", "the worker struct holds no Sender: when every handle is dropped its channels disconnect and recv returns Err",
                  "the worker holds sender(s) %s of its own channels: they never disconnect when all handles are dropped" % senders)
    # senders live in Cache / LFUPolicy only
    for owner, flds_want in ((fl.cache, {"insert_buf_tx", "stop_tx", "clear_tx"}), (fl.policy, {"items_tx", "stop_tx"})):
        adt = facts.adts.get(owner)
        have = {f["name"] for f in adt["variants"][0]["fields"] if "Sender<" in f["ty"]} if adt else set()
        rep.check(have == flds_want, rule, fl, owner, "sender fields", "senders held: %s" % sorted(have), "sender fields of %s are %s, expected %s" % (short(owner), sorted(have), sorted(flds_want)))


def recv_loop_spins(body, rbi, rt):
    """Can the loop around the receive at (rbi, rt) go round again although the receive failed?
    True when a cycle through the receive exists that passes no edge witnessing its success."""
    loop = {b for b in body.live_blocks() if rbi in body.reachable(b) and b in body.reachable(rbi)}
    if not loop:
        return False
    res = norm(body.call_expr(rt, True))
    good = set()
    for b in loop:
        t = body.term(b)
        recv_typed = False
        if t and t["k"] == "switch":
            d = body.operand_expr(t["d"], expand_vars=False)
            # a match on a value of type Result<_, RecvError / TryRecvError>: the received message
            # (futures::select! hands it to the arm through its private result enum)
            recv_typed = d[0] == "discr" and "RecvError" in d[2] and strip_generics(d[2].split("<")[0]).endswith("result::Result")
        for tgt, atom, pol in edge_literals(body, b):
            if atom is None:
                continue
            if recv_typed and atom[0] == "variant" and atom[2] == "Ok" and pol:
                good.add((b, tgt))
                continue
            a = norm(body.expand(atom))
            p2 = pol
            while a[0] == "un" and a[1] == "Not":
                a = a[2]
                p2 = not p2
            if not mentions(a, res):
                continue
            if a[0] == "variant" and ((a[2] in ("Ok", "Continue", "Some", "Ready") and p2) or (a[2] in ("Err", "Break", "None") and not p2)):
                good.add((b, tgt))
            elif (is_call(a, "is_ok") or is_call(a, "is_some")) and p2:
                good.add((b, tgt))
            elif (is_call(a, "is_err") or is_call(a, "is_none")) and not p2:
                good.add((b, tgt))
    # is rbi on a cycle inside `loop` that avoids every good edge?
    seen = set()
    todo = [s2 for s2 in body.succs(rbi) if s2 in loop and (rbi, s2) not in good]
    while todo:
        b = todo.pop()
        if b == rbi:
            return True
        if b in seen:
            continue
        seen.add(b)
        for s2 in body.succs(b):
            if s2 in loop and (b, s2) not in good:
                todo.append(s2)
    return False


def check_recv_loops(rep, fl, rule="R12.3"):
    """Every receive loop other than a worker's main select (which has a stop arm) ends when its
    receive fails: once every handle is gone a disconnected channel is always `ready` with Err, so
    a loop that merely skips a failed receive spins forever and the worker never terminates."""
    facts = fl.facts
    other = "r#async" if fl.name == "sync" else "::sync::"
    n = 0
    exempt = []
    # functions that serve a clear request (callees of handle_clear_event)
    served = {fl.cleaner + "::clean"} if calls_to(clear_handler(fl), fl.cleaner + "::clean") and \
        {strip_generics(x.raw["root"]) for x in facts.bodies if user_code(x) and calls_to(x, fl.cleaner + "::clean")} == {fl.processor + "::handle_clear_event"} else set()
    for b in facts.bodies:
        if not user_code(b) or other in b.spath:
            continue
        sites = recv_sites(b)
        if not sites:
            continue
        stops = [bi for bi, t, ch in sites if field_name(ch) == "stop_rx"]
        if strip_generics(b.raw["root"]) in served:
            # runs only while a requester is blocked in clear() (it holds a cache handle, hence a
            # Sender of every channel; R11.1 "release after the resets"; a requester that gave up
            # because the cache is closed is outlived by the closer, which is blocked handing the
            # stop signal over): the buffer cannot be disconnected here, and when it is empty the
            # select's default arm ends the loop
            exempt.append(b.spath)
            continue
        for bi, t, ch in sites:
            if not b.in_loop(bi):
                continue
            # a worker's main select: its stop arm (outside the cycle, it returns) is reachable from here
            if any(s_ in b.reachable(bi) for s_ in stops):
                continue
            n += 1
            rep.check(not recv_loop_spins(b, bi, t), rule, fl, b, "receive loop on %s ends on failure" % (field_name(ch) or show(ch)),
                      "the loop goes round again only after a successful receive", "the loop continues after a failed receive: on a disconnected channel (every handle dropped) it spins forever and the worker never terminates",
                      loc=t["sp"])
    if exempt:
        rep.note("%s %s: receive loops of %s not subject to the rule (they run only while a clear() requester holds a handle)" % (rule, fl.cfg, sorted(set(exempt))))
    if n < 2:
        rep.missing(rule, fl, "only %d receive loops found (expected the stop-arm drains of the insert buffer and the clear channel)" % n)


def field_name(e):
    e = norm(e)
    while e and e[0] in ("field",):
        return e[2] if len(e) > 2 else None
    return None


def check_closed_monotonic(rep, fl, rule="R12.2"):
    """is_closed only ever goes from false to true: every store to a field named is_closed writes the
    constant true (a roll-back on an error path re-opens a cache whose workers are already gone)."""
    facts = fl.facts
    other = "r#async" if fl.name == "sync" else "::sync::"
    bad = []
    n = 0
    for b in facts.bodies:
        if not user_code(b) or other in b.spath or "::test" in b.spath:
            continue
        for bi, t in b.calls():
            c = b.callee_of(t)
            if callee_matches(c, "Atomic::store") or callee_matches(c, "Atomic::swap") or callee_matches(c, "Atomic::fetch_and") or callee_matches(c, "Atomic::compare_exchange") or callee_matches(c, "Atomic::fetch_xor"):
                a = [norm(x) for x in b.call_args(t)]
                if a and a[0][0] == "field" and a[0][2] == "is_closed":
                    n += 1
                    val = a[2] if callee_matches(c, "Atomic::compare_exchange") and len(a) > 2 else (a[1] if len(a) > 1 else None)
                    if not (callee_matches(c, "Atomic::store") or callee_matches(c, "Atomic::swap") or callee_matches(c, "Atomic::compare_exchange")) or val != ("const", 1, "bool"):
                        bad.append("%s: %s(is_closed, %s)" % (b.spath, short(c), show(val) if val else "?"))
    rep.check(not bad and n >= 2, rule, fl, "is_closed", "monotonic", "is_closed is only ever set to true (%d stores)" % n, "is_closed can be reset: %s" % "; ".join(bad))


def check_unwraps(rep, fl, rule="R12.4"):
    """No public cache operation unwraps a Result whose Err is constructible."""
    facts = fl.facts
    res, reason = may_err(facts)
    n = 0
    for b in facts.bodies:
        root = root_of(facts, b)
        st = strip_generics(root.raw.get("impl_self", ""))
        if not st.startswith(fl.cache):
            continue
        info = facts.fns.get(root.path)
        if not info or not info.get("reachable"):
            continue
        for bi, t in b.calls():
            c = b.callee_of(t)
            if not (callee_matches(c, "Result::unwrap") or callee_matches(c, "Result::expect")):
                continue
            n += 1
            src = norm(b.call_args(t)[0])
            m = MayErr(facts)
            m.memo.update({k: v for k, v in res.items()})
            why = m.errish(src, b)
            rep.check(why is None, rule, fl, b, "unwrap(%s)" % show(src)[:60], "the unwrapped Result cannot be Err",
                      "%s unwraps a Result that can be Err (%s): the caller panics (e.g. insert buffer full, or the processor has just exited)" % (root.name, why), loc=t["sp"])
    if n < 3:
        rep.missing(rule, fl, "fewer than 3 unwrap sites found in public cache operations (%d)" % n)


def check_C12(rep, fl):
    import props_locks
    props_locks.check_lock_order(rep, fl, rule="R12.5")
    check_closed_first(rep, fl)
    check_close_sequence(rep, fl)
    check_closed_monotonic(rep, fl)
    # "every number of handles/clones": the flag and the channel ends are the ones of the origin handle
    import props_cache
    props_cache.check_handle_sharing(rep, fl, fields=("is_closed", "stop_tx", "insert_buf_tx", "clear_tx", "policy", "store"))
    check_worker_exit(rep, fl)
    check_recv_loops(rep, fl)
    check_unwraps(rep, fl)
    check_wait_release(rep, fl)  # a waiter left blocked by close() is also a C12 matter ("nothing blocks")
    check_clear_release(rep, fl)  # likewise a clear() (close() itself goes through clear()) left blocked


# ----------------------------------------------------------------------------------------
# C10
# ----------------------------------------------------------------------------------------

def check_fifo(rep, fl, rule="R10.1"):
    facts = fl.facts
    tx = norm(F(V("self"), "insert_buf_tx"))
    senders = {}
    for b in facts.bodies:
        if not user_code(b):
            continue
        for bi, t, ch, pay in send_sites(b):
            chp = in_parent_terms(facts, b, ch) if b.is_closure else ch
            if chp == tx or (chp[0] == "field" and chp[2] == "insert_buf_tx"):
                senders.setdefault(strip_generics(b.raw["root"]), []).append((b, t, pay))
    want = {fl.cache + "::try_insert_in", fl.cache + "::try_remove", fl.cache + "::wait"}
    mine = {k for k in senders if k.startswith(fl.cache + "::")}
    rep.check(mine == want, rule, fl, fl.cache, "senders of insert_buf_tx", "items enter the single insert buffer from try_insert_in, try_remove and wait only",
              "insert_buf_tx is sent to from %s (expected %s)" % (sorted(mine), sorted(want)))
    rx_users = {}
    for b in facts.bodies:
        if not user_code(b):
            continue
        for bi, t, ch in recv_sites(b):
            if ch[0] == "field" and ch[2] == "insert_buf_rx":
                rx_users.setdefault(strip_generics(b.raw["root"]), []).append((b, t))
    ctx, cg, roots = contexts(fl)
    mine = {k for k in rx_users if k.startswith(fl.cmod + "::")}
    off = sorted({strip_generics(b.raw["root"]) for k in mine for b, t in rx_users[k] if ctx.get(id(b), set()) != {"processor"}})
    rep.check(not off and {fl.processor + "::spawn", fl.cleaner + "::clean"} <= mine, rule, fl, fl.processor, "receivers of insert_buf_rx",
              "the buffer is read only on the processor (%s)" % ", ".join(sorted(short(k) for k in mine)),
              "insert_buf_rx is received from outside the processor context (%s) / not by the processor loop and the cleaner (%s)" % (off, sorted(mine)))
    # the two ends are one channel
    fin = fl.code(fl.builder + "::finalize")
    cache_f = None
    for bi, si, st, e in agg_nodes(fin, fl.cache.split("::")[-1]):
        cache_f = agg_fields(e)
    pn = calls_to(fin, fl.processor + "::new")
    ok = cache_f is not None and len(pn) == 1
    if ok:
        txe = cache_f.get("insert_buf_tx")
        a = [norm(x) for x in fin.call_args(pn[0][1])]
        rxs = [x for x in a if x[0] == "field" and x[2] == "1" and is_call(x[1], "bounded")]
        ok = txe is not None and txe[0] == "field" and txe[2] == "0" and is_call(txe[1], "bounded") and len(rxs) == 1 and rxs[0][1] == txe[1]
        if ok:
            cap = norm(txe[1][2][0])
            ok = cap == norm(F(V("self"), "inner", "insert_buffer_size"))
    rep.check(ok, rule, fl, fin, "one bounded channel", "insert_buf_tx and the processor's insert_buf_rx are the two ends of bounded(insert_buffer_size)",
              "the cache's sender and the processor's receiver are not the two ends of one bounded(insert_buffer_size) channel")
    pnb = fl.code(fl.processor + "::new")
    f = None
    for bi, si, st, e in agg_nodes(pnb, "CacheProcessor"):
        f = agg_fields(e)
    ok = f is not None and all(f.get(k) == V(k) for k in ("insert_buf_rx", "stop_rx", "clear_rx", "store", "policy", "callback", "metrics"))
    rep.check(ok, rule, fl, pnb, "fields", "CacheProcessor::new stores its channel ends / store / policy arguments unchanged", "CacheProcessor::new field wiring changed")
    return senders


def check_handle_item_sync(rep, fl, rule="R10.2"):
    """handle_item applies an item synchronously and is exhaustive over Item with a releasing
    Wait arm (processor and cleaner)."""
    facts = fl.facts
    adt = facts.adts.get(fl.item)
    variants = [v["name"] for v in adt["variants"]] if adt else []
    rep.check(variants == ["New", "Update", "Delete", "Wait"], rule, fl, fl.item, "variants", "Item = New | Update | Delete | Wait", "Item variants are %s" % variants)
    for owner in (fl.processor, fl.cleaner):
        b = facts.body(owner + "::handle_item")
        bodies = descendants(facts, b)
        deferred = []
        for x in bodies:
            for bi, t in x.calls():
                c = x.callee_of(t)
                if any(callee_matches(c, n) for n in SEND_NAMES) or callee_matches(c, "thread::spawn") or callee_matches(c, "spawn"):
                    deferred.append(short(c))
        rep.check(not deferred, rule, fl, b, "synchronous", "an item is applied in place (no send / spawn inside handle_item)", "handle_item defers work: %s" % deferred)
        # the Wait arm: reached from the discriminant switch, calls done on the payload
        at, entry = dataflow(b)
        dn = [(bi, t) for bi, t in b.calls() if callee_matches(b.callee_of(t), "WaitGroup::done") or callee_matches(b.callee_of(t), "AsyncWaitGroup::done") or callee_matches(b.callee_of(t), "WaitSignal::done")]
        drops_guard = False
        ok = False
        if dn:
            a = norm(b.call_args(dn[0][1])[0])
            ok = mentions(a, ("downcast", V("item"), "Wait"))
            # every path on the Wait edge passes it
            for bi in b.live_blocks():
                t = b.term(bi)
                if t and t["k"] == "switch":
                    for tgt, atom, pol in edge_literals(b, bi):
                        if atom is not None and atom[0] == "variant" and atom[2] == "Wait" and atom[1] == V("item"):
                            ok = ok and must_pass_through(b, [dn[0][0]], from_bi=tgt)
        else:
            # a releasing guard that is simply dropped is fine too (see R10.3)
            ok = wait_payload_releases_on_drop(fl)[0]
        rep.check(ok, rule, fl, b, "Wait arm releases", "the Wait arm releases the waiter on every path", "the Wait arm of %s does not release the waiter: wait() never returns" % short(owner + "::handle_item"))


def type_releases_on_drop(fl, ty, what):
    """(ok, description): does type `ty` release a waiter in Drop (done() on every path)?"""
    facts = fl.facts
    base = strip_generics(ty)
    if base.startswith("wg::"):
        return False, "%s carries a bare %s, which does not release its waiters when it is dropped" % (what, base)
    for imp in facts.impls:
        if imp["trait"] and imp["trait"].endswith("Drop") and strip_generics(imp["self"]) == base:
            # the drop body must call done on every path
            for b in facts.bodies:
                if b.name == "drop" and strip_generics(b.raw.get("impl_self", "")) == base and (b.raw.get("impl_trait") or "").endswith("Drop"):
                    dn = [bi for bi, t in b.calls() if callee_matches(b.callee_of(t), "WaitGroup::done") or callee_matches(b.callee_of(t), "AsyncWaitGroup::done")]
                    if dn and must_pass_through(b, dn):
                        return True, "%s releases the waiter in Drop" % base
            return False, "%s implements Drop but its drop does not call done() on every path" % base
    return False, "%s has no Drop impl releasing the waiter" % base


def wait_payload_releases_on_drop(fl):
    """(ok, description): does the payload type of Item::Wait release the waiter in Drop?"""
    facts = fl.facts
    adt = facts.adts.get(fl.item)
    ty = None
    for v in adt["variants"]:
        if v["name"] == "Wait" and v["fields"]:
            ty = v["fields"][0]["ty"]
    if ty is None:
        return False, "Item::Wait has no payload"
    return type_releases_on_drop(fl, ty, "Item::Wait")


def signal_type_releases_on_drop(fl, field):
    """The element type of the cache's clear channel releases its requester in Drop."""
    facts = fl.facts
    adt = facts.adts.get(fl.cache)
    ty = None
    for v in adt["variants"]:
        for f in v["fields"]:
            if f["name"] == "clear_tx":
                ty = f["ty"]
    if ty is None or "<" not in ty:
        return False, "no clear_tx field"
    elem = ty[ty.index("<") + 1:ty.rindex(">")]
    if strip_generics(elem) in ("()", "bool"):
        return False, "clear_tx carries %s: the requester cannot be released by the processor" % elem
    return type_releases_on_drop(fl, elem, "the clear channel")


def _recv_failed_literal(a, pol, res):
    """The literal says that the receive `res` failed: a test on its error value (`Err(TryRecvError::Empty)`: the
    select's default arm), the `?` that propagates its error, `res is Err`, `!res.is_ok()`, `res.is_err()`."""
    if mentions(a, ("downcast", res, "Err")) and pol:
        return True
    if a[0] == "variant" and a[2] == "Break" and pol and mentions(a, res):
        return True
    p2 = pol
    while a[0] == "un" and a[1] == "Not":
        a = a[2]
        p2 = not p2
    if a[0] == "variant" and a[1] == res and ((a[2] == "Err" and p2) or (a[2] == "Ok" and not p2)):
        return True
    if is_call(a, "Result::is_ok") and norm(a[2][0]) == res and p2 is False:
        return True
    if is_call(a, "Result::is_err") and norm(a[2][0]) == res and p2 is True:
        return True
    return False


def _consistent(es):
    """No enum value is known to be two different variants at once (copies of one value are tested under
    different names; the expanded valuation shows the contradiction)."""
    seen = {}
    for a, v in es.lits:
        if a[0] == "variant" and v is True:
            if seen.setdefault(a[1], a[2]) != a[2]:
                return False
    for a, v in es.lits:
        if a[0] == "variant" and v is False and seen.get(a[1]) == a[2]:
            return False
    return True


def drain_is_exhaustive(body, drain_bi, drain_t):
    """The loop around the drain receive is left only when the receive failed (buffer empty /
    closed): every exit edge of the loop lies on the Err side of that receive - the edge's own test says so,
    or every path that reaches it has decided so before (a `match` on a value rebuilt from the result)."""
    loop = {b for b in body.live_blocks() if drain_bi in body.reachable(b) and b in body.reachable(drain_bi)}
    if not loop:
        return False
    res = norm(body.call_expr(drain_t, True))
    ok = True
    n_exit = 0
    at = None
    for b in loop:
        for s2 in body.succs(b):
            if s2 in loop:
                continue
            n_exit += 1
            failed = False
            t2 = body.term(s2)
            if t2 is not None and t2["k"] == "unreachable":
                n_exit -= 1
                continue
            for tgt, atom, pol in edge_literals(body, b):
                if tgt != s2 or atom is None:
                    continue
                if _recv_failed_literal(norm(body.expand(atom)), pol, res):
                    failed = True
                    continue
                if at is None:
                    try:
                        at, _entry = dataflow(body)
                    except TooManyStates:
                        at = {}
                sts = [s.with_lit(atom, pol) for s in at.get((b, term_idx(body, b)), set())]
                sts = [expand_state(body, s) for s in sts if s is not None]
                sts = [s for s in sts if _consistent(s)]
                if sts and all(any(_recv_failed_literal(a, v, res) for a, v in s.lits) for s in sts):
                    failed = True
            ok = ok and failed
    return ok and n_exit >= 1


def check_wait_release(rep, fl, rule="R10.3"):
    facts = fl.facts
    leaks = [(b, t, n) for b, bi, t, n in leak_or_dup_calls(facts) if b.spath.startswith(fl.cmod + "::") or b.spath.startswith("cache::")]
    rep.check(not leaks, rule, fl, fl.cmod, "no leak primitive", "no mem::forget / ManuallyDrop / ptr::read in the cache module: an item (and its Wait token) cannot escape its destructor",
              "%s in %s: an item can be leaked without running its destructor, so a Wait token may never be released" % (leaks[0][2] if leaks else "", leaks[0][0].spath if leaks else ""),
              loc=leaks[0][1]["sp"] if leaks else None)
    ok, why = wait_payload_releases_on_drop(fl)
    rep.check(ok, rule, fl, fl.item, "Wait token released on drop", why,
              "%s: a Wait item that is destroyed unhandled (still buffered when the processor takes its stop arm - the select picks at random between a ready buffer and a ready stop channel - "
              "or enqueued after the last drain) never calls done(), so wait() racing close() blocks forever" % why)
    check_drained_on_stop(rep, fl, rule, "insert_buf_rx", "Wait item")
    if fl.name != "async":
        check_recheck_closed(rep, fl, rule, "wait", "insert_buf_tx")


def check_drained_on_stop(rep, fl, rule, rxname, what):
    """Messages still queued on processor.<rxname> when the processor stops are dropped."""
    facts = fl.facts
    rx = norm(F(V("self"), rxname))
    if fl.name == "async":
        # async-channel keeps queued messages alive while any Sender exists: the stop arm must drain after closing the receiver
        hc = fl.proc_fn("handle_close_event", required=False)
        if hc is None:
            # the stop arm written out in the worker loop itself
            sp_ = facts.body(fl.processor + "::spawn")
            for x in descendants(facts, sp_):
                if x is not sp_ and user_code(x) and any(ch == norm(F(V("self"), "stop_rx")) for _, _, ch in recv_sites(x)):
                    hc = x
        if hc is None:
            rep.missing(rule, fl, "async stop arm (handle_close_event / the loop that receives from stop_rx)")
            return
        closes = [(bi, t) for bi, t in hc.calls() if callee_matches(hc.callee_of(t), "Receiver::close") and canon_self(hc, norm(hc.call_args(t)[0])) == rx]
        # (the receives that can follow the close: in a loop body the main select receives from the same channel)
        drains = [(bi, t) for bi, t, ch in recv_sites(hc) if ch == rx and hc.in_loop(bi) and (not closes or bi in hc.reachable(closes[0][0]))]
        okd = bool(closes) and bool(drains) and all(block_dominates(hc, closes[0][0], d[0]) for d in drains) and all(drain_is_exhaustive(hc, d[0], d[1]) for d in drains)
        rep.check(okd, rule, fl, hc, "drain %s after close" % rxname, "the stop arm closes %s (later sends fail) and then drains it, so a queued %s is dropped (and its waiter released)" % (rxname, what),
                  "the async stop arm closes %s but never drains it: async-channel keeps queued messages alive while the cache handle holds a Sender, "
                  "so a queued %s is never dropped and its waiter blocks forever" % (rxname, what))
        return
    # sync: crossbeam keeps queued messages while a cache handle holds a Sender, and a receiver cannot close the channel
    sp = facts.body(fl.processor + "::spawn")
    loop = None
    for x in descendants(facts, sp):
        if x is not sp and user_code(x) and any(ch == norm(F(V("self"), "stop_rx")) for _, _, ch in recv_sites(x)):
            loop = x
    okd = False
    if loop is not None:
        stop_recv = [(bi, t) for bi, t, ch in recv_sites(loop) if ch == norm(F(V("self"), "stop_rx"))][-1]
        drains = [(bi, t) for bi, t, ch in recv_sites(loop) if ch == rx and bi in loop.reachable(stop_recv[0]) and stop_recv[0] not in loop.reachable(bi)]
        # a drain is a receive in a cycle that does not contain the main select
        drains = [d for d in drains if loop.in_loop(d[0])]
        okd = bool(drains) and all(drain_is_exhaustive(loop, d[0], d[1]) for d in drains)
    rep.check(okd, rule, fl, loop or sp, "drain %s on stop" % rxname, "the stop arm drains %s until the receive fails, before the processor returns, so a queued %s is dropped (and its waiter released)" % (rxname, what),
              "the stop arm returns without draining %s to the end (no drain, or a drain loop that can stop while messages are still queued): crossbeam keeps queued messages alive while a cache handle holds a Sender, so a %s still queued when the "
              "processor exits is never dropped and its waiter blocks forever" % (rxname, what))


def check_recheck_closed(rep, fl, rule, fnname, txname):
    """sync: a message can still be enqueued after the final drain: <fnname>() must not block then."""
    w = fl.cache_fn(fnname)
    at, entry = dataflow(w)
    waits = [(bi, t) for bi, t in w.calls() if callee_matches(w.callee_of(t), "WaitGroup::wait")]
    okr = False
    if len(waits) == 1:
        ss = [x for x in send_sites(w) if x[2] == norm(F(V("self"), txname))]
        sts = at.get((waits[0][0], term_idx(w, waits[0][0])), set())
        # after the enqueue, is_closed was re-read and found false: a load that is *after* the send site on the path
        loads_after = [bi for bi, t in w.calls() if is_closed_lit(norm(w.call_expr(t, True))) and ss and bi in w.reachable(ss[0][0]) and block_dominates(w, bi, waits[0][0])]
        okr = bool(loads_after) and bool(sts)
        if okr:
            # and the wait happens only on the false edge of that re-check
            okr = False
            for bi in w.live_blocks():
                t = w.term(bi)
                if t and t["k"] == "switch" and any(bi in w.reachable(l) for l in loads_after):
                    for tgt, atom, pol in edge_literals(w, bi):
                        if atom is not None and is_closed_lit(norm(w.expand(atom))) and pol is True:
                            okr = waits[0][0] not in w.reachable(tgt)
    rep.check(okr, rule, fl, w, "re-check closed after enqueue", "%s() re-reads is_closed after enqueueing its message and does not block when the cache is closed" % fnname,
              "%s() blocks on its token without re-checking is_closed after the enqueue: a message that arrives after the processor's final drain is never released" % fnname)
    if fnname != "wait":
        return
    c = fl.cache_fn("close")
    stop = [(bi, t) for bi, t, ch, pay in send_sites(c) if ch == norm(F(V("self"), "stop_tx"))]
    st = [(bi, t) for bi, t in calls_to(c, "Atomic::store") if norm(c.call_args(t)[0]) == norm(F(V("self"), "is_closed")) and norm(c.call_args(t)[1]) == ("const", 1, "bool")]
    okc = len(stop) == 1 and len(st) >= 1 and any(block_dominates(c, x[0], stop[0][0]) for x in st)
    rep.check(okc, rule, fl, c, "flag before stop", "close() sets is_closed before it stops the processor (so the re-check in wait() sees it once the final drain is over)",
              "close() stops the processor before it sets is_closed: a wait() whose marker arrives after the final drain still sees an open cache and blocks forever")


def check_wait_fn(rep, fl, rule="R10.4"):
    b = fl.cache_fn("wait")
    facts = fl.facts
    at, entry = dataflow(b)
    ss = send_sites(b)
    ok = len(ss) == 1 and callee_matches(b.callee_of(ss[0][1]), "Sender::try_send") and ss[0][2] == norm(F(V("self"), "insert_buf_tx"))
    rep.check(ok, rule, fl, b, "try_send", "wait() enqueues its marker with try_send (never blocks on a full buffer)", "wait() does not use a non-blocking try_send on insert_buf_tx")
    if not ss:
        return
    # on an open cache every path of wait() enqueues the marker: an "empty buffer" shortcut would
    # return while the processor is still applying the item it dequeued last
    okall = True
    for bi in b.live_blocks():
        t = b.term(bi)
        if t and t["k"] == "switch" and not any(bi in b.reachable(x[0]) for x in ss):
            for tgt, atom, pol in edge_literals(b, bi):
                if atom is not None and is_closed_lit(norm(b.expand(atom))) and pol is False:
                    okall = okall and must_pass_through(b, [ss[0][0]], from_bi=tgt)
    rep.check(okall, rule, fl, b, "always enqueues", "on an open cache every path of wait() enqueues its marker (no shortcut that skips the barrier)",
              "wait() can return without enqueueing its marker although the cache is open (e.g. an `insert buffer is empty` shortcut): the processor may still be applying "
              "the item it dequeued last, so the caller's earlier insert/remove is not yet visible", loc=ss[0][1]["sp"])
    pay = ss[0][3]
    okp = pay[0] == "agg" and pay[2].endswith("Item::Wait")
    wgs = [s for s in subexprs(pay) if is_call(s, "WaitGroup::add") or is_call(s, "AsyncWaitGroup::add")]
    okp = okp and len(wgs) >= 1 and wgs[0][2][1] == ("const", 1, "usize")
    rep.check(okp, rule, fl, b, "marker", "the marker carries wg.add(1) of a fresh WaitGroup", "the Wait marker is built as %s" % show(pay))
    # the group belongs to this call: one shared between calls or handles is released by other callers' markers
    # (and a marker's token is given back on drop as well as on handling: a shared counter under-counts)
    grp = norm(b.expand(wgs[0][2][0])) if wgs else None
    okf = grp is not None and (is_call(grp, "WaitGroup::new") or is_call(grp, "AsyncWaitGroup::new") or is_call(grp, "Default::default")) and not mentions(grp, V("self"))
    rep.check(okf, rule, fl, b, "own group", "wait() blocks on a WaitGroup created by this very call", "the WaitGroup of wait() is %s, not one created by this call: concurrent waiters release each other before their own marker is reached" % (show(grp) if grp else "?"))
    # wg.wait() on the same group, only after a successful send
    waits = []
    for x in descendants(facts, b):
        for bi, t in x.calls():
            c = x.callee_of(t)
            if callee_matches(c, "WaitGroup::wait") or callee_matches(c, "AsyncWaitGroup::wait"):
                waits.append((x, bi, t))
    okw = len(waits) == 1
    if okw:
        x, bi, t = waits[0]
        if x is b:
            sts = [expand_state(b, s, hist=True) for s in at.get((bi, term_idx(b, bi)), set())]
            okw = bool(sts) and all(any(a[0] == "variant" and a[2] in ("Ok", "Continue") and v and any(is_call(c, "Sender::try_send") for c in calls_in(a[1])) for a, v in s.lits) for s in sts)
        else:
            p = closure_passed_to(facts, x)
            okw = p is not None and callee_matches(p[0].callee_of(p[2]), "Result::map") and is_call(norm(p[0].call_args(p[2])[0]), "Sender::try_send")
        wexp = in_parent_terms(facts, x, x.call_args(t)[0], stop_at=b) if x is not b else norm(b.call_args(t)[0])
        wexp = norm(b.expand(wexp))
        okw = okw and wgs and (wexp == wgs[0][2][0] or mentions(wgs[0], wexp))
    rep.check(okw, rule, fl, b, "wait after send", "wg.wait() on the same WaitGroup, only when the marker was enqueued", "wait() does not block on the marker's WaitGroup exactly when the send succeeded")
    # Ok(()) is a promise: it is returned only behind the barrier (or on a closed cache).  A failed enqueue - the
    # buffer is full - is reported as an error, never as success: the caller's items are still ahead in that buffer
    import props_cache
    fb = facts.flat(b)
    wt = [(bi, t) for bi, t in fb.calls() if callee_matches(fb.callee_of(t), "WaitGroup::wait") or callee_matches(fb.callee_of(t), "AsyncWaitGroup::wait")]
    oko = len(wt) == 1
    bad_ = ""
    if oko:
        outs_, at_ = props_cache.count_paths(fb, lambda bi_, t_: "barrier" if t_ is wt[0][1] else None)
        n_ok = 0
        for rbi, rsi in fb.defs.get(0, []):
            e = norm(fb.def_expr(rbi, rsi, True))
            if not (e[0] == "agg" and str(e[2]).endswith("Result::Ok")):
                continue
            for s_ in at_.get((rbi, rsi), set()):
                n_ok += 1
                es_ = expand_state(fb, s_, hist=True)
                closed = any(is_closed_lit(norm(a_)) and v_ for a_, v_ in es_.lits)
                cnt_ = {k_: v_ for k_, v_ in (s_.user or ()) if not str(k_).startswith("$")}
                if not closed and cnt_.get("barrier", 0) < 1:
                    oko = False
                    bad_ = show_state(s_)
        oko = oko and n_ok >= 1
    rep.check(oko, rule, fl, b, "Ok only behind the barrier", "wait() returns Ok(()) only after wg.wait() (or on a closed cache): a marker that could not be enqueued is an error",
              "wait() can return Ok(()) on an open cache without having waited for its marker (%s): the caller's earlier inserts may still be in the buffer" % bad_[:200])


def check_C10(rep, fl):
    import props_locks
    props_locks.check_lock_order(rep, fl, rule="R10.5")
    check_fifo(rep, fl)
    check_handle_item_sync(rep, fl)
    check_wait_release(rep, fl)
    check_wait_fn(rep, fl)
    # "fully applied": what the policy evicted for an insert has left the store by the time the insert is done with,
    # whether the newcomer was admitted in the end or not (an entry the policy no longer charges but lookups still find
    # is an insert half applied)
    check_handle_item_pairing(rep, fl, rule="R10.2", collisions=False, only_sites=("victims inspected on every path", "victim => try_remove(victim.key, 0)"))
    # wait() on a closed cache returns at once: the closed test of wait (the other operations' tests are C12's)
    props_store.keep_sites(rep, fl, check_closed_first, ("*",), only_ops=("wait",))
    check_worker_exit(rep, fl)
    # "removed ones are gone once wait() returns": the Delete marker is ordered behind the sets and cannot be lost
    check_remove_pair(rep, fl)
    # ... and the processor applies the marker to the store as well: an insert of the key that was still queued
    # ahead of the marker has been applied meanwhile ("removed ones are gone")
    check_handle_item_pairing(rep, fl, rule="R10.2", collisions=False, only_sites=("Delete => policy.remove + store.try_remove",))
    # "admitted entries are retrievable and charged": store and policy change membership only on the processor, item
    # by item - a client thread that empties the store behind the processor's back leaves charged keys without entry
    check_contexts(rep, fl)
    # "everything accepted before is applied": applying an item cannot fail half-way (a `?` that fires skips the rest
    # of the item while the marker behind it is still released)
    check_no_err_between(rep, fl)
    # "(or discarded by a concurrent clear())": only by a concurrent one - clear() returns when the clear is over, so
    # an insert issued after it is not swallowed by that clear's drain or resets
    props_store.keep_rules(rep, fl, check_clear, {"R11.1"}, rename="R10.2")
    # "every insert .. has been fully applied": the caller-side store update reports each outcome for its own cause (an
    # entry that is there is updated in place, not sent through admission again - where the policy, which still
    # tracks it, would turn it away)
    props_store.check_store_writes(rep, fl, prop="C10")


# ----------------------------------------------------------------------------------------
# C11
# ----------------------------------------------------------------------------------------

def check_cleaner(rep, fl, rule="R11.1"):
    facts = fl.facts
    cl = fl.code(fl.cleaner + "::clean")
    rs = [(bi, t) for bi, t, ch in recv_sites(cl) if ch == norm(F(V("self"), "processor", "insert_buf_rx"))]
    hi = []
    for x in descendants(facts, cl):
        if user_code(x):
            hi += [(x, c) for c in calls_to(x, fl.cleaner + "::handle_item")]
    ok = len(rs) >= 1 and cl.in_loop(rs[0][0]) and len(hi) == 1
    rep.check(ok, rule, fl, cl, "drain loop", "the cleaner receives from the insert buffer in a loop and hands every item to its handle_item", "the cleaner does not drain the insert buffer item by item")
    if rs:
        okx = all(drain_is_exhaustive(cl, bi_, t_) for bi_, t_ in rs if cl.in_loop(bi_)) if fl.name != "async" else cleaner_async_exhaustive(cl, rs)
        rep.check(okx, rule, fl, cl, "drains to the end", "the cleaner stops only when the buffer is empty (or the receive failed)",
                  "the cleaner can stop while items are still buffered (a bounded loop, an early exit): what is left is applied after the clear and survives it")
    h = facts.body(fl.cleaner + "::handle_item")
    ev = calls_to(h, "CacheCallback::on_evict")
    ok = len(ev) == 1
    if ok:
        a = [norm(x) for x in h.call_args(ev[0][1])]
        it = a[1]
        if is_call(it, "Item::new"):
            args = it[2]
            ok = args[0] == item_field("New", "key") and args[1] == item_field("New", "conflict") and args[2] == item_field("New", "cost") and \
                args[3][0] == "agg" and args[3][2].endswith("Option::Some") and args[3][3][0] == item_field("New", "value") and args[4] == item_field("New", "expiration")
        else:
            ok = False
        for bi in h.live_blocks():
            t = h.term(bi)
            if t and t["k"] == "switch":
                for tgt, atom, pol in edge_literals(h, bi):
                    if atom is not None and atom[0] == "variant" and atom[2] == "New":
                        ok = ok and must_pass_through(h, [ev[0][0]], from_bi=tgt)
    rep.check(ok, "R08.2", fl, h, "buffered New => on_evict", "a buffered New item discarded by clear() is handed to on_evict with its own value", "the cleaner does not hand discarded New items to on_evict with their value")
    # processor clear arm -> cleaner
    sp = facts.body(fl.processor + "::spawn")
    arm = None
    for x in descendants(facts, sp):
        if user_code(x) and (calls_to(x, fl.processor + "::handle_clear_event") or calls_to(x, fl.cleaner + "::clean")):
            arm = x
    rep.check(arm is not None, rule, fl, sp, "clear arm", "the processor loop's clear arm runs the cleaner", "the processor loop never runs the cleaner")


def _is_wait(c):
    return callee_matches(c, "WaitGroup::wait") or callee_matches(c, "AsyncWaitGroup::wait")


def _is_signal_ty(ty):
    return strip_generics(ty).split("::")[-1] == "WaitSignal"


def clear_handler(fl):
    """The processor-side function that serves a clear request."""
    b = fl.code(fl.processor + "::handle_clear_event")
    if b is None:
        raise AnchorMissing("no %s::handle_clear_event" % fl.processor)
    return b


def cleaner_async_exhaustive(cl, rs):
    """futures::select! with a `default` arm: the loop around the receive may be left only from the default arm
    (nothing ready) or when the receive failed; there is no other way out (no counter, no `break` after N items).
    Structurally: the loop contains no Iterator::next call and every exit edge is a `return`-bound edge."""
    bi = [b for b, t in rs if cl.in_loop(b)]
    if not bi:
        return False
    loop = {b for b in cl.live_blocks() if bi[0] in cl.reachable(b) and b in cl.reachable(bi[0])}
    for b, t in cl.calls():
        if b in loop and callee_matches(cl.callee_of(t), "Iterator::next"):
            return False
    return True


def check_clear(rep, fl, rule="R11.1"):
    """clear() = request + wait on the client; drain + three resets on the processor, all before
    the client is released."""
    import props_cache
    import props_values
    facts = fl.facts
    b = fl.cache_fn("clear")
    sig = [(bi, t, pay) for bi, t, ch, pay in send_sites(b) if ch == norm(F(V("self"), "clear_tx"))]
    ok = len(sig) == 1
    wgs = []
    if ok:
        pay = sig[0][2]
        wgs = [x for x in subexprs(pay) if is_call(x, "WaitGroup::add") or is_call(x, "AsyncWaitGroup::add")]
        ok = pay[0] == "agg" and pay[2].split("::")[-1] in ("WaitSignal", "WaitSignal::WaitSignal") and len(wgs) == 1 and wgs[0][2][1] == ("const", 1, "usize")
    rep.check(ok, rule, fl, b, "request", "clear() sends one request on clear_tx carrying wg.add(1) of a fresh WaitGroup",
              "clear() does not send exactly one request carrying a release token on clear_tx (%d sends)" % len(sig))
    if not ok:
        return
    grp = norm(b.expand(wgs[0][2][0]))
    okf = (is_call(grp, "WaitGroup::new") or is_call(grp, "AsyncWaitGroup::new") or is_call(grp, "Default::default")) and not mentions(grp, V("self"))
    rep.check(okf, rule, fl, b, "own group", "clear() blocks on a WaitGroup created by this very call",
              "the WaitGroup of clear() is %s, not one created by this call: concurrent callers release each other before their own request is served" % show(grp))
    sbi, st_, pay = sig[0]
    # every open path sends the request
    okall = True
    for bi in b.live_blocks():
        t = b.term(bi)
        if t and t["k"] == "switch" and bi not in b.reachable(sbi):
            for tgt, atom, pol in edge_literals(b, bi):
                if atom is not None and is_closed_lit(norm(b.expand(atom))) and pol is False:
                    okall = okall and must_pass_through(b, [sbi], from_bi=tgt)
    rep.check(okall, rule, fl, b, "always requests", "on an open cache every path of clear() sends the request", "clear() can return without asking the processor to clear although the cache is open")
    # ... and waits for the processor: a path on which the request was sent returns only through
    # wg.wait() on that group, or because the cache was found closed after the send
    waits = [(bi, t) for bi, t in b.calls() if _is_wait(b.callee_of(t))]
    okw = len(waits) == 1
    if okw:
        wexp = norm(b.expand(norm(b.call_args(waits[0][1])[0])))
        okw = wexp == wgs[0][2][0] or mentions(wgs[0], wexp)
        if fl.name == "async":
            # the future is awaited
            res = norm(b.call_expr(waits[0][1], True))
            okw = okw and any(is_call(norm(b.call_args(t)[0]), "wait") or norm(b.call_args(t)[0]) == res for bi, t in calls_to(b, "IntoFuture::into_future"))

        def lab(bi, t):
            if t is waits[0][1]:
                return "wait"
            if t is st_:
                return "send"
            return None
        outs, at = props_cache.count_paths(b, lab)
        for s_, cnt in outs:
            if not cnt.get("send"):
                continue
            es = expand_state(b, s_, hist=True)
            # a path that propagates an error with `?` (the request could not be sent) has nothing to wait for
            if any(a[0] == "variant" and a[2] == "Break" and v and is_call(a[1], "branch") for a, v in es.lits):
                continue
            # ... and so has one that tests the send's result itself (`if let Err(e) = tx.send(..) { return Err(..) }`)
            if any(a[0] == "variant" and ((a[2] == "Err" and v) or (a[2] == "Ok" and v is False)) and any(is_call(c, "send") or is_call(c, "Sender::send") for c in calls_in(a[1])) for a, v in es.lits):
                continue
            closed_after = any(is_closed_lit(a) and v for a, v in es.lits)
            if not cnt.get("wait") and not closed_after:
                okw = False
    rep.check(okw, rule, fl, b, "waits for the processor", "after a successful request clear() returns only through wg.wait() on the request's group (or because the cache was closed meanwhile)",
              "clear() can return before the processor has carried out the clear: an insert made right after clear() is then discarded by the drain, and len()/metrics are not yet reset")
    # processor side
    h = clear_handler(fl)
    cc = calls_to(h, fl.cleaner + "::clean")
    pc = calls_to(h, fl.policy + "::clear")
    sc = calls_to(h, SM + "::clear")
    mc = calls_to(h, "metrics::Metrics::clear")
    ok = len(cc) == 1 and len(pc) == 1 and len(sc) == 1 and len(mc) == 1
    if ok:
        errs = err_exit_blocks(h)
        # the handler does all four unless the request or the drain failed
        for x in (cc, pc, sc, mc):
            ok = ok and must_pass_through(h, [x[0][0]] + errs)
        ok = ok and norm(h.call_args(pc[0][1])[0]) == norm(F(V("self"), "policy")) and norm(h.call_args(sc[0][1])[0]) == norm(F(V("self"), "store")) \
            and norm(h.call_args(mc[0][1])[0]) == norm(F(V("self"), "metrics"))
        # the drain precedes the resets: a New item still buffered is reported through on_evict and not re-inserted afterwards
        ok = ok and all(block_dominates(h, cc[0][0], x[0][0]) for x in (pc, sc, mc))
    rep.check(ok, rule, fl, h, "drain + policy/store/metrics", "the processor serves a clear request by draining the insert buffer and then resetting policy, store and metrics (every path on which the request and the drain succeeded)",
              "the clear handler does not drain and reset policy, store and metrics (clean=%d policy=%d store=%d metrics=%d)" % (len(cc), len(pc), len(sc), len(mc)))
    if not ok:
        return
    # release discipline: nothing releases the requester before the last reset
    work = [x[0][0] for x in (cc, pc, sc, mc)]
    early = []
    for bi, t, l, states in props_values.live_drops(fl, h, pred=_is_signal_ty):
        if any(w in h.reachable(bi) and w != bi for w in work):
            early.append("drop(%s) at line %d" % (h.local_name.get(l, "_%d" % l), t["sp"]["l"]))
    for bi, t in h.calls():
        c = h.callee_of(t)
        if callee_matches(c, "WaitSignal::done") or callee_matches(c, "WaitGroup::done") or callee_matches(c, "AsyncWaitGroup::done") or callee_matches(c, "mem::drop"):
            if any(w in h.reachable(bi) and w != bi for w in work):
                early.append("%s at line %d" % (short(c), t["sp"]["l"]))
    sigl = [i for i, l in enumerate(h.locals) if _is_signal_ty(l["ty"])]
    rep.check(not early and bool(sigl), rule, fl, h, "release after the resets", "the request's release token stays alive until policy, store and metrics are reset (%d token locals)" % len(sigl),
              "the requester is released before the clear is complete (%s): clear() returns while the processor is still draining / resetting" % ", ".join(early))
    # one request, one release: the handler does not take further requests off clear_rx (a request that queued up
    # behind this one was made after this pass drained the buffer - releasing it here lets its caller go while the
    # inserts it made before calling clear() are still to be applied)
    extra = []
    for x in descendants(facts, h):
        if user_code(x):
            extra += [show(ch) for bi_, t_, ch in recv_sites(x) if ch == norm(F(V("self"), "clear_rx"))]
            extra += [h.callee_of(t_).split("::")[-1] for bi_, t_ in x.calls()
                      if re.search(r"Receiver::(is_empty|len|is_full)$", x.callee_of(t_) or "") and norm(x.call_args(t_)[0]) == norm(F(V("self"), "clear_rx"))]
    rep.check(not extra, rule, fl, h, "serves its own request only", "the clear handler neither receives from nor looks at clear_rx: each request is served by its own pass",
              "the clear handler also reads clear_rx (%s): a request queued behind the one being served is released (or skipped) without a pass of its own" % ", ".join(extra))
    # the processor loop hands the received request to the handler
    sp = facts.body(fl.processor + "::spawn")
    arm = None
    for x in descendants(facts, sp):
        if user_code(x):
            for bi, t in calls_to(x, fl.processor + "::handle_clear_event"):
                arm = (x, bi, t)
    ok = arm is not None
    if ok:
        x, bi, t = arm
        a = norm(x.expand(norm(x.call_args(t)[1])))
        rxs = [ch for _, _, ch in recv_sites(x)]
        has_rx = any(ch == norm(F(V("self"), "clear_rx")) for ch in rxs)
        # sync: the argument is the select's receive on clear_rx; async: futures::select! routes the
        # received value through its private result enum, whose payload type (Result<WaitSignal, _>)
        # is unique to this arm -- the argument must be that payload, not a locally built token
        ok = has_rx and (mentions(a, norm(F(V("self"), "clear_rx"))) or (fl.name == "async" and a[0] == "field" and a[1][0] == "downcast"))
    rep.check(ok, rule, fl, sp, "clear arm", "the processor loop's clear arm passes the request it received on clear_rx to handle_clear_event", "the processor loop does not hand the received clear request to handle_clear_event")


def check_clear_release(rep, fl, rule="R11.4"):
    """A clear request that is never served must still release its requester."""
    facts = fl.facts
    b = fl.cache_fn("clear")
    ok, why = signal_type_releases_on_drop(fl, "WaitSignal")
    rep.check(ok, rule, fl, "WaitSignal", "request token released on drop", why, "%s: a clear request that is destroyed unserved leaves clear() blocked forever" % why)
    check_drained_on_stop(rep, fl, rule, "clear_rx", "clear request")
    if fl.name != "async":
        check_recheck_closed(rep, fl, rule, "clear", "clear_tx")

def check_policy_clear(rep, fl, rule="R11.2"):
    """policy.clear() clears the estimator and the charges on every path (no `nothing to do` shortcut: the
    estimator has recorded lookups of keys that were never admitted)."""
    pb = fl.policy_fn("clear")
    ac = calls_to(pb, "policy::TinyLFU::clear")
    cc = calls_to(pb, "policy::SampledLFU::clear")
    lk = calls_to(pb, "Mutex::lock")
    ok = len(ac) == 1 and len(cc) == 1 and len(lk) == 1 and must_pass_through(pb, [ac[0][0]]) and must_pass_through(pb, [cc[0][0]]) and block_dominates(pb, lk[0][0], ac[0][0])
    rep.check(ok, rule, fl, pb, "admit + costs", "policy.clear() clears the estimator and the charges under the lock", "policy.clear() does not clear both the estimator and the charges")


def check_clear_parts(rep, fl, rule="R11.1"):
    facts = fl.facts
    # R11.2 policy.clear, store.clear
    check_policy_clear(rep, fl)
    # one pass over self.shards, every round clears write(shard) (`for_each` closure or `for` loop)
    sb = facts.body(SM + "::clear")
    it = single_iteration(facts, sb)
    ok = it is not None and iterates(it, F(V("self"), "shards"))
    if ok:
        cl = [(x, tt) for x, tt, m in props_store.map_calls(it.body, props_store.SHARD_TY, "clear") if x in it.region]
        ok = len(cl) == 1 and it.every_round([cl[0][0]])
        if ok:
            g = it.indexed(it.body.call_args(cl[0][1])[0])
            ok = is_call(g, "RwLock::write") and norm(g[2][0]) == ("index", norm(F(V("self"), "shards")), ("elem",))
    rep.check(ok, "R11.2", fl, sb, "all shards", "store.clear() clears every shard under its write lock", "store.clear() does not clear every shard")


def check_C11(rep, fl):
    check_clear(rep, fl)
    check_clear_parts(rep, fl)
    check_clear_release(rep, fl)
    check_cleaner(rep, fl)
    check_clear_affinity(rep, fl, rule="R11.3")
    props_store.check_sweeper(rep, fl)
    import props_cache
    # clear() on any handle empties the one cache: clones share the parts that are reset and the request channel
    props_cache.check_handle_sharing(rep, fl, fields=("clear_tx", "store", "policy", "metrics"))
    # "all metrics counters restart from zero": what clear() zeroes is everything there is
    props_store.keep_sites(rep, fl, props_cache.check_metrics_core, ("clear zeroes everything", "forwards", "lists every MetricType", "map from array", "installed once"))
    import props_policy
    # "the charged cost is zero": SampledLFU::clear leaves used == sum(key_costs) == 0 (the other writers are C01's)
    props_store.keep_sites(rep, fl, props_policy.check_balance, ("*SampledLFU::clear|*",), props_policy.slfu_writers(fl.facts))
    import props_sketch
    # the estimator is emptied by TinyLFU::clear (how it ages between clears is C13's)
    props_store.keep_sites(rep, fl, props_sketch.check_tinylfu, ("clear",))
    props_sketch.check_reset_complete(rep, fl, "R11.2", only=("policy::SampledLFU",))
    props_sketch.check_policy_reset(rep, fl, "R11.2")
    # "keys re-used after the clear with a different TTL or none": clear() leaves the expiry index as it is, so a key
    # that is filed again must replace what the index still holds for it (key -> conflict, overwritten, not kept)
    props_store.check_em_insert(rep, fl)


# ----------------------------------------------------------------------------------------
# C06
# ----------------------------------------------------------------------------------------

MEMBERSHIP = None


def check_contexts(rep, fl, rule="R06.1"):
    facts = fl.facts
    ctx, cg, roots = contexts(fl)
    targets = {
        fl.policy + "::add": {"processor"}, fl.policy + "::update": {"processor"}, fl.policy + "::remove": {"processor"},
        SM + "::try_insert": {"processor"}, fl.cleanup: {"processor"},
    }
    for callee, allowed in sorted(targets.items()):
        bad = []
        n = 0
        for b, bi, t in call_sites_in_crate(facts, callee):
            cs = ctx.get(id(b), set())
            if not cs:
                continue
            n += 1
            if not cs <= allowed:
                bad.append((b.spath, sorted(cs)))
        rep.check(not bad and n >= 1, rule, fl, callee, "thread context", "%s is called only on the %s (%d sites)" % (short(callee), "/".join(sorted(allowed)), n),
                  "%s is called in context %s: membership of store/policy changes outside the processor are not ordered with handle_item" % (short(callee), bad))
    # store.try_remove: processor, or client try_remove paired with a queued Delete (R06.3)
    bad = []
    for b, bi, t in call_sites_in_crate(facts, SM + "::try_remove"):
        cs = ctx.get(id(b), set())
        r = strip_generics(b.raw["root"])
        if "client" in cs and r != fl.cache + "::try_remove" and not r.startswith(SM):
            bad.append(r)
    rep.check(not bad, rule, fl, SM + "::try_remove", "thread context", "store.try_remove runs on the processor, or in client try_remove (paired with a queued Delete)", "store.try_remove is called from client code in %s" % bad)
    check_clear_affinity(rep, fl, rule)


def check_clear_affinity(rep, fl, rule="R06.1", callees=None):
    """policy.clear / store.clear must run in processor context (or under a handshake that parks
    the processor): otherwise an item handled between the two resets, or a handle_item that is
    between its own policy.add and store.try_insert, leaves store and policy disagreeing."""
    facts = fl.facts
    ctx, cg, roots = contexts(fl)
    for callee in (callees or (fl.policy + "::clear", SM + "::clear")):
        for b, bi, t in call_sites_in_crate(facts, callee):
            cs = ctx.get(id(b), set())
            if not cs:
                continue
            r = strip_generics(b.raw["root"])
            if fl.name == "sync" and "r#async" in r or fl.name == "async" and "::sync::" in r:
                continue
            ok = cs <= {"processor"}
            rep.check(ok, rule, fl, r, "%s on client thread" % short(callee), "%s runs on the processor" % short(callee),
                      ("%s is executed by the calling (client) thread in %s, concurrently with the processor's handle_item: " % (short(callee), short(r))) +
                      ("what the processor counts for an item it applies meanwhile is wiped although the entry stays charged" if callees else
                       "an item applied between policy.clear() and store.clear() (or a handle_item between its policy.add and store.try_insert) ends up charged-but-not-resident or resident-but-uncharged after clear()"), loc=t["sp"])


def check_handle_item_pairing(rep, fl, rule="R06.2", collisions=True, only_sites=None):
    if only_sites is not None:
        # a property that rests on some of the pairings only (C02: what makes a removed or refused value
        # unreachable; not what happens to the policy's victims)
        from framework import Report
        tmp = Report(rep.prop, rep.tier)
        try:
            check_handle_item_pairing(tmp, fl, rule, collisions)
        finally:
            rep.instances.extend(i for i in tmp.instances if i.site in only_sites or i.verdict == "anchor-missing")
            rep.notes.extend(tmp.notes)
        return
    facts = fl.facts
    hi = facts.flat(fl.proc_fn("handle_item"))   # `for victim in victims` and `victims.into_iter().try_for_each(..)` alike
    at, entry = dataflow(hi)
    adds = calls_to(hi, fl.policy + "::add")
    ins = calls_to(hi, SM + "::try_insert")
    if len(adds) != 1 or len(ins) != 1:
        rep.missing(rule, fl, "handle_item: policy.add / store.try_insert call sites (%d/%d)" % (len(adds), len(ins)))
        return
    added = ("field", norm(hi.call_expr(adds[0][1], True)), "1")
    victims = ("field", norm(hi.call_expr(adds[0][1], True)), "0")
    good, cx = all_states(hi, at, (ins[0][0], term_idx(hi, ins[0][0])), A(added), hist=True)
    a = [norm(x) for x in hi.call_args(ins[0][1])]
    okargs = a[1] == item_field("New", "key") and a[2] == item_field("New", "value") and a[3] == item_field("New", "conflict") and a[4] == item_field("New", "expiration")
    rep.check(good, "R02.6", fl, hi, "try_insert only if added", "store.try_insert only on the added edge of policy.add for the same key",
              "store.try_insert is reachable without `added`: an entry becomes resident without being charged", loc=ins[0][1]["sp"])
    rep.check(okargs, "R02.6", fl, hi, "try_insert args", "store.try_insert is given the item's own (key, value, conflict, expiration)",
              "store.try_insert is called with other arguments than the item's (key, value, conflict, expiration): %s" % ", ".join(show(x) for x in a[1:]), loc=ins[0][1]["sp"])
    # added => inserted
    ok = False
    for bi in hi.live_blocks():
        t = hi.term(bi)
        if t and t["k"] == "switch":
            for tgt, atom, pol in edge_literals(hi, bi):
                if atom is not None and norm(hi.expand(atom)) == added and pol is True:
                    ok = must_pass_through(hi, [ins[0][0]], from_bi=tgt)
    rep.check(ok, rule, fl, hi, "added => try_insert", "every admitted New item is inserted into the store", "an admitted (charged) item can skip store.try_insert: a charge without entry")
    # victims: every element => store.try_remove(victim.key, 0)
    trs = calls_to(hi, SM + "::try_remove")
    vic_rm = None
    del_rm = None
    for bi, t in trs:
        a = [norm(x) for x in hi.call_args(t)]
        if a[1] == item_field("Delete", "key"):
            del_rm = (bi, t, a)
        elif a[1][0] == "field" and a[1][2] == "key" and hi.in_loop(bi):
            vic_rm = (bi, t, a)
    # the handler removes from the store for these two reasons only; any other removal (in particular one with the
    # wildcard conflict 0 for a key that is not a victim) takes out whatever lives under that index, whoever owns it
    others = [(bi, t) for bi, t in trs if (del_rm is None or t is not del_rm[1]) and (vic_rm is None or t is not vic_rm[1])]
    rep.check(not others, rule, fl, hi, "store removals: Delete and victims only", "the processor removes store entries for a Delete (conflict-checked) and for the policy's victims only",
              "the processor also removes store entries at %s: an entry of another key that shares the index can be taken out" % ", ".join(
                  "try_remove(%s)" % ", ".join(show(norm(x)) for x in hi.call_args(t)[1:]) for bi, t in others), loc=others[0][1]["sp"] if others else None)
    ok = vic_rm is not None
    if ok:
        # one iteration over the victim vector returned by add (a `for` loop, for_each or try_for_each alike); in
        # every round the element's key is removed from the store with the wildcard conflict 0
        its = [i_ for i_ in iterations(hi) if mentions(i_.origin(), victims)]
        ok = len(its) == 1
        if ok:
            it_ = its[0]
            ok = it_.canon(hi.call_args(vic_rm[1])[1]) == ("field", ("elem",), "key") and vic_rm[2][2] == ("const", 0, "u64") and \
                vic_rm[0] in it_.region and must_pass_through(hi, [vic_rm[0]], from_bi=it_.some)
    rep.check(ok, rule, fl, hi, "victim => try_remove(victim.key, 0)", "every victim returned by policy.add is removed from the store", "a victim evicted by the policy is not removed from the store: an entry stays resident without charge")
    # the victim list is looked at on *every* path after policy.add, admitted or not: add() can
    # return victims together with `added == false` (it evicts one by one and rejects later)
    vic_switch = []
    some_edges = []
    for bi in hi.live_blocks():
        t = hi.term(bi)
        if t and t["k"] == "switch":
            for tgt, atom, pol in edge_literals(hi, bi):
                if atom is not None and atom[0] == "variant" and norm(hi.expand(atom[1])) == victims:
                    vic_switch.append(bi)
                    if atom[2] == "Some":
                        some_edges.append(tgt)
    if not vic_switch:
        # `for victim in victim_sets.into_iter().flatten()`: the loop itself looks at the list (no rounds for None)
        for it_ in iterations(hi):
            if mentions(it_.origin(), victims):
                vic_switch.append(it_.nbi)
                some_edges.append(it_.some)
    errs = err_exit_blocks(hi)
    okv = bool(vic_switch) and must_pass_through(hi, vic_switch + errs, from_bi=adds[0][0])
    if okv and vic_rm is not None:
        okv = all(must_pass_through(hi, [vic_rm[0]] + errs + _loop_exits(hi, vic_rm[0]), from_bi=tgt) for tgt in some_edges)
    rep.check(okv, rule, fl, hi, "victims inspected on every path", "after policy.add the victim list is inspected whether or not the item was admitted",
              "a path from policy.add to the return skips the victim list (e.g. an early return on rejection): add() may have evicted victims before rejecting, and they stay resident but uncharged",
              loc=adds[0][1]["sp"])
    # Delete arm
    prm = calls_to(hi, fl.policy + "::remove")
    ok = del_rm is not None and len(prm) == 1
    if ok:
        a = [norm(x) for x in hi.call_args(prm[0][1])]
        ok = a[1] == item_field("Delete", "key") and del_rm[2][2] == item_field("Delete", "conflict")
        for bi in hi.live_blocks():
            t = hi.term(bi)
            if t and t["k"] == "switch":
                for tgt, atom, pol in edge_literals(hi, bi):
                    if atom is not None and atom[0] == "variant" and atom[2] == "Delete" and atom[1] == V("item"):
                        ok = ok and must_pass_through(hi, [prm[0][0]], from_bi=tgt) and must_pass_through(hi, [del_rm[0]], from_bi=tgt)
    rep.check(ok, rule, fl, hi, "Delete => policy.remove + store.try_remove", "a Delete item releases the charge and removes the entry for (key, conflict)", "the Delete arm does not pair policy.remove(key) with store.try_remove(key, conflict)")
    if not collisions:
        return
    # F10: the un-charge must not be broader than the removal
    if prm and del_rm:
        sts = [expand_state(hi, s, hist=True) for s in at.get((prm[0][0], term_idx(hi, prm[0][0])), set())]
        cond = all(any(a[0] == "variant" and a[2] == "Some" and v and any(is_call(c, SM + "::try_remove") for c in calls_in(a[1])) for a, v in s.lits) for s in sts) and sts
        rep.check(bool(cond), rule, fl, hi, "Delete: un-charge conditional on conflict-checked removal",
                  "the charge is released only when the conflict-checked store removal found the entry",
                  "policy.remove(key) is unconditional while store.try_remove(key, conflict) is conflict-checked: with two keys sharing an index hash, remove(B) releases the charge of resident A "
                  "(A stays resident but uncharged, len()==1 while keys_added-keys_evicted==0)", loc=prm[0][1]["sp"])
    # F10 (New): policy.add may re-charge an existing index without any conflict information
    pol_add = fl.policy_fn("add")
    upd = calls_to(pol_add, "policy::SampledLFU::update")
    look = [t for bi, t in hi.calls() if hi.callee_of(t).startswith(SM + "::") and block_dominates(hi, bi, adds[0][0]) and bi != adds[0][0]]
    rep.check(not upd or bool(look), rule, fl, hi, "New: re-charge of an existing index without conflict check",
              "policy.add cannot modify the charge of another key's entry",
              "handle_item(New) calls policy.add(key, cost) without consulting the store's conflict hash, and add() updates the charge of an already-charged index in place: "
              "with two keys sharing an index hash, insert(B) overwrites resident A's charged cost (and B is reported rejected)", loc=adds[0][1]["sp"])


def _loop_exits(body, inside_bi):
    """Blocks outside the loop containing inside_bi that are direct successors of it (the loop's
    normal exits): reaching them means the iteration finished."""
    loop = {b for b in body.live_blocks() if inside_bi in body.reachable(b) and b in body.reachable(inside_bi)}
    out = []
    for b in loop:
        for s2 in body.succs(b):
            if s2 not in loop:
                out.append(s2)
    return out


def check_remove_pair(rep, fl, rule="R06.3"):
    facts = fl.facts
    b = fl.cache_fn("try_remove")
    (bkb, bkt), bke, index, conflict = __import__("props_cache").build_key_of(b)
    sr = calls_to(b, SM + "::try_remove")
    ss = [(bi, t, ch, pay) for bi, t, ch, pay in send_sites(b) if ch == norm(F(V("self"), "insert_buf_tx"))]
    ok = len(sr) == 1 and len(ss) == 1
    if ok:
        a = [norm(x) for x in b.call_args(sr[0][1])]
        pay = ss[0][3]
        cf = ctor_fields(facts, pay)
        ok = a[1] == index and a[2] == conflict and cf is not None and cf[0].endswith("Item::Delete") and cf[1].get("key") == index and cf[1].get("conflict") == conflict
        ok = ok and block_dominates(b, sr[0][0], ss[0][0])
        # every not-closed, error-free path sends the Delete
        errs = err_exit_blocks(b)
        for bi in b.live_blocks():
            t = b.term(bi)
            if t and t["k"] == "switch":
                for tgt, atom, pol in edge_literals(b, bi):
                    if atom is not None and is_closed_lit(norm(b.expand(atom))) and pol is False:
                        ok = ok and must_pass_through(b, [ss[0][0]] + errs, from_bi=tgt) and must_pass_through(b, [sr[0][0]], from_bi=tgt)
    if len(ss) == 1:
        st = ss[0][1]
        nonblocking = callee_matches(b.callee_of(st), "Sender::try_send")
        propagated = False
        if nonblocking:
            res = norm(b.call_expr(st, True))
            for bi2, t2 in b.calls():
                if callee_matches(b.callee_of(t2), "Try::branch") and mentions(norm(b.call_args(t2)[0]), res):
                    propagated = True
        rep.check((not nonblocking) or propagated, rule, fl, b, "Delete marker cannot be lost silently",
                  "the Delete marker is sent with a blocking / awaited send (or the failure of a non-blocking send is returned to the caller)",
                  "the Delete marker is sent with try_send and its failure is ignored: with a full insert buffer the entry is removed from the store but the policy keeps "
                  "charging it (and an earlier buffered set of the key is applied afterwards)", loc=st["sp"])
    rep.check(ok, rule, fl, b, "store.try_remove then Delete{index, conflict}", "remove() deletes from the store at once and queues Delete for the same (index, conflict) on the insert buffer",
              "try_remove does not pair the immediate store removal with a queued Delete of the same (index, conflict)")
    # the removed value goes to on_exit
    fb_ = fl.facts.flat(b)   # the call may sit in a closure (`.map(|prev| on_exit(..))`, a callback handed to a helper)
    ex = calls_to(fb_, "CacheCallback::on_exit")
    ok = len(ex) == 1
    if ok:
        a = [resolve_payloads(fb_, fb_.expand(norm(x))) for x in fb_.call_args(ex[0][1])]
        ok = a[1][0] == "agg" and a[1][2].endswith("Option::Some") and is_call(a[1][3][0], "SharedValue::into_inner") and any(is_call(c, SM + "::try_remove") for c in calls_in(a[1]))
    rep.check(ok, "R08.2", fl, b, "removed => on_exit", "the value taken out by remove() is handed to on_exit", "remove() does not hand the removed value to on_exit")


def check_no_err_between(rep, fl, rule="R06.5"):
    facts = fl.facts
    res, reason = may_err(facts)
    for f in (SM + "::try_insert", SM + "::try_remove", SM + "::try_update"):
        rep.check(res.get(f) is False, rule, fl, f, "infallible", "%s cannot return Err: no `?` between a policy change and its paired store change can fire" % short(f),
                  "%s can now fail (%s): the `?` after it in handle_item leaves policy and store out of step" % (short(f), reason.get(f, "")))


def check_C06(rep, fl):
    check_contexts(rep, fl)
    # the policy side of the pairings: a key is charged only by add() (never a key that is not being stored), and
    # every key add() un-charges is reported in the victim list (so that the processor removes its entry)
    import props_policy
    props_store.keep_rules(rep, fl, props_policy.check_C01, {"R01.3"})
    props_store.keep_rules(rep, fl, props_policy.check_C07, {"R07.6", "R07.3"})   # (R07.3: candidates are charged keys: the pool is refilled from key_costs on every call)
    # entries leave the store, and charges are released, only at the audited removal sites (each of which does both)
    props_store.check_removal_inventory(rep, fl)
    check_handle_item_pairing(rep, fl)
    check_remove_pair(rep, fl)
    check_no_err_between(rep, fl)
    props_store.check_sweeper(rep, fl)
    props_store.check_selectors(rep, fl, rule="R02.1")
    check_clear(rep, fl, rule="R06.4")
    # an admitted (charged) entry is really stored: store.try_insert inserts whenever the key is absent
    props_store.check_store_writes(rep, fl)
