"""Canonicalisation of bodies before the rules look at them (facts level, no execution).

Two transformations on the raw MIR-as-JSON bodies, both purely structural splices:

1. inline_function_calls: a call to a crate-local function chosen by `should_inline` is replaced
   by the callee's blocks (locals and blocks renumbered, arguments assigned to the callee's
   parameter locals, every `return` turned into `dest = _0; goto call-target`).  Used for helper
   functions that do not exist in the reference list of function names (engine/known_fns.txt): a
   maintainer who extracts a few statements into a new private helper leaves the flattened caller
   as it was.  Parameters of an inlined helper lose their debug names, so they expand to the
   argument expressions.

2. desugar_combinators: a call of an eager std combinator with a closure literal argument
   (Option/Result::map, map_err, and_then, map_or, map_or_else, unwrap_or_else, Iterator::for_each,
   all, any, ...) is replaced by the explicit control flow the combinator stands for, with the
   closure body spliced in (captured variables rewritten to the caller's places).  `x.map(|c| ..)`
   and `if let Some(c) = x { .. }`, `it.for_each(|e| ..)` and `for e in it { .. }` then have the same
   shape: a switch on the discriminant / a loop around Iterator::next.

Neither changes what a body computes; both only change where the statements are written down."""
import copy
import os
import re

VERIF = os.path.dirname(os.path.dirname(os.path.abspath(__file__)))

TERM_TARGET_KEYS = ("t", "uw", "o", "imag", "drop")


def is_place(d):
    return isinstance(d, dict) and len(d) == 2 and "l" in d and "p" in d


_IDX = re.compile(r"^\[_(\d+)\]$")


def remap_proj(p, lmap):
    """Index projections `[_N]` name a local."""
    out = []
    for e in p:
        m = _IDX.match(e) if isinstance(e, str) else None
        out.append("[_%d]" % lmap(int(m.group(1))) if m else e)
    return out


def remap_node(node, lmap, pmap=None):
    """Deep copy with locals renumbered (lmap: int -> int) and, optionally, whole places rewritten
    (pmap: place dict -> place dict or None)."""
    if isinstance(node, list):
        return [remap_node(x, lmap, pmap) for x in node]
    if isinstance(node, dict):
        if is_place(node):
            if pmap is not None:
                r = pmap(node)
                if r is not None:
                    return r
            return {"l": lmap(node["l"]), "p": remap_proj(node["p"], lmap)}
        out = {}
        k = node.get("k")
        for key, v in node.items():
            if key in ("sp", "fsp"):
                out[key] = v
            elif k in ("live", "dead") and key == "l":
                out[key] = lmap(v)
            else:
                out[key] = remap_node(v, lmap, pmap)
        return out
    return node


def remap_term_targets(t, bmap):
    if t is None:
        return None
    for key in TERM_TARGET_KEYS:
        if key in t and t[key] is not None and isinstance(t[key], int):
            t[key] = bmap(t[key])
    if "tg" in t:
        t["tg"] = [[v, bmap(b)] for v, b in t["tg"]]
    return t


def generic_args(ty):
    """Top-level generic arguments of a type string: Option<(u64, Item<V>)> -> ['(u64, Item<V>)']."""
    if "<" not in ty:
        return []
    inner = ty[ty.index("<") + 1: ty.rindex(">")]
    parts, d, cur = [], 0, ""
    for ch in inner:
        if ch in "<([":
            d += 1
        elif ch in ">)]":
            d -= 1
        if ch == "," and d == 0:
            parts.append(cur.strip())
            cur = ""
        else:
            cur += ch
    if cur.strip():
        parts.append(cur.strip())
    return parts


class Splicer:
    """Mutable view of a raw body being rewritten."""

    def __init__(self, raw):
        self.raw = raw
        self.locals = raw["locals"]
        self.blocks = raw["blocks"]
        self.debug = raw["debug"]

    def new_local(self, ty, user=False):
        self.locals.append({"ty": ty, "mut": True, "user": user})
        return len(self.locals) - 1

    def new_block(self, stmts=None, term=None):
        self.blocks.append({"cleanup": False, "stmts": stmts or [], "term": term})
        return len(self.blocks) - 1

    def splice_body(self, callee_raw, sp, env_rewrite=None, keep_param_names=False):
        """Append a renumbered copy of callee_raw's locals and blocks.  Returns (local offset,
        block offset, [return block indices]).  `return` terminators are left in place for the
        caller to patch.  env_rewrite: optional place rewriter applied to the callee's places
        *before* renumbering (used for closure environments)."""
        loff = len(self.locals)
        boff = len(self.blocks)
        for l in callee_raw["locals"]:
            self.locals.append(dict(l))

        def lmap(i):
            return loff + i

        def bmap(i):
            return boff + i
        for d in callee_raw["debug"]:
            if "pl" not in d:
                continue
            if d.get("arg") is not None and not keep_param_names and not d["pl"]["p"]:
                continue
            if d["pl"]["p"] and env_rewrite is not None and d["pl"]["l"] == 1:
                continue  # upvar debug entries of a spliced closure
            nd = dict(d)
            nd["pl"] = {"l": lmap(d["pl"]["l"]), "p": list(d["pl"]["p"])}
            nd["arg"] = None
            self.debug.append(nd)
        rets = []
        for i, bb in enumerate(callee_raw["blocks"]):
            nb = {"cleanup": bb["cleanup"], "stmts": remap_node(bb["stmts"], lmap, env_rewrite), "term": None}
            t = bb["term"]
            if t is not None:
                nt = remap_node(t, lmap, env_rewrite)
                remap_term_targets(nt, bmap)
                nb["term"] = nt
                if nt["k"] == "return" and not bb["cleanup"]:
                    rets.append(boff + i)
            self.blocks.append(nb)
        return loff, boff, rets


def assign(pl, rv, sp):
    return {"k": "assign", "pl": pl, "rv": rv, "sp": sp}


def P(l, *proj):
    return {"l": l, "p": list(proj)}


def use(op):
    return {"k": "use", "op": op}


def mv(pl):
    return {"k": "move", "pl": pl}


def cp(pl):
    return {"k": "copy", "pl": pl}


def goto(t, sp):
    return {"k": "goto", "t": t, "sp": sp}


# ----------------------------------------------------------------------------------------
# 1. function inlining
# ----------------------------------------------------------------------------------------

def inline_function_calls(raw, lookup, should_inline, max_rounds=6):
    """lookup(resolved path) -> callee raw body or None.  Returns (new raw, [inlined callee paths])."""
    raw = copy.deepcopy(raw)
    sp_ = Splicer(raw)
    done = []
    for _ in range(max_rounds):
        changed = False
        for bi in range(len(sp_.blocks)):
            bb = sp_.blocks[bi]
            t = bb["term"]
            if bb["cleanup"] or not t or t["k"] != "call":
                continue
            path = t.get("resolved") or t.get("callee")
            if not t.get("rlocal") and not t.get("local"):
                continue
            callee = lookup(path)
            if callee is None or callee is raw or callee["path"] == raw["path"] or not should_inline(callee):
                continue
            if callee.get("coroutine"):
                continue
            # an `async fn` body in MIR is only the shell that builds the coroutine value: splicing it
            # leaves `coroutine<callee::{closure#0}>[captures]` in the caller, as an `async move` block would
            if len(t["args"]) != callee["arg_count"]:
                continue
            loff, boff, rets = sp_.splice_body(callee, t["sp"])
            for i, a in enumerate(t["args"]):
                bb["stmts"].append(assign(P(loff + 1 + i), use(a), t["sp"]))
            for rb in rets:
                rblk = sp_.blocks[rb]
                rblk["stmts"].append(assign(copy.deepcopy(t["dest"]), use(mv(P(loff))), t["sp"]))
                rblk["term"] = goto(t["t"], t["sp"]) if t["t"] is not None else {"k": "unreachable", "sp": t["sp"]}
            bb["term"] = goto(boff, t["sp"])
            done.append(callee["path"])
            changed = True
        if not changed:
            break
    return raw, done


# ----------------------------------------------------------------------------------------
# 2. combinator desugaring
# ----------------------------------------------------------------------------------------

OPTION = "std::option::Option"
RESULT = "std::result::Result"

# callee (generics stripped) -> template name
COMBINATORS = {
    "std::option::Option::map": "opt_map",
    "std::option::Option::and_then": "opt_and_then",
    "std::option::Option::map_or": "opt_map_or",
    "std::option::Option::map_or_else": "opt_map_or_else",
    "std::option::Option::unwrap_or_else": "opt_unwrap_or_else",
    "std::option::Option::ok_or_else": "opt_ok_or_else",
    "std::result::Result::map": "res_map",
    "std::result::Result::map_err": "res_map_err",
    "std::result::Result::and_then": "res_and_then",
    "std::result::Result::map_or": "res_map_or",
    "std::result::Result::map_or_else": "res_map_or_else",
    "std::result::Result::unwrap_or_else": "res_unwrap_or_else",
    "std::result::Result::is_ok_and": "res_is_ok_and",
    "std::option::Option::is_some_and": "opt_is_some_and",
    "std::option::Option::unwrap_or": "opt_unwrap_or",
    "std::result::Result::unwrap_or": "res_unwrap_or",
    "std::option::Option::copied": "opt_copied",
    "std::option::Option::cloned": "opt_copied",
    "std::iter::Iterator::for_each": "for_each",
    "std::iter::Iterator::all": "iter_all",
    "std::iter::Iterator::any": "iter_any",
    "std::iter::Iterator::fold": "iter_fold",
    "std::iter::Iterator::sum": "iter_sum",
    "std::iter::Iterator::try_for_each": "iter_try_for_each",
    "core::slice::::fill": "slice_fill",
    "core::slice::fill": "slice_fill",
}


def strip_generics_simple(s):
    out, d = "", 0
    for ch in s:
        if ch == "<":
            d += 1
        elif ch == ">":
            d -= 1
        elif d == 0:
            out += ch
    return out.replace("::::", "::")


def combinator_of(t):
    c = t.get("callee", "")
    n = strip_generics_simple(c)
    if n in COMBINATORS:
        return COMBINATORS[n]
    # `<std::slice::Iter<'a, T> as std::iter::Iterator>::for_each` and friends
    if re.search(r"(^|::)ops::(function::)?FnOnce::call_once$", n) or re.search(r"^<.* as (std|core)::ops::(function::)?FnOnce<.*>>::call_once$", c):
        return "fn_call_once"
    m = re.match(r"^<.* as std::iter::Iterator>::(for_each|all|any|fold|sum|try_for_each)$", c)
    if m:
        return {"for_each": "for_each", "all": "iter_all", "any": "iter_any", "fold": "iter_fold", "sum": "iter_sum", "try_for_each": "iter_try_for_each"}[m.group(1)]
    return None


def combinator_call_name(t):
    """'map' for a call of Iterator::map (trait or adaptor path), else None."""
    c = t.get("callee", "") if isinstance(t, dict) else ""
    if strip_generics_simple(c) == "std::iter::Iterator::map" or re.match(r"^<.* as std::iter::Iterator>::map$", c):
        return "map"
    return None


def find_closure_agg(raw, local):
    """The unique `local = closure<def>[captures]` assignment, or None."""
    found = None
    for bb in raw["blocks"]:
        if bb["cleanup"]:
            continue
        for st in bb["stmts"]:
            if st["k"] == "assign" and st["pl"]["l"] == local and not st["pl"]["p"]:
                if st["rv"]["k"] == "agg" and st["rv"].get("ak") == "closure":
                    if found is not None:
                        return None
                    found = st["rv"]
                else:
                    return None
        t = bb["term"]
        if t and t["k"] == "call" and t["dest"]["l"] == local and not t["dest"]["p"]:
            return None
    return found


def closure_env_rewriter(callee_raw, captures):
    """Place rewriter for a closure body: `_1.k...` / `(*_1).k...` -> the captured operand's place."""
    def rw(pl):
        if pl["l"] != 1:
            return None
        p = list(pl["p"])
        if p and p[0] == "*":
            p = p[1:]
        if not p or not p[0].startswith("."):
            return None
        k = int(p[0][1:].split(":")[0])
        if k >= len(captures):
            return None
        cap = captures[k]
        if cap.get("k") not in ("move", "copy"):
            return None
        # marked with a negative local so that the renumbering leaves it alone (patched by the caller)
        return {"l": -1 - cap["pl"]["l"], "p": list(cap["pl"]["p"]) + [("!" + e) if isinstance(e, str) and _IDX.match(e) else e for e in p[1:]]}
    return rw


def desugar_combinators(raw, closure_lookup, max_rounds=8):
    """closure_lookup(def path) -> raw closure body or None.  Returns (new raw, n desugared)."""
    raw = copy.deepcopy(raw)
    S = Splicer(raw)
    n_done = 0
    for _ in range(max_rounds):
        changed = False
        for bi in range(len(S.blocks)):
            bb = S.blocks[bi]
            t = bb["term"]
            if bb["cleanup"] or not t or t["k"] != "call" or t["t"] is None:
                continue
            tpl = combinator_of(t)
            if tpl is None:
                continue
            if _desugar_one(S, bi, tpl, closure_lookup):
                changed = True
                n_done += 1
        if not changed:
            break
    return raw, n_done


def _single_def(S, local):
    """(bi, si, node) of the only whole-local definition of `local` in non-cleanup blocks (si == None: the call
    terminator of block bi defines it), or None."""
    found = None
    for bi, bb in enumerate(S.blocks):
        if bb["cleanup"]:
            continue
        for si, st in enumerate(bb["stmts"]):
            if st["k"] == "assign" and st["pl"]["l"] == local and not st["pl"]["p"]:
                if found is not None:
                    return None
                found = (bi, si, st)
        t = bb["term"]
        if t and t["k"] == "call" and t["dest"]["l"] == local and not t["dest"]["p"]:
            if found is not None:
                return None
            found = (bi, None, t)
    return found


def _awaited_coroutine(S, op):
    """The coroutine literal {def, fields} that the pinned future polled through operand `op` was made from:
    poll(Pin::new_unchecked(&mut *&mut fut)) with fut = into_future(coroutine { .. }) - or None."""
    cur = op
    for _ in range(12):
        if cur.get("k") not in ("move", "copy") or [e for e in cur["pl"]["p"] if e != "*"]:
            return None
        d = _single_def(S, cur["pl"]["l"])
        if d is None:
            return None
        bi, si, node = d
        if si is None:
            c = node.get("callee", "")
            if c.endswith("Pin::<Ptr>::new_unchecked") or c.endswith("IntoFuture::into_future") or c.endswith("Pin::new_unchecked"):
                cur = node["args"][0]
                continue
            return None
        rv = node["rv"]
        if rv["k"] == "agg" and rv.get("ak") == "coroutine":
            return rv
        if rv["k"] == "use":
            cur = rv["op"]
            continue
        if rv["k"] == "ref":
            cur = {"k": "move", "pl": rv["pl"]}
            continue
        return None
    return None


def inline_awaited(raw, coroutine_lookup, max_rounds=6):
    """`helper(..).await` on an async fn that a refactoring introduced: the poll of the helper's future is replaced
    by the helper's coroutine body (its own awaits keep their yields), the result wrapped in Poll::Ready, and the
    Pending side of the await loop is cut.  coroutine_lookup(def) -> raw coroutine body, or None to leave the await
    alone.  Returns (raw, number of awaits spliced)."""
    raw = copy.deepcopy(raw)
    S = Splicer(raw)
    n_done = 0
    for _ in range(max_rounds):
        changed = False
        for bi in range(len(S.blocks)):
            bb = S.blocks[bi]
            t = bb["term"]
            if bb["cleanup"] or not t or t["k"] != "call" or t["t"] is None or not t.get("callee", "").endswith("Future::poll") or len(t["args"]) != 2:
                continue
            agg = _awaited_coroutine(S, t["args"][0])
            if agg is None:
                continue
            cb = coroutine_lookup(agg["def"])
            if cb is None:
                continue
            sp = t["sp"]
            dest, cont = t["dest"], t["t"]
            # the coroutine's parameters: _1 = its environment (captures), _2 = the resume argument (task context)
            entry, loff, rets = _splice_closure(S, cb, agg["fields"], [{"k": "copy", "pl": P(2)}], sp)
            for rb in rets:
                blk = S.blocks[rb]
                blk["stmts"].append(assign(copy.deepcopy(dest), {"k": "agg", "ak": "adt", "adt": "std::task::Poll", "variant": "Ready", "fnames": ["0"], "fields": [mv(P(loff))]}, sp))
                blk["term"] = goto(cont, sp)
            bb["term"] = goto(entry, sp)
            # the await loop's `match poll { Ready(v) => .., Pending => yield }`: only Ready is left
            cb_ = S.blocks[cont]
            ct = cb_["term"]
            if ct and ct["k"] == "switch" and cb_["stmts"] and cb_["stmts"][-1]["k"] == "assign" and cb_["stmts"][-1]["rv"]["k"] == "discr" \
                    and cb_["stmts"][-1]["rv"]["pl"]["l"] == dest["l"]:
                ready = [b_ for v_, b_ in ct["tg"] if v_ == 0]
                if ready:
                    cb_["term"] = goto(ready[0], sp)
            S.raw.setdefault("inlined_awaits", []).append(cb["path"])
            changed = True
            n_done += 1
        if not changed:
            break
    return raw, n_done


def _closure_arg(S, op, closure_lookup, follow=False):
    """(closure raw body, captures) for a `move _n` operand whose single def is a closure literal (with `follow`:
    or a plain move of such a local - the parameter slot of an inlined helper)."""
    if op.get("k") == "const":
        # a function item used as the callable (`.map(shard_len)`): its body, no captures, parameters from _1
        m_ = re.search(r"\{([A-Za-z_][\w:]*?)(::<.*>)?\}$", op.get("ty") or "")
        fb_ = closure_lookup(m_.group(1)) if m_ and (op.get("ty") or "").lstrip().startswith(("fn(", "for<", "unsafe fn(", "extern")) else None
        if fb_ is None or fb_.get("coroutine") or fb_.get("defkind") not in ("Fn", "AssocFn"):
            return None
        fb_ = dict(fb_)
        fb_["_is_fn"] = True
        return fb_, []
    if op.get("k") != "move" or op["pl"]["p"]:
        return None
    l = op["pl"]["l"]
    agg = find_closure_agg(S.raw, l)
    for _ in range(4):
        if agg is not None or not follow:
            break
        d = _single_def(S, l)
        if d is None or d[1] is None:
            break
        rv = d[2].get("rv") or {}
        if rv.get("k") == "use" and rv["op"].get("k") == "move" and not rv["op"]["pl"]["p"]:
            l = rv["op"]["pl"]["l"]
            agg = find_closure_agg(S.raw, l)
        else:
            break
    if agg is None:
        return None
    cb = closure_lookup(agg["def"])
    if cb is None or cb.get("coroutine"):
        return None
    return cb, agg["fields"]


def _pty(cb, i):
    """Type of the i-th parameter of a callable body (closures keep their environment in _1)."""
    k = (1 if cb.get("_is_fn") else 2) + i
    return cb["locals"][k]["ty"] if len(cb["locals"]) > k else "_"


def _splice_closure(S, cb, captures, params, sp):
    """Splice closure body cb; params: list of operands bound to the closure's parameters
    (_2, _3, ...).  Returns (entry block, result local, [blocks that returned])."""
    S.raw.setdefault("inlined_closures", []).append(cb["path"])
    is_fn = bool(cb.get("_is_fn"))
    rw = None if is_fn else closure_env_rewriter(cb, captures)
    loff, boff, rets = S.splice_body(cb, sp, env_rewrite=rw, keep_param_names=True)
    # remap_node applied lmap to every place *not* rewritten; rewritten (captured) places carry -1-l
    for b in S.blocks[boff:]:
        _fix_negative(b, loff)
    entry = S.new_block()
    st = S.blocks[entry]["stmts"]
    for i, op in enumerate(params):
        st.append(assign(P(loff + (1 if is_fn else 2) + i), use(op), sp))
    S.blocks[entry]["term"] = goto(boff, sp)
    return entry, loff, rets


def _fix_negative(node, loff):
    if isinstance(node, list):
        for x in node:
            _fix_negative(x, loff)
    elif isinstance(node, dict):
        if is_place(node):
            if node["l"] < 0:
                node["l"] = -1 - node["l"]
                # index projections that came from the closure body (marked "!") are closure locals
                node["p"] = [("[_%d]" % (loff + int(_IDX.match(e[1:]).group(1)))) if isinstance(e, str) and e.startswith("![") else e for e in node["p"]]
            return
        for k, v in node.items():
            if k in ("sp", "fsp"):
                continue
            _fix_negative(v, loff)


def _variant_agg(adt, variant, op):
    return {"k": "agg", "ak": "adt", "adt": adt, "variant": variant, "fnames": ["0"], "fields": [op]}


def _payload(pl, adt, variant):
    return {"l": pl["l"], "p": list(pl["p"]) + ["as " + variant, ".0:0@" + adt]}


def _desugar_one(S, bi, tpl, closure_lookup):
    bb = S.blocks[bi]
    t = bb["term"]
    sp = t["sp"]
    args = t["args"]
    argtys = t.get("argtys", [])
    dest = t["dest"]
    cont = t["t"]
    if not args or args[0].get("k") not in ("move", "copy"):
        return False
    recv = args[0]["pl"]
    rty = argtys[0] if argtys else ""

    def switch_on(pl, ty, targets, otherwise):
        d = S.new_local("isize")
        return [assign(P(d), {"k": "discr", "pl": copy.deepcopy(pl), "ty": ty}, sp)], \
            {"k": "switch", "d": mv(P(d)), "ty": "isize", "tg": [[v, b] for v, b in targets], "o": otherwise, "sp": sp}

    def unreachable():
        return S.new_block(term={"k": "unreachable", "sp": sp})

    def ret_to(rets, loff, make_rv):
        """Patch every return block of a spliced closure: dest = make_rv(result operand); goto cont."""
        for rb in rets:
            blk = S.blocks[rb]
            blk["stmts"].append(assign(copy.deepcopy(dest), make_rv(mv(P(loff))), sp))
            blk["term"] = goto(cont, sp)

    if tpl in ("opt_map", "opt_and_then", "res_map", "res_map_err", "res_and_then"):
        c = _closure_arg(S, args[1], closure_lookup) if len(args) == 2 else None
        if c is None:
            return False
        cb, caps = c
        is_opt = tpl.startswith("opt")
        adt = OPTION if is_opt else RESULT
        # variant taken by the closure / passed through
        if is_opt:
            hit, hit_idx, miss, miss_idx = "Some", 1, "None", 0
        elif tpl == "res_map_err":
            hit, hit_idx, miss, miss_idx = "Err", 1, "Ok", 0
        else:
            hit, hit_idx, miss, miss_idx = "Ok", 0, "Err", 1
        entry, loff, rets = _splice_closure(S, cb, caps, [mv(_payload(recv, adt, hit))], sp)
        if tpl in ("opt_map", "res_map", "res_map_err"):
            ret_to(rets, loff, lambda op: _variant_agg(adt, hit, op))
        else:
            ret_to(rets, loff, lambda op: use(op))
        # pass-through arm
        if is_opt:
            miss_rv = {"k": "agg", "ak": "adt", "adt": OPTION, "variant": "None", "fnames": [], "fields": []}
        else:
            miss_rv = _variant_agg(RESULT, miss, mv(_payload(recv, RESULT, miss)))
        mb = S.new_block([assign(copy.deepcopy(dest), miss_rv, sp)], goto(cont, sp))
        stmts, term = switch_on(recv, rty, [(hit_idx, entry), (miss_idx, mb)], unreachable())
        bb["stmts"] += stmts
        bb["term"] = term
        return True

    if tpl in ("res_is_ok_and", "opt_is_some_and") and len(args) == 2:
        # x.is_ok_and(f) is x.map_or(false, f)
        args = [args[0], {"k": "const", "ty": "bool", "v": 0}, args[1]]
        tpl = "res_map_or" if tpl.startswith("res") else "opt_map_or"
    if tpl in ("opt_map_or", "res_map_or"):
        # map_or(default, f)
        c = _closure_arg(S, args[2], closure_lookup) if len(args) == 3 else None
        if c is None:
            return False
        cb, caps = c
        adt = OPTION if tpl.startswith("opt") else RESULT
        hit, hit_idx, miss_idx = ("Some", 1, 0) if adt == OPTION else ("Ok", 0, 1)
        entry, loff, rets = _splice_closure(S, cb, caps, [mv(_payload(recv, adt, hit))], sp)
        ret_to(rets, loff, lambda op: use(op))
        mb = S.new_block([assign(copy.deepcopy(dest), use(copy.deepcopy(args[1])), sp)], goto(cont, sp))
        stmts, term = switch_on(recv, rty, [(hit_idx, entry), (miss_idx, mb)], unreachable())
        bb["stmts"] += stmts
        bb["term"] = term
        return True

    if tpl in ("opt_map_or_else", "res_map_or_else", "opt_unwrap_or_else", "res_unwrap_or_else", "opt_ok_or_else"):
        adt = OPTION if tpl.startswith("opt") else RESULT
        hit, hit_idx, miss, miss_idx = ("Some", 1, "None", 0) if adt == OPTION else ("Ok", 0, "Err", 1)
        if tpl.endswith("map_or_else"):
            cd = _closure_arg(S, args[1], closure_lookup) if len(args) == 3 else None
            cf = _closure_arg(S, args[2], closure_lookup) if len(args) == 3 else None
            if cd is None or cf is None:
                return False
            e_hit, l_hit, r_hit = _splice_closure(S, cf[0], cf[1], [mv(_payload(recv, adt, hit))], sp)
            ret_to(r_hit, l_hit, lambda op: use(op))
            e_miss, l_miss, r_miss = _splice_closure(S, cd[0], cd[1], [] if adt == OPTION else [mv(_payload(recv, adt, miss))], sp)
            ret_to(r_miss, l_miss, lambda op: use(op))
        else:
            cd = _closure_arg(S, args[1], closure_lookup) if len(args) == 2 else None
            if cd is None:
                return False
            e_miss, l_miss, r_miss = _splice_closure(S, cd[0], cd[1], [] if adt == OPTION else [mv(_payload(recv, adt, miss))], sp)
            if tpl == "opt_ok_or_else":
                ret_to(r_miss, l_miss, lambda op: _variant_agg(RESULT, "Err", op))
                e_hit = S.new_block([assign(copy.deepcopy(dest), _variant_agg(RESULT, "Ok", mv(_payload(recv, adt, hit))), sp)], goto(cont, sp))
            else:
                ret_to(r_miss, l_miss, lambda op: use(op))
                e_hit = S.new_block([assign(copy.deepcopy(dest), use(mv(_payload(recv, adt, hit))), sp)], goto(cont, sp))
        stmts, term = switch_on(recv, rty, [(hit_idx, e_hit), (miss_idx, e_miss)], unreachable())
        bb["stmts"] += stmts
        bb["term"] = term
        return True

    if tpl == "fn_call_once":
        # `f(a, b)` where f is a closure literal in sight (a closure handed to a helper that was inlined): its body
        if len(args) != 2 or args[1].get("k") not in ("move", "copy") or args[1]["pl"]["p"]:
            return False
        c = _closure_arg(S, args[0], closure_lookup, follow=True)
        if c is None:
            return False
        d = _single_def(S, args[1]["pl"]["l"])
        if d is None or d[1] is None:
            return False
        rv = d[2].get("rv") or {}
        if rv.get("k") != "agg" or rv.get("ak") != "tuple":
            return False
        cb, caps = c
        if len(cb["locals"]) < 2 + len(rv["fields"]):
            return False
        entry, loff, rets = _splice_closure(S, cb, caps, [copy.deepcopy(f_) for f_ in rv["fields"]], sp)
        ret_to(rets, loff, lambda op: use(op))
        bb["term"] = goto(entry, sp)
        return True

    if tpl in ("opt_unwrap_or", "res_unwrap_or"):
        # x.unwrap_or(d)  ==  match x { Some(v) => v, None => d }   (d is a value, already evaluated)
        if len(args) != 2:
            return False
        adt = OPTION if tpl.startswith("opt") else RESULT
        hit, hit_idx, miss_idx = ("Some", 1, 0) if adt == OPTION else ("Ok", 0, 1)
        e_hit = S.new_block([assign(copy.deepcopy(dest), use(mv(_payload(recv, adt, hit))), sp)], goto(cont, sp))
        e_miss = S.new_block([assign(copy.deepcopy(dest), use(copy.deepcopy(args[1])), sp)], goto(cont, sp))
        stmts, term = switch_on(recv, rty, [(hit_idx, e_hit), (miss_idx, e_miss)], unreachable())
        bb["stmts"] += stmts
        bb["term"] = term
        return True

    if tpl == "opt_copied":
        # Option<&T>::copied / cloned for plain integers  ==  match x { Some(r) => Some(*r), None => None }
        m_ = re.match(r"^std::option::Option<&(?:'\w+ )?(?:mut )?(\w+)>$", rty)
        if len(args) != 1 or not m_ or m_.group(1) not in ("usize", "u64", "u32", "i64", "i32", "u128", "i128", "isize", "u16", "u8", "i16", "i8", "bool"):
            return False
        pay = _payload(recv, OPTION, "Some")
        pay = {"l": pay["l"], "p": list(pay["p"]) + ["*"]}
        e_hit = S.new_block([assign(copy.deepcopy(dest), _variant_agg(OPTION, "Some", cp(pay)), sp)], goto(cont, sp))
        e_miss = S.new_block([assign(copy.deepcopy(dest), {"k": "agg", "ak": "adt", "adt": OPTION, "variant": "None", "fnames": [], "fields": []}, sp)], goto(cont, sp))
        stmts, term = switch_on(recv, rty, [(1, e_hit), (0, e_miss)], unreachable())
        bb["stmts"] += stmts
        bb["term"] = term
        return True

    if tpl == "iter_try_for_each":
        # it.try_for_each(|x| -> Result<(), E> { .. })  ==  for x in it { body(x)?; }  Ok(())
        c = _closure_arg(S, args[1], closure_lookup) if len(args) == 2 else None
        if c is None:
            return False
        cb, caps = c
        rty_ = cb["locals"][0]["ty"]
        if not rty_.startswith("std::result::Result<(),") or len(cb["locals"]) < 3:
            return False
        ety = _pty(cb, 0)
        nxt = S.new_local("std::option::Option<%s>" % ety)
        entry, loff, rets = _splice_closure(S, cb, caps, [mv(_payload(P(nxt), OPTION, "Some"))], sp)
        head = S.new_block()
        sw = S.new_block()
        brk = S.new_block([assign(copy.deepcopy(dest), use(mv(P(loff))), sp)], goto(cont, sp))
        for rb in rets:
            stmts_, term_ = switch_on(P(loff), rty_, [(0, head), (1, brk)], unreachable())
            S.blocks[rb]["stmts"] += stmts_
            S.blocks[rb]["term"] = term_
        done = S.new_block([assign(copy.deepcopy(dest), {"k": "agg", "ak": "adt", "adt": RESULT, "variant": "Ok", "fnames": ["0"],
                                                         "fields": [{"k": "const", "ty": "()", "s": "()"}]}, sp)], goto(cont, sp))
        S.blocks[head]["term"] = {"k": "call", "callee": "std::iter::Iterator::next", "item": "next", "gargs": [rty], "trait": "std::iter::Iterator",
                                  "resolved": "std::iter::Iterator::next", "rkind": "item", "args": [copy.deepcopy(args[0])], "argtys": [rty],
                                  "dest": P(nxt), "destty": "std::option::Option<%s>" % ety, "t": sw, "uw": None, "fsp": sp, "sp": sp, "desugared": tpl}
        stmts, term = switch_on(P(nxt), "std::option::Option<%s>" % ety, [(1, entry), (0, done)], unreachable())
        S.blocks[sw]["stmts"] += stmts
        S.blocks[sw]["term"] = term
        bb["term"] = goto(head, sp)
        return True

    if tpl == "slice_fill":
        # s.fill(v)  ==  for x in s.iter_mut() { *x = v }     (Copy element types: integers)
        if len(args) != 2 or not rty.startswith("&mut [") or not rty.endswith("]"):
            return False
        ety = rty[len("&mut ["):-1]
        if ety not in ("usize", "u64", "u32", "i64", "i32", "u128", "i128", "isize", "u16", "u8", "i16", "i8", "bool"):
            return False
        ity = "std::slice::IterMut<'_, %s>" % ety
        it = S.new_local(ity, user=False)
        nxt = S.new_local("std::option::Option<&mut %s>" % ety)
        ref = S.new_local("&mut " + ity)
        elem = S.new_local("&mut " + ety, user=True)
        S.debug.append({"name": "slot", "pl": P(elem)})
        head = S.new_block()
        sw = S.new_block()
        body = S.new_block([assign(P(elem), use(mv(_payload(P(nxt), OPTION, "Some"))), sp), assign(P(elem, "*"), use(copy.deepcopy(args[1])), sp)], goto(head, sp))
        done = S.new_block([assign(copy.deepcopy(dest), use({"k": "const", "ty": "()", "s": "()"}), sp)], goto(cont, sp))
        S.blocks[head]["stmts"].append(assign(P(ref), {"k": "ref", "bk": "mut", "pl": P(it)}, sp))
        S.blocks[head]["term"] = {"k": "call", "callee": "std::iter::Iterator::next", "item": "next", "gargs": [ity], "trait": "std::iter::Iterator",
                                  "resolved": "std::iter::Iterator::next", "rkind": "item", "args": [mv(P(ref))], "argtys": ["&mut " + ity],
                                  "dest": P(nxt), "destty": "std::option::Option<&mut %s>" % ety, "t": sw, "uw": None, "fsp": sp, "sp": sp, "desugared": tpl}
        stmts, term = switch_on(P(nxt), "std::option::Option<&mut %s>" % ety, [(1, body), (0, done)], unreachable())
        S.blocks[sw]["stmts"] += stmts
        S.blocks[sw]["term"] = term
        bb["term"] = {"k": "call", "callee": "core::slice::<impl [T]>::iter_mut", "item": "iter_mut", "gargs": [ety], "resolved": "core::slice::<impl [T]>::iter_mut", "rkind": "item",
                      "args": [copy.deepcopy(args[0])], "argtys": [rty], "dest": P(it), "destty": ity, "t": head, "uw": None, "fsp": sp, "sp": sp, "desugared": tpl}
        return True

    if tpl == "iter_sum":
        # it.map(g).sum()  ==  let mut acc = 0; for x in it { acc = acc + g(x) }; acc   (integer sums only)
        dty = t.get("destty", "")
        if dty not in ("usize", "u64", "u32", "i64", "i32", "u128", "i128", "isize", "u16", "u8", "i16", "i8") or len(args) != 1:
            return False
        src_op, src_ty, mapper = args[0], rty, None
        if args[0].get("k") in ("move", "copy") and not args[0]["pl"]["p"]:
            d_ = _single_def(S, args[0]["pl"]["l"])
            if d_ is not None and d_[1] is None and combinator_call_name(d_[2]) == "map" and len(d_[2]["args"]) == 2:
                mc = _closure_arg(S, d_[2]["args"][1], closure_lookup)
                if mc is not None:
                    mapper, src_op, src_ty = mc, d_[2]["args"][0], (d_[2].get("argtys") or [rty])[0]
        if mapper is None:
            return False
        ety = _pty(mapper[0], 0)
        it = S.new_local(src_ty, user=False)
        acc = S.new_local(dty, user=True)
        S.debug.append({"name": "sum", "pl": P(acc)})
        mb_, _msi, mt_ = d_
        S.blocks[mb_]["stmts"].append(assign(P(it), use(copy.deepcopy(src_op)), sp))
        S.blocks[mb_]["term"] = goto(mt_["t"], sp)
        bb["stmts"].append(assign(P(acc), use({"k": "const", "ty": dty, "v": 0}), sp))
        nxt = S.new_local("std::option::Option<%s>" % ety)
        ref = S.new_local("&mut " + src_ty)
        head = S.new_block()
        sw = S.new_block()
        m_entry, m_loff, m_rets = _splice_closure(S, mapper[0], mapper[1], [mv(_payload(P(nxt), OPTION, "Some"))], sp)
        for rb in m_rets:
            S.blocks[rb]["stmts"].append(assign(P(acc), {"k": "binop", "op": "Add", "a": {"k": "copy", "pl": P(acc)}, "b": mv(P(m_loff))}, sp))
            S.blocks[rb]["term"] = goto(head, sp)
        done = S.new_block([assign(copy.deepcopy(dest), use(mv(P(acc))), sp)], goto(cont, sp))
        S.blocks[head]["stmts"].append(assign(P(ref), {"k": "ref", "bk": "mut", "pl": P(it)}, sp))
        S.blocks[head]["term"] = {"k": "call", "callee": "std::iter::Iterator::next", "item": "next", "gargs": [src_ty], "trait": "std::iter::Iterator",
                                  "resolved": "std::iter::Iterator::next", "rkind": "item", "args": [mv(P(ref))], "argtys": ["&mut " + src_ty],
                                  "dest": P(nxt), "destty": "std::option::Option<%s>" % ety, "t": sw, "uw": None, "fsp": sp, "sp": sp, "desugared": tpl}
        stmts, term = switch_on(P(nxt), "std::option::Option<%s>" % ety, [(1, m_entry), (0, done)], unreachable())
        S.blocks[sw]["stmts"] += stmts
        S.blocks[sw]["term"] = term
        bb["term"] = goto(head, sp)
        return True

    if tpl == "iter_fold":
        # it.fold(init, |acc, x| body)  ==  let mut acc = init; for x in it { acc = body }; acc
        # (and it.map(g).fold(..): each element goes through g first)
        c = _closure_arg(S, args[2], closure_lookup) if len(args) == 3 else None
        if c is None:
            return False
        cb, caps = c
        if len(cb["locals"]) < 4:
            return False
        aty = _pty(cb, 0)
        src_op, src_ty = args[0], rty
        mapper = None
        if args[0].get("k") in ("move", "copy") and not args[0]["pl"]["p"]:
            d_ = _single_def(S, args[0]["pl"]["l"])
            if d_ is not None and d_[1] is None and combinator_call_name(d_[2]) == "map" and len(d_[2]["args"]) == 2:
                mc = _closure_arg(S, d_[2]["args"][1], closure_lookup)
                if mc is not None:
                    mapper = mc
                    src_op = d_[2]["args"][0]
                    src_ty = (d_[2].get("argtys") or [rty])[0]
        ety = (_pty(mapper[0], 0) if mapper else _pty(cb, 1))
        it = S.new_local(src_ty, user=False)
        acc = S.new_local(aty, user=True)
        pname = next((d__["name"] for d__ in cb.get("debug", []) if d__["pl"]["l"] == 2 and not d__["pl"]["p"]), "acc")
        S.debug.append({"name": pname, "pl": P(acc)})
        if mapper is None:
            bb["stmts"].append(assign(P(it), use(copy.deepcopy(src_op)), sp))
        else:
            # the Map adaptor was built from (inner, g): take the inner iterator where the adaptor was made
            mb_, _msi, mt_ = d_
            S.blocks[mb_]["stmts"].append(assign(P(it), use(copy.deepcopy(src_op)), sp))
            S.blocks[mb_]["term"] = goto(mt_["t"], sp)
        bb["stmts"].append(assign(P(acc), use(copy.deepcopy(args[1])), sp))
        nxt = S.new_local("std::option::Option<%s>" % ety)
        ref = S.new_local("&mut " + src_ty)
        elem_op = mv(_payload(P(nxt), OPTION, "Some"))
        head = S.new_block()
        sw = S.new_block()
        if mapper is not None:
            m_entry, m_loff, m_rets = _splice_closure(S, mapper[0], mapper[1], [elem_op], sp)
            entry, loff, rets = _splice_closure(S, cb, caps, [mv(P(acc)), mv(P(m_loff))], sp)
            for rb in m_rets:
                S.blocks[rb]["term"] = goto(entry, sp)
            first = m_entry
        else:
            entry, loff, rets = _splice_closure(S, cb, caps, [mv(P(acc)), elem_op], sp)
            first = entry
        for rb in rets:
            S.blocks[rb]["stmts"].append(assign(P(acc), use(mv(P(loff))), sp))
            S.blocks[rb]["term"] = goto(head, sp)
        done = S.new_block([assign(copy.deepcopy(dest), use(mv(P(acc))), sp)], goto(cont, sp))
        S.blocks[head]["stmts"].append(assign(P(ref), {"k": "ref", "bk": "mut", "pl": P(it)}, sp))
        S.blocks[head]["term"] = {"k": "call", "callee": "std::iter::Iterator::next", "item": "next", "gargs": [src_ty], "trait": "std::iter::Iterator",
                                  "resolved": "std::iter::Iterator::next", "rkind": "item", "args": [mv(P(ref))], "argtys": ["&mut " + src_ty],
                                  "dest": P(nxt), "destty": "std::option::Option<%s>" % ety, "t": sw, "uw": None, "fsp": sp, "sp": sp, "desugared": tpl}
        stmts, term = switch_on(P(nxt), "std::option::Option<%s>" % ety, [(1, first), (0, done)], unreachable())
        S.blocks[sw]["stmts"] += stmts
        S.blocks[sw]["term"] = term
        bb["term"] = goto(head, sp)
        return True

    if tpl in ("for_each", "iter_all", "iter_any"):
        c = _closure_arg(S, args[1], closure_lookup) if len(args) == 2 else None
        if c is None:
            return False
        cb, caps = c
        # element type: the closure's first parameter
        ety = _pty(cb, 0)
        if tpl == "for_each":
            it = S.new_local(rty, user=False)
            bb["stmts"].append(assign(P(it), use(copy.deepcopy(args[0])), sp))
            it_pl = P(it)
        else:
            # all / any take `&mut self`: iterate through the reference
            it_pl = None
        nxt = S.new_local("std::option::Option<%s>" % ety)
        ref = S.new_local("&mut " + rty)
        entry, loff, rets = _splice_closure(S, cb, caps, [mv(_payload(P(nxt), OPTION, "Some"))], sp)
        head = S.new_block()
        sw = S.new_block()
        if tpl == "for_each":
            done = S.new_block([assign(copy.deepcopy(dest), use({"k": "const", "ty": "()", "s": "()"}), sp)], goto(cont, sp))
            for rb in rets:
                S.blocks[rb]["term"] = goto(head, sp)
            S.blocks[head]["stmts"].append(assign(P(ref), {"k": "ref", "bk": "mut", "pl": it_pl}, sp))
            recv_op = mv(P(ref))
        else:
            want = tpl == "iter_all"
            done = S.new_block([assign(copy.deepcopy(dest), use({"k": "const", "ty": "bool", "v": 1 if want else 0}), sp)], goto(cont, sp))
            early = S.new_block([assign(copy.deepcopy(dest), use({"k": "const", "ty": "bool", "v": 0 if want else 1}), sp)], goto(cont, sp))
            for rb in rets:
                blk = S.blocks[rb]
                blk["term"] = {"k": "switch", "d": mv(P(loff)), "ty": "bool", "tg": [[0, early if want else head]], "o": head if want else early, "sp": sp}
            recv_op = copy.deepcopy(args[0])
        S.blocks[head]["term"] = {"k": "call", "callee": "std::iter::Iterator::next", "item": "next", "gargs": [rty], "trait": "std::iter::Iterator",
                                  "resolved": "std::iter::Iterator::next", "rkind": "item", "args": [recv_op], "argtys": ["&mut " + rty],
                                  "dest": P(nxt), "destty": "std::option::Option<%s>" % ety, "t": sw, "uw": None, "fsp": sp, "sp": sp, "desugared": tpl}
        stmts, term = switch_on(P(nxt), "std::option::Option<%s>" % ety, [(1, entry), (0, done)], unreachable())
        S.blocks[sw]["stmts"] += stmts
        S.blocks[sw]["term"] = term
        bb["term"] = goto(head, sp)
        return True
    return False


# ----------------------------------------------------------------------------------------
# reference list of function names
# ----------------------------------------------------------------------------------------

def neutral_path(p):
    p = strip_generics_simple(p)
    return p


def load_known_fns():
    fn = os.path.join(VERIF, "engine", "known_fns.txt")
    if not os.path.exists(fn):
        return None
    return {l.strip() for l in open(fn) if l.strip() and not l.startswith("#")}


# ----------------------------------------------------------------------------------------
# scalar replacement of small struct locals introduced by a refactoring
# ----------------------------------------------------------------------------------------
# `let mut min = MinCandidate { pair, hits, idx }; .. min = MinCandidate { .. }; .. min.hits ..` says the same as four
# variables `min_key, min_hits, min_id, min_cost`.  A local whose type is a plain-data struct that does not exist in
# the reference tree (a type a refactoring introduced), or a part of such a local, is split into one local per field:
# whole assignments become field-wise assignments, `x.f` becomes the field's local, a whole use (`v.push(min.pair)`)
# is re-assembled into a temporary right before it.  The rules then see the variables they are written for.

_SCALAR_TYS = {"u8", "u16", "u32", "u64", "u128", "usize", "i8", "i16", "i32", "i64", "i128", "isize", "bool", "char", "f32", "f64"}


def _plain_struct(ty, adts, depth=0):
    a = adts.get(ty)
    if not a or a.get("kind") != "Struct" or len(a.get("variants", [])) != 1 or "<" in ty or depth > 3:
        return None
    fs = a["variants"][0]["fields"]
    if not fs or not all(f["ty"] in _SCALAR_TYS or _plain_struct(f["ty"], adts, depth + 1) for f in fs):
        return None
    return fs


def _walk_places(node, fn, ctx=None):
    """Calls fn(container, key, place, ctx) for every place dict found under node (ctx: the dict key it sits under)."""
    if isinstance(node, list):
        for i, x in enumerate(node):
            if is_place(x):
                fn(node, i, x, ctx)
            else:
                _walk_places(x, fn, ctx)
    elif isinstance(node, dict):
        for k, v in node.items():
            if k in ("sp", "fsp"):
                continue
            if is_place(v):
                fn(node, k, v, k)
            else:
                _walk_places(v, fn, k)


def split_struct_locals(raw, adts, is_new_type, max_rounds=4):
    """Returns (raw', number of locals split).  raw is not modified."""
    n_args = raw.get("arg_count", 0) or 0
    work = None
    derived = set()
    n_split = 0
    for _round in range(max_rounds):
        src = work if work is not None else raw
        cands = []
        for L, loc in enumerate(src["locals"]):
            if L == 0 or L <= n_args:
                continue
            fs = _plain_struct(loc["ty"], adts)
            if fs and (is_new_type(loc["ty"]) or L in derived):
                cands.append((L, fs))
        progressed = False
        for L, fs in cands:
            r = _split_one(src, L, fs, adts)
            if r is not None:
                src, new_locals = r
                work = src
                derived |= set(new_locals)
                n_split += 1
                progressed = True
        if not progressed:
            break
    return (work if work is not None else raw), n_split


def _split_one(raw, L, fs, adts):
    ty = raw["locals"][L]["ty"]
    fproj = [".%d:%s@%s" % (i, f["name"], ty) for i, f in enumerate(fs)]

    def field_of(p):
        """index of the field a projection list starts with, or None"""
        if not p or not isinstance(p[0], str) or not p[0].startswith("."):
            return None
        m = re.match(r"^\.(\d+):", p[0])
        return int(m.group(1)) if m and int(m.group(1)) < len(fs) else None

    # ---- feasibility: every mention of L is a whole assignment from an aggregate / a place, a field access, a whole
    # operand use, a storage marker or a drop
    ok = [True]
    has_field_use = [False]
    has_whole_def = [False]
    for bb in raw["blocks"]:
        for st in bb["stmts"]:
            k = st["k"]
            if k in ("live", "dead"):
                continue
            if k != "assign":
                def chk(c, key, pl, ctx):
                    if pl["l"] == L:
                        ok[0] = False
                _walk_places(st, chk)
                continue
            pl, rv = st["pl"], st["rv"]
            if pl["l"] == L:
                if not pl["p"]:
                    has_whole_def[0] = True
                    if rv["k"] == "agg" and rv.get("ak") == "adt" and rv.get("adt") == ty and len(rv.get("fields", [])) == len(fs):
                        pass
                    elif rv["k"] == "use" and rv["op"].get("k") in ("copy", "move") and rv["op"]["pl"]["l"] != L:
                        pass
                    else:
                        ok[0] = False
                elif field_of(pl["p"]) is None:
                    ok[0] = False
                else:
                    has_field_use[0] = True

            def chk2(c, key, p2, ctx):
                if p2["l"] != L or p2 is pl:
                    return
                if ctx == "pl" and rv.get("k") in ("ref", "addr") and not p2["p"]:
                    ok[0] = False   # the whole struct is borrowed
                elif p2["p"] and field_of(p2["p"]) is None:
                    ok[0] = False
                elif p2["p"]:
                    has_field_use[0] = True
            _walk_places(rv, chk2)
        t = bb["term"]
        if t is None:
            continue
        if t["k"] == "drop":
            if t["pl"]["l"] == L and t["pl"]["p"]:
                ok[0] = False
            continue

        def chk3(c, key, p3, ctx):
            if p3["l"] != L:
                return
            if p3["p"] and field_of(p3["p"]) is None:
                ok[0] = False
            elif p3["p"]:
                has_field_use[0] = True
            elif ctx == "dest":
                has_whole_def[0] = True
        _walk_places(t, chk3)
    for d in raw.get("debug", []):
        if "pl" in d and d["pl"]["l"] == L and d["pl"]["p"]:
            ok[0] = False
    if not ok[0] or not has_field_use[0] or not has_whole_def[0]:
        return None

    raw = copy.deepcopy(raw)
    S = Splicer(raw)
    name = next((d["name"] for d in raw.get("debug", []) if "pl" in d and d["pl"]["l"] == L and not d["pl"]["p"] and d.get("name")), None)
    fl = []
    for i, f in enumerate(fs):
        nl = S.new_local(f["ty"], user=bool(name))
        raw["locals"][nl]["mut"] = bool(raw["locals"][L].get("mut", True))   # a field of an immutable binding is immutable
        fl.append(nl)
        if name:
            raw["debug"].append({"name": "%s.%s" % (name, f["name"]), "pl": P(nl), "arg": None})
    raw["debug"] = [d for d in raw["debug"] if not ("pl" in d and d["pl"]["l"] == L)]

    def fix_field(pl):
        i = field_of(pl["p"])
        pl["l"] = fl[i]
        pl["p"] = pl["p"][1:]

    def whole_tmp(sp):
        """statements assembling the current value of L into a fresh temporary; returns (tmp, [stmts])"""
        tmp = S.new_local(ty, user=False)
        agg = {"k": "agg", "ak": "adt", "adt": ty, "variant": ty.split("::")[-1], "fnames": [f["name"] for f in fs], "fields": [cp(P(x)) for x in fl]}
        return tmp, [assign(P(tmp), agg, sp)]

    for bi in range(len(raw["blocks"])):
        bb = raw["blocks"][bi]
        out = []
        for st in bb["stmts"]:
            k = st["k"]
            sp = st.get("sp")
            if k in ("live", "dead"):
                if st.get("l") == L:
                    for x in fl:
                        out.append(dict(st, l=x))
                else:
                    out.append(st)
                continue
            if k != "assign":
                out.append(st)
                continue
            pl, rv = st["pl"], st["rv"]
            pre = []

            def fix_use(c, key, p2, ctx):
                if p2["l"] != L or p2 is pl:
                    return
                if p2["p"]:
                    fix_field(p2)
                else:
                    tmp, sts = whole_tmp(sp)
                    pre.extend(sts)
                    p2["l"] = tmp
            if pl["l"] == L and not pl["p"]:
                if rv["k"] == "agg":
                    _walk_places(rv, fix_use)
                    out.extend(pre)
                    # evaluate every field operand first (an operand may read the old value of another field)
                    tmps = []
                    for i, op in enumerate(rv["fields"]):
                        tl = S.new_local(fs[i]["ty"], user=False)
                        tmps.append(tl)
                        out.append(assign(P(tl), use(op), sp))
                    for i, tl in enumerate(tmps):
                        out.append(assign(P(fl[i]), use(mv(P(tl))), sp))
                else:
                    src = rv["op"]["pl"]
                    for i in range(len(fs)):
                        out.append(assign(P(fl[i]), use(cp({"l": src["l"], "p": list(src["p"]) + [fproj[i]]})), sp))
                continue
            if pl["l"] == L:
                fix_field(pl)
            _walk_places(rv, fix_use)
            out.extend(pre)
            out.append(st)
        bb["stmts"] = out
        t = bb["term"]
        if t is None:
            continue
        sp = t.get("sp")
        if t["k"] == "drop" and t["pl"]["l"] == L:
            bb["term"] = goto(t["t"], sp)
            continue
        pre = []
        post_dest = [None]

        def fix_t(c, key, p3, ctx):
            if p3["l"] != L:
                return
            if p3["p"]:
                fix_field(p3)
            elif ctx == "dest":
                tmp = S.new_local(ty, user=False)
                p3["l"] = tmp
                post_dest[0] = tmp
            else:
                tmp, sts = whole_tmp(sp)
                pre.extend(sts)
                p3["l"] = tmp
        _walk_places(t, fix_t)
        bb["stmts"].extend(pre)
        if post_dest[0] is not None and t.get("t") is not None:
            nb = S.new_block([assign(P(fl[i]), use(cp({"l": post_dest[0], "p": [fproj[i]]})), sp) for i in range(len(fs))], goto(t["t"], sp))
            t["t"] = nb
    return raw, fl


def forward_local_refs(raw):
    """After closures have been spliced in, a captured `&mut x` is a temporary `r = &mut x` used only as `*r`: replace
    `(*r).p` by `x.p` and drop the closure values that nothing uses any more, so that `x` can be treated like any
    other local (split_struct_locals).  Returns (raw', n) - raw is not modified."""
    work = copy.deepcopy(raw)
    n_done = 0
    for _ in range(4):
        # uses of every local: (kind, container) - kind 'def' (whole assignment / call dest), 'deref' (place starting
        # with `*`), 'other'
        uses = {}

        def note(pl, kind):
            uses.setdefault(pl["l"], []).append(kind)
        for bb in work["blocks"]:
            if bb["cleanup"]:
                continue
            for st in bb["stmts"]:
                if st["k"] in ("live", "dead"):
                    continue
                if st["k"] == "assign":
                    note(st["pl"], "def" if not st["pl"]["p"] else ("deref" if st["pl"]["p"][0] == "*" else "other"))
                    _walk_places(st["rv"], lambda c, k, p, ctx: note(p, "deref" if p["p"] and p["p"][0] == "*" else "other"))
                else:
                    _walk_places(st, lambda c, k, p, ctx: note(p, "other"))
            t = bb["term"]
            if t is not None:
                _walk_places(t, lambda c, k, p, ctx: note(p, "def" if ctx == "dest" and not p["p"] else ("deref" if p["p"] and p["p"][0] == "*" else "other")))
        changed = False
        # 1. closure values nothing reads
        for bb in work["blocks"]:
            keep = []
            for st in bb["stmts"]:
                if st["k"] == "assign" and not st["pl"]["p"] and st["rv"]["k"] == "agg" and st["rv"].get("ak") == "closure" \
                        and uses.get(st["pl"]["l"], []).count("def") == len(uses.get(st["pl"]["l"], [])) and st["pl"]["l"] != 0:
                    changed = True
                    continue
                keep.append(st)
            bb["stmts"] = keep
        if changed:
            continue
        # 2. r = &x / &mut x, r only dereferenced
        fwd = {}
        for bb in work["blocks"]:
            if bb["cleanup"]:
                continue
            for st in bb["stmts"]:
                if st["k"] == "assign" and not st["pl"]["p"] and st["rv"]["k"] == "ref" and "*" not in st["rv"]["pl"]["p"]:
                    r = st["pl"]["l"]
                    us = uses.get(r, [])
                    if us.count("def") == 1 and all(u in ("def", "deref") for u in us) and "deref" in us and r != st["rv"]["pl"]["l"] \
                            and not any(isinstance(x, str) and x.startswith("[") for x in st["rv"]["pl"]["p"]):
                        fwd[r] = st["rv"]["pl"]
        if not fwd:
            break
        for bb in work["blocks"]:
            keep = []
            for st in bb["stmts"]:
                if st["k"] == "assign" and not st["pl"]["p"] and st["pl"]["l"] in fwd and st["rv"]["k"] == "ref":
                    continue
                if st["k"] in ("live", "dead") and st.get("l") in fwd:
                    continue
                keep.append(st)
            bb["stmts"] = keep

        def rew(c, k, p, ctx):
            if p["l"] in fwd and p["p"] and p["p"][0] == "*":
                tgt = fwd[p["l"]]
                p["l"] = tgt["l"]
                p["p"] = list(tgt["p"]) + p["p"][1:]
        for bb in work["blocks"]:
            _walk_places(bb["stmts"], rew)
            if bb["term"] is not None:
                _walk_places(bb["term"], rew)
        n_done += len(fwd)
    return work, n_done
