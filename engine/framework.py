"""Reporting, flavours, known findings, evidence: everything around the rules."""
import json
import os
import re
import time

from core import Facts, AnchorMissing, strip_generics, show
import factsrun

VERIF = factsrun.VERIF


class Flavour:
    """Names of the flavoured items (sync: Cache/LFUPolicy/RingStripe, async: AsyncCache/...)."""

    def __init__(self, name, facts):
        self.name = name
        self.facts = facts
        self.cfg = "%s/%s" % (facts.config, name)
        if name == "sync":
            self.cmod = "cache::sync"
            self.cache = "cache::sync::Cache"
            self.builder = "cache::sync::CacheBuilder"
            self.pmod = "policy::sync"
            self.policy = "policy::sync::LFUPolicy"
            self.ring = "ring::RingStripe"
            self.cleanup = "store::ShardedMap::try_cleanup"
        else:
            self.cmod = "cache::r#async"
            self.cache = "cache::r#async::AsyncCache"
            self.builder = "cache::r#async::AsyncCacheBuilder"
            self.pmod = "policy::r#async"
            self.policy = "policy::r#async::AsyncLFUPolicy"
            self.ring = "ring::AsyncRingStripe"
            self.cleanup = "store::ShardedMap::try_cleanup_async"
        self.processor = self.cmod + "::CacheProcessor"
        self.cleaner = self.cmod + "::CacheCleaner"
        self.item = self.cmod + "::Item"
        self.pproc = self.pmod + "::PolicyProcessor"

    def body(self, spath, required=True):
        return self.facts.body(spath, required)

    def code(self, spath, required=True):
        """Body holding the *code* of a function: for an `async fn` that is its coroutine
        (`f::{closure#0}`), otherwise the function body itself."""
        b = self.facts.body(spath, required)
        if b is None:
            return None
        if b.raw.get("asyncness"):
            return self.facts.body(spath + "::{closure#0}", required)
        return b

    def cache_fn(self, name, required=True):
        return self.code(self.cache + "::" + name, required)

    def policy_fn(self, name, required=True):
        return self.code(self.policy + "::" + name, required)

    def proc_fn(self, name, required=True):
        return self.code(self.processor + "::" + name, required)


class Instance:
    __slots__ = ("rule", "cfg", "func", "site", "verdict", "detail", "loc")

    def __init__(self, rule, cfg, func, site, verdict, detail, loc):
        self.rule, self.cfg, self.func, self.site = rule, cfg, func, site
        self.verdict, self.detail, self.loc = verdict, detail, loc

    def key(self):
        return "%s|%s|%s|%s" % (self.rule, self.cfg, self.func, self.site)

    def to_json(self):
        return {"rule": self.rule, "config": self.cfg, "function": self.func, "site": self.site,
                "verdict": self.verdict, "detail": self.detail, "loc": self.loc}


class Report:
    def __init__(self, prop, tier):
        self.prop = prop
        self.tier = tier
        self.instances = []
        self.notes = []
        self.t0 = time.time()

    def ok(self, rule, fl, func, site, detail="", loc=None):
        self.instances.append(Instance(rule, _cfg(fl), _fn(func), site, "ok", detail, _loc(func, loc)))

    def bad(self, rule, fl, func, site, detail, loc=None):
        self.instances.append(Instance(rule, _cfg(fl), _fn(func), site, "violation", detail, _loc(func, loc)))

    def missing(self, rule, fl, what):
        self.instances.append(Instance(rule, _cfg(fl), "-", what, "anchor-missing", what, None))

    def check(self, cond, rule, fl, func, site, detail_ok="", detail_bad="", loc=None):
        if cond:
            self.ok(rule, fl, func, site, detail_ok, loc)
        else:
            self.bad(rule, fl, func, site, detail_bad or detail_ok, loc)
        return cond

    def note(self, s):
        self.notes.append(s)

    def count(self, verdict=None, rule=None):
        return sum(1 for i in self.instances if (verdict is None or i.verdict == verdict) and (rule is None or i.rule == rule))


def _cfg(fl):
    return fl.cfg if hasattr(fl, "cfg") else str(fl)


def _fn(func):
    return func.spath if hasattr(func, "spath") else str(func)


def _loc(func, loc):
    if loc is not None:
        if isinstance(loc, dict):
            return "%s:%d" % (loc["f"], loc["l"])
        return loc
    if hasattr(func, "span"):
        return "%s:%d" % (func.span["f"], func.span["l"])
    return None


# ----------------------------------------------------------------------------------------
# known findings
# ----------------------------------------------------------------------------------------

def load_known():
    """KNOWN_FINDINGS.txt: lines `open: property=<id> key=<rule|cfg|func|site> :: <what fails>`
    and informational `fixed: property=<id> <commit> <what failed>`."""
    opens = {}
    p = os.path.join(VERIF, "KNOWN_FINDINGS.txt")
    if not os.path.exists(p):
        return opens
    for line in open(p):
        line = line.rstrip("\n")
        m = re.match(r"open: property=(\S+) key=(.*?) :: (.*)$", line)
        if m:
            opens[(m.group(1), m.group(2))] = m.group(3)
    return opens


# ----------------------------------------------------------------------------------------
# running a property check
# ----------------------------------------------------------------------------------------

def load_flavours(tier):
    """quick: sync flavour from the default configuration + async flavour from the async
    configuration.  thorough: additionally both flavours from --features full."""
    out = []
    fd = Facts(factsrun.build_facts("default"))
    out.append(Flavour("sync", fd))
    fa = Facts(factsrun.build_facts("async"))
    out.append(Flavour("async", fa))
    if tier == "thorough":
        ff = Facts(factsrun.build_facts("full"))
        out.append(Flavour("sync", ff))
        out.append(Flavour("async", ff))
    return out


def run_property(prop, tier, rule_fn, floor, meta):
    """Run rule_fn(report, flavours) and produce evidence + exit code."""
    rep = Report(prop, tier)
    fatal = None
    try:
        fls = load_flavours(tier)
        for fl in fls:
            try:
                rule_fn(rep, fl)
            except AnchorMissing as e:
                rep.missing("anchor", fl, str(e))
        if meta.get("once"):
            meta["once"](rep)
        if tier == "thorough" and meta.get("once_thorough"):
            meta["once_thorough"](rep)
        if tier == "thorough" and not os.environ.get("VERIF_NO_SELFTEST") and factsrun.REPO == "/repo":
            # checker self-validation (non-fatal, reported): this property's mutants on scratch copies
            import selftest
            st = selftest.run_for_property(prop)
            rep.selftest = st
            rep.note("selftest: %d breaking mutants caught, %d missed %s, %d benign silent, %d false alarms %s, %d skipped" % (
                len(st["caught"]), len(st["missed"]), st["missed"], len(st["silent"]), len(st["false_alarm"]), st["false_alarm"], len(st["skipped"])))
            sd = selftest.run_seeded_for_property(prop)
            bn = selftest.run_benign_sample(prop)
            rep.selftest = dict(st, seeded_caught=sd["caught"], seeded_missed=sd["missed"], seeded_skipped=sd["skipped"],
                                benign_silent=bn["silent"], benign_false_alarm=bn["false_alarm"], benign_skipped=bn["skipped"])
            rep.note("seeded changes written against %s: %d reported, %d missed %s; behaviour-preserving refactorings (sample): %d silent, %d false alarms %s" % (
                prop, len(sd["caught"]), len(sd["missed"]), sd["missed"], len(bn["silent"]), len(bn["false_alarm"]), bn["false_alarm"]))
    except Exception as e:  # build failure, internal error: fail closed
        import traceback
        fatal = "%s: %s" % (type(e).__name__, e)
        traceback.print_exc()
    known = load_known()
    viol = [i for i in rep.instances if i.verdict != "ok"]
    new_viol = []
    known_hit = []
    for i in viol:
        k = (prop, i.key())
        if i.verdict == "violation" and k in known:
            known_hit.append((i, known[k]))
        else:
            new_viol.append(i)
    n_ok = rep.count("ok")
    per_cfg = {}
    for i in rep.instances:
        per_cfg[i.cfg] = per_cfg.get(i.cfg, 0) + 1
    # floor: instances per flavour-config must not fall below what was counted on the reference tree
    floor_fail = []
    if fatal is None:
        for cfg, n in per_cfg.items():
            fl_name = cfg.split("/")[-1]
            if fl_name not in ("sync", "async"):
                continue
            need = floor.get(fl_name, 0)
            if n < need:
                floor_fail.append("%s: %d rule instances < floor %d" % (cfg, n, need))
        if not per_cfg:
            floor_fail.append("no rule instance evaluated")
    wall = time.time() - rep.t0
    evdir = os.environ.get("VERIF_EVIDENCE_DIR") or os.path.join(VERIF, "evidence")
    os.makedirs(evdir, exist_ok=True)
    replay = os.path.join(evdir, "%s.violations.json" % prop)
    distinct = len({(i.rule, i.func, i.site) for i in rep.instances if i.verdict == "ok"})
    samples = []
    seen_rules = set()
    for i in rep.instances:
        if i.rule not in seen_rules:
            seen_rules.add(i.rule)
            samples.append(i.to_json())
    for i in viol[:20]:
        samples.append(i.to_json())
    ev = {
        "property_id": prop,
        "tier": tier,
        "seed": int(os.environ.get("VERIF_SEED", "0") or 0),
        "level": "other",
        "coverage": {
            "explanation": meta["explanation"],
            "evaluations": len(rep.instances),
            "distinct_nontrivial": distinct,
            "rule": "one evaluation = one rule instance (rule id, configuration/flavour, function, site) decided on the MIR of /repo's current tree; "
                    "distinct_nontrivial counts distinct (rule, function, site) triples that matched a real construct and passed",
            "obligations": len(rep.instances),
            "discharged": n_ok,
            "exhaustive": True,
            "configurations": sorted(per_cfg.keys()),
            "instances_per_configuration": per_cfg,
            "rules": sorted({i.rule for i in rep.instances}),
            "samples": samples,
            "known_findings_matched": [i.key() for i, _ in known_hit],
            "notes": rep.notes,
            "selftest": getattr(rep, "selftest", None),
            "tree_hash": factsrun.tree_hash(),
        },
        "assumptions": meta.get("assumptions", []),
        "wall_s": round(wall, 3),
        "violations": len(new_viol) + (1 if fatal else 0) + len(floor_fail),
    }
    with open(os.path.join(evdir, "%s.json" % prop), "w") as f:
        json.dump(ev, f, indent=1)
    for i, what in known_hit:
        print("KNOWN-FINDING: property=%s %s [%s]" % (prop, what, i.key()))
    rc = 0
    if fatal or new_viol or floor_fail:
        with open(replay, "w") as f:
            json.dump({"property": prop, "fatal": fatal, "floor": floor_fail,
                       "violations": [i.to_json() for i in new_viol]}, f, indent=1)
        for i in new_viol:
            print("  %s %s %s :: %s @ %s\n      %s" % (i.verdict.upper(), i.rule, i.cfg, i.func, i.loc, i.detail))
            print("      key=%s" % i.key())
        for s in floor_fail:
            print("  FLOOR %s" % s)
        if fatal:
            print("  FATAL %s" % fatal)
        print("VIOLATION property=%s replay=%s" % (prop, replay))
        rc = 1
    else:
        if os.path.exists(replay):
            os.remove(replay)
    print("%s %s: %d rule instances (%d ok, %d known findings, %d violations) over %s in %.1fs" % (
        prop, tier, len(rep.instances), n_ok, len(known_hit), len(new_viol), ",".join(sorted(per_cfg)), wall))
    return rc
