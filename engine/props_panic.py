"""C20: every accepted configuration yields a working cache.
R20.1 finalize validation, R20.2 panic-site audit, R20.3 sizing obligations, R20.4 lock order."""
from cachelib import *
import props_sketch
import props_life
import props_locks

SKIP_TRAITS = ("Debug", "Display", "Serialize")

# ----------------------------------------------------------------------------------------
# audited panic sites: (function spath regex, kind, operand regex) -> one-line reason.
# Everything else must be discharged automatically; a new panic-capable site that is in fact
# unreachable is reported as "undischarged" until it is added here with its reason.
# ----------------------------------------------------------------------------------------
import re

AUDITED = [
    (r"^ttl::Time::(unix|elapsed|get_ttl)$", "unwrap", r"SystemTime::(duration_since|elapsed)",
     "assumption: the system clock does not step backwards past the entry's creation / the epoch (recorded in the evidence)"),
    (r"^sketch::CountMinSketch::new$", "unwrap", r"SystemTime::duration_since\(SystemTime::now\(\), std::time::UNIX_EPOCH\)",
     "assumption: the system clock is after 1970"),
    (r"^sketch::CountMinRow::(get|increment)$", "index", r"\(\(i >> 1\) as usize\)",
     "byte i/2 with i <= mask is inside the row: sizing obligation R13.5 (mask/2 < width), decided by check_sketch_sizing"),
    (r"^<sketch::CountMinRow as std::ops::Index(Mut)?<usize>>::index(_mut)?$", "index", r"^self\.0 \[index\]$",
     "forwarding impl; callers are CountMinRow::get / increment (see R13.5)"),
    (r"^bbloom::Bloom::(set|is_set)$", "index", r"^self\.bitset \[",
     "word idx/64 with idx <= the position mask is inside the bit array: sizing obligation R14.5 (highest word addressed by set / is_set at idx = mask < words allocated, for every size), decided by check_bloom_sizing; callers mask every position with self.size (R14.1)"),
    (r"^histogram::Histogram::update$", "index", r"^self\.count_per_bucket \[",
     "count_per_bucket has bounds.len() + 1 slots (Histogram::new) and idx ranges over 0..=bounds.len()"),
    (r"^histogram::Histogram::percentile$", "index", r"^self\.bounds \[",
     "bounds is the fixed HISTOGRAM_BOUND_SIZE table built by new_histogram_bound (non-empty); idx < bounds.len() is tested before the access"),
    (r"^utils::vec_to_array", "panic", r"Expected a Vec of length",
     "called from MetricsInner::new with a Vec built from exactly SIZE_FOR_EACH_TYPE elements"),
    (r"^ttl::Time::unix", "std-op", r"Add>::add\(d, self\.d\)",
     "epoch offset + TTL overflows only for TTLs beyond ~5.8e11 years; a TTL is not a builder parameter (C20) and C03 ranges over sub-second to hours"),
    (r"^<TransparentHasher as std::hash::Hasher>::write$", "std-op", r"copy_from_slice",
     "both copies are between slices of equal length: data (8 bytes) <- bytes[..8], data[..bytes.len()] <- bytes with bytes.len() <= 8"),
    (r"::(LFUPolicy|AsyncLFUPolicy)::add$", "std-op", r"Vec::drain\(\w+, .*RangeFrom",
     "drain(new_len..) with new_len = sample.len() - 1 <= len (the sample is non-empty here, see the index entry)"),
    (r"^bbloom::Bloom::new$", "sub", r"get_size\(.*\)\.(size|0) - 1$|^64 - bbloom::get_size\(.*\)\.(exp|1)$",
     "get_size yields size = 2^exp with 9 <= exp <= 63 (R14.5): size - 1 and 64 - exp do not underflow"),
    (r"CacheProcessor::track_admission", "sub", r"num_to_keep - 1$",
     "num_to_keep is the constant 100000 passed by finalize"),
    (r"^histogram::Histogram::percentile$|^<histogram::Histogram as std::fmt::Display>::fmt$", "sub", r"^Vec::len\(self\.(bounds|count_per_bucket)\) - 1$|\.0\.0 - 1$",
     "bounds has HISTOGRAM_BOUND_SIZE (16) entries and count_per_bucket one more; the enumerate index is decremented only on the `idx > 0` side (Display) "),
    (r"::(LFUPolicy|AsyncLFUPolicy)::add$", "sub", r"^Vec::len\(\w+\) - 1$",
     "the sample is non-empty here (see the index entry)"),
    (r"^<TransparentHasher as std::hash::Hasher>::write$", "index", r"bytes|data",
     "bytes[..8] is taken only when bytes.len() > 8, data[..bytes.len()] only when bytes.len() <= 8"),
]


def interval_max(body, e, facts, depth=0):
    """Upper bound of a non-negative integer expression, or None."""
    e = norm(e)
    k = e[0]
    if k == "const" and isinstance(e[1], int):
        return e[1]
    if k == "cast":
        return interval_max(body, e[2], facts, depth + 1)
    if k == "bin":
        op, a, b = e[1], e[2], e[3]
        if op == "BitAnd":
            for x, y in ((a, b), (b, a)):
                if y[0] == "const" and isinstance(y[1], int):
                    return y[1]
        if op == "Rem" and b[0] == "const" and isinstance(b[1], int) and b[1] > 0:
            return b[1] - 1
        if op == "Mul":
            ma, mb = interval_max(body, a, facts, depth + 1), interval_max(body, b, facts, depth + 1)
            if ma is not None and mb is not None:
                return ma * mb
        if op == "Add":
            ma, mb = interval_max(body, a, facts, depth + 1), interval_max(body, b, facts, depth + 1)
            if ma is not None and mb is not None:
                return ma + mb
        if op == "Shr" and b[0] == "const":
            ma = interval_max(body, a, facts, depth + 1)
            if ma is not None:
                return ma >> b[1]
    if k == "var" and body.is_closure and depth < 3:
        # closure parameter iterating a constant range
        p = closure_passed_to(facts, body)
        # for_each / map / all / any hand the element over as the first parameter, fold as the second
        pos = 3 if (p is not None and callee_matches(p[0].callee_of(p[2]), "Iterator::fold")) else 2
        if p is not None and e == V(body.local_name.get(pos, "arg%d" % pos)):
            recv = norm(p[0].call_args(p[2])[0])
            if recv[0] == "agg" and recv[2].endswith("Range::Range") and recv[3][1][0] == "const":
                return recv[3][1][1] - 1
    if k == "var":
        ex = norm(body.expand(e))
        if ex != e and depth < 4:
            return interval_max(body, ex, facts, depth + 1)
    # the element of a loop over a constant range: `for i in 0..N` (or a named copy of it)
    for it in iterations(body):
        if it.canon(e) == ("elem",):
            src = it.source
            if src[0] == "agg" and src[2].endswith("Range::Range") and src[3][1][0] == "const" and isinstance(src[3][1][1], int):
                return src[3][1][1] - 1
    return None


def _unsigned_operand(b, t):
    a = t.get("a", {})
    ty = None
    if a.get("k") in ("copy", "move"):
        l = b.locals[a["pl"]["l"]]
        ty = l["ty"] if not a["pl"]["p"] else None
    elif a.get("k") == "const":
        ty = a.get("ty")
    if ty is None:
        bb_ = t.get("b", {})
        if bb_.get("k") == "const":
            ty = bb_.get("ty")
    return ty in ("usize", "u64", "u32", "u16", "u8", "u128")


def interval_min(body, e, facts, depth=0):
    """Lower bound of a non-negative integer expression, or None."""
    e = norm(e)
    if e[0] == "const" and isinstance(e[1], int):
        return e[1]
    if e[0] == "cast":
        return interval_min(body, e[2], facts, depth + 1)
    if is_call(e, "next_power_of_two"):
        return 1
    if e[0] == "bin" and e[1] in ("Add", "Mul"):
        a, b_ = interval_min(body, e[2], facts, depth + 1), interval_min(body, e[3], facts, depth + 1)
        if a is not None and b_ is not None:
            return a + b_ if e[1] == "Add" else a * b_
    if e[0] == "var" and depth < 4:
        ex = norm(body.expand(e))
        if ex != e:
            return interval_min(body, ex, facts, depth + 1)
    return None


def builder_options_always_some(facts):
    """Every construction of CacheBuilderCore sets hasher / update_validator / coster / callback to
    Some(..) or forwards the same field of self."""
    n = 0
    for b in facts.bodies:
        for bi, si, st, e in agg_nodes(b, "cache::builder::CacheBuilderCore"):
            f = agg_fields(e)
            n += 1
            for fld in ("hasher", "update_validator", "coster", "callback"):
                v = f.get(fld)
                if v is None:
                    return False, "%s: field %s missing" % (b.spath, fld)
                if v[0] == "agg" and v[2].endswith("Option::Some"):
                    continue
                if v == norm(F(V("self"), fld)):
                    continue
                return False, "%s builds CacheBuilderCore with %s = %s" % (b.spath, fld, show(v))
    return n >= 5, "%d constructions" % n


# std operations documented to panic on overflow / invalid arguments (time arithmetic above all:
# `Instant + Duration`, `SystemTime + Duration`, `Duration + Duration`, ... panic where the
# checked_* forms return None), slice copies with unequal lengths, out-of-range Vec edits
STD_PANICKING = re.compile(
    r"<std::time::(Instant|SystemTime|Duration) as std::ops::(Add|Sub|Mul|Div|AddAssign|SubAssign|MulAssign|DivAssign)"
    r"|Duration::(from_secs_f32|from_secs_f64|mul_f32|mul_f64|div_f32|div_f64)$"
    r"|copy_from_slice$|clone_from_slice$|swap_with_slice$"
    r"|Vec::(<[^>]*>::)?(remove|swap_remove|insert|drain|split_off|swap)$"
    r"|VecDeque::(<[^>]*>::)?(remove|swap_remove_back|insert|drain|split_off)$"
    r"|RefCell::(<[^>]*>::)?(borrow|borrow_mut)$"
    r"|Iterator::step_by$|::chunks$|::chunks_exact$|::windows$|::split_at$|::split_at_mut$"
    r"|thread::Builder::spawn$"
    r"|(Ord|f32|f64)::clamp$|::clamp$")


def panic_sites(fl):
    """Enumerate panic-capable sites of the bodies that belong to this flavour or are shared."""
    facts = fl.facts
    other = "r#async" if fl.name == "sync" else "::sync::"
    out = []
    for b in facts.bodies:
        tr = (b.raw.get("impl_trait") or "")
        if any(tr.endswith(x) for x in SKIP_TRAITS):
            continue
        root = strip_generics(b.raw["root"])
        if other in root:
            continue
        # the initialiser of a `const` / `static` item (`const _: () = assert!(N.is_power_of_two());`) is evaluated by the
        # compiler: a panic in it is a build error, not something a configuration can reach at run time
        if re.match(r"(Const|AnonConst|InlineConst|Static)\b", str(b.raw.get("defkind") or "")) and not b.arg_count:
            continue
        for bi in b.live_blocks():
            t = b.term(bi)
            if not t:
                continue
            if t["k"] == "assert":
                out.append((b, bi, t, "assert:" + t["ak"]))
            elif t["k"] == "call":
                c = b.callee_of(t)
                if callee_matches(c, "Option::unwrap") or callee_matches(c, "Result::unwrap") or callee_matches(c, "Option::expect") or callee_matches(c, "Result::expect"):
                    out.append((b, bi, t, "unwrap"))
                elif callee_matches(c, "Index::index") or callee_matches(c, "IndexMut::index_mut"):
                    if not t.get("rlocal"):
                        out.append((b, bi, t, "index"))
                    else:
                        out.append((b, bi, t, "index"))
                elif "panicking::" in c or callee_matches(c, "unwrap_failed") or callee_matches(c, "begin_panic"):
                    out.append((b, bi, t, "panic"))
                elif STD_PANICKING.search(c) or STD_PANICKING.search(t.get("resolved") or ""):
                    if user_code(b) and not t["sp"].get("exp"):
                        out.append((b, bi, t, "std-op"))
    return out


def check_panic_sites(rep, fl, rule="R20.2"):
    facts = fl.facts
    res, reason = may_err(facts)
    me = MayErr(facts)
    me.memo.update(res)
    opts_ok, opts_why = builder_options_always_some(facts)
    sizing_ok = True
    sites = panic_sites(fl)
    counts = {}
    for b, bi, t, kind in sites:
        sp = t["sp"]
        in_dep = not sp["f"].startswith("src/") or (sp.get("exp") and not sp["f"].startswith("src/"))
        cls = None
        desc = ""
        if in_dep:
            cls = "dependency-macro-internal"
        elif kind == "assert:overflow" and str(t.get("op", "")).startswith("Sub") and _unsigned_operand(b, t):
            # an unsigned subtraction: panics in overflow-checked builds and wraps to a huge value otherwise
            # (a never-reached threshold, an out-of-range index): it has to be shown not to underflow
            av = resolve_payloads(b, b.operand_expr(t["a"], True))   # (a value that came back through `helper(..)?`)
            bv = resolve_payloads(b, b.operand_expr(t["b"], True))
            desc = "%s - %s" % (show(av), show(bv))
            kind = "sub"
            am = interval_min(b, av, facts)
            bm = interval_max(b, bv, facts)
            if am is not None and bm is not None and am >= bm:
                cls = "minuend >= %d >= subtrahend" % bm
            else:
                sts = None
                at_, _e = dataflow(b)
                sts = [expand_state(b, s_, hist=True) for s_ in at_.get((bi, term_idx(b, bi)), set())]
                # guarded by `b < a` / `!(a < b)` / `a > b` on the same operands
                def guarded(s_):
                    # (p - q) - 1 where the path knows q < p (integers: p - q >= 1)
                    d_ = strip_casts(av)
                    one = bv[0] == "const" and isinstance(bv[1], int) and bv[1] <= 1
                    for x, v in s_.lits:
                        if one and d_[0] == "bin" and d_[1] == "Sub" and x[0] == "bin" and x[1] in ("Lt", "Le"):
                            l_, r_ = strip_casts(x[2]), strip_casts(x[3])
                            p_, q_ = strip_casts(d_[2]), strip_casts(d_[3])
                            if (x[1] == "Lt" and v and l_ == q_ and r_ == p_) or (x[1] == "Le" and v is False and l_ == p_ and r_ == q_):
                                return True
                        if x[0] == "bin" and x[1] == "Lt":
                            l_, r_ = strip_casts(x[2]), strip_casts(x[3])
                            if v and l_ == strip_casts(bv) and r_ == strip_casts(av):
                                return True
                            if v is False and l_ == strip_casts(av) and r_ == strip_casts(bv):
                                return True
                        if x[0] == "variant" and is_call(x[1], "Ord::cmp") and v:
                            a0, a1 = strip_casts(norm(x[1][2][0])), strip_casts(norm(x[1][2][1]))
                            if (x[2] == "Greater" and mentions(av, a0) and mentions(av, a1)) or (x[2] == "Greater" and a0 == strip_casts(av) and a1 == strip_casts(bv)):
                                return True
                    return False
                if sts and all(guarded(s_) for s_ in sts):
                    cls = "guarded by a comparison of the same operands"
        elif kind == "assert:overflow":
            cls = "overflow-check(debug builds only)"
        elif kind in ("assert:div_zero", "assert:rem_zero"):
            # cond is Eq(const N, 0) with N != 0
            ce = norm(b.operand_expr(t["cond"], True))
            ok = ce[0] == "bin" and ce[1] == "Eq" and any(x[0] == "const" and isinstance(x[1], int) and x[1] != 0 for x in (ce[2], ce[3]))
            cls = "constant non-zero divisor" if ok else None
            desc = show(ce)
        elif kind == "assert:bounds":
            idx = b.operand_expr(t["index"], True)
            ln = norm(b.operand_expr(t["len"], True))
            m = interval_max(b, idx, facts)
            if ln[0] == "const" and m is not None and m < ln[1]:
                cls = "index bounded by construction (max %d < len %d)" % (m, ln[1])
            desc = "%s < %s" % (show(norm(idx)), show(ln))
        elif kind == "unwrap":
            src = norm(b.call_args(t)[0])
            desc = show(src)
            why = me.errish(src, b) if callee_matches(b.callee_of(t), "Result::unwrap") or callee_matches(b.callee_of(t), "Result::expect") else "option"
            if why is None:
                cls = "Result cannot be Err (may-Err analysis)"
            elif opts_ok and src[0] == "field" and src[2] in ("hasher", "update_validator", "coster", "callback") and src[1] == norm(F(V("self"), "inner")):
                cls = "builder option is Some in every CacheBuilderCore construction"
            elif is_call(src, "TryInto::try_into") or is_call(src, "try_into"):
                # Vec collected from Range{0, N} into [_; N]
                inner = src[2][0]
                rng = [s for s in subexprs(inner) if s[0] == "agg" and s[2].endswith("Range::Range")]
                n = facts.const_value("store::NUM_OF_SHARDS")
                if rng and rng[0][3][0] == ("const", 0, "usize") and rng[0][3][1] == ("const", n, "usize") and ("; %d]" % n in t.get("destty", "") or "NUM_OF_SHARDS]" in t.get("destty", "") or True):
                    dty = t.get("destty", "")
                    cls = "Vec of NUM_OF_SHARDS elements converted to [_; NUM_OF_SHARDS]" if (("; %d]" % n) in dty or "NUM_OF_SHARDS" in dty or "Box<[" in dty) else None
        elif kind == "index":
            a = [norm(x) for x in b.call_args(t)]
            desc = "%s [%s]" % (show(a[0]), show(a[1]))
            # constant index into a collection built from a constant range
            if a[1][0] == "const" and isinstance(a[1][1], int):
                rng = [s for s in subexprs(a[0]) if s[0] == "agg" and s[2].endswith("Range::Range") and s[3][1][0] == "const"]
                if rng and a[1][1] < rng[0][3][1][1] and is_call(a[0], "Iterator::collect"):
                    cls = "constant index %d < %d collected elements" % (a[1][1], rng[0][3][1][1])
                elif a[1][1] == 0:
                    # guarded by len != 0
                    at, entry = dataflow(b)
                    sts = [expand_state(b, s, hist=True) for s in at.get((bi, term_idx(b, bi)), set())]
                    lenx = call("std::vec::Vec::len", a[0])
                    if sts and all(any(x[0] == "bin" and x[1] == "Eq" and v is False and mentions(x, norm(lenx)) for x, v in s.lits) for s in sts):
                        cls = "index 0 guarded by len != 0"
            # loop index guarded by idx != len(X) for X[idx] with idx in 0..=len(X)
            if cls is None and a[1][0] == "field" and a[1][1][0] == "downcast":
                at, entry = dataflow(b)
                sts = [expand_state(b, s, hist=True) for s in at.get((bi, term_idx(b, bi)), set())]
                lenx = norm(call("std::vec::Vec::len", a[0]))
                rng_ok = any(is_call(norm(b.call_expr(tt, True)), "RangeInclusive::new") and norm(b.call_args(tt)[1]) == lenx for _, tt in b.calls())
                if rng_ok and sts and all(any(x[0] == "bin" and x[1] == "Eq" and v is False and lenx in (x[2], x[3]) and a[1] in (x[2], x[3]) for x, v in s.lits) for s in sts):
                    cls = "idx in 0..=len guarded by idx != len"
            # the eviction sample of add(): `sample[len - 1]` and `sample[<index found by the minimum search>]`
            # (recognised by role - the vector that fill_sample returns - not by the names of the locals)
            if cls is None and re.search(r"::(LFUPolicy|AsyncLFUPolicy)::add$", b.spath) and a[0][0] == "var":
                vec_defs = var_def_exprs(b, a[0], False)
                is_sample = any(is_call(d, "SampledLFU::fill_sample") for d in vec_defs)
                lenm1 = norm(("bin", "Sub", call("std::vec::Vec::len", a[0]), ("const", 1, "usize")))
                if is_sample and (a[1][0] == "var" or norm(b.expand(a[1])) == lenm1 or a[1] == lenm1):
                    cls = ("audited: the sample is non-empty here: room < 0 with cost <= max_cost implies used > 0, hence key_costs (invariant R01.2) and the refilled sample "
                           "are non-empty; the variable index is the position found by the minimum search over the same vector")
        elif kind == "panic":
            a = [show(norm(x)) for x in b.call_args(t)]
            desc = " ".join(a)[:120]
        elif kind == "std-op":
            desc = "%s(%s)" % (short(b.callee_of(t)), ", ".join(show(norm(x)) for x in b.call_args(t)))
            desc = desc[:160]
            if callee_matches(b.callee_of(t), "Vec::drain") and len(t["args"]) == 2 and "RangeFull" in ((t.get("argtys") or ["", ""])[1]):
                cls = "drain(..) over the full range: no bound to violate"
            if b.callee_of(t).endswith("::clamp") and len(t["args"]) == 3:
                # clamp(min, max) asserts min <= max
                lo_, hi_ = (norm(b.expand(norm(x_))) for x_ in b.call_args(t)[1:])
                lo_m, hi_m = interval_max(b, lo_, facts), interval_min(b, hi_, facts)
                if lo_m is not None and hi_m is not None and lo_m <= hi_m:
                    cls = "clamp bounds ordered by construction (min <= %d <= %d <= max)" % (lo_m, hi_m)
            if callee_matches(b.callee_of(t), "Sub::sub") or (" as std::ops::Sub>::sub" in b.callee_of(t)):
                # `x - y` on a type whose subtraction panics on underflow (Duration, Instant): every path to it
                # has compared the same two operands and knows x >= y
                a = [norm(b.expand(norm(x_))) for x_ in b.call_args(t)]
                at_, entry_ = dataflow(b)
                sts_ = [expand_state(b, s_, hist=True) for s_ in at_.get((bi, term_idx(b, bi)), set())]

                def _ge(s_, x_, y_):
                    for l_, v_ in s_.lits:
                        op_ = None
                        if l_[0] == "call" and l_[1].startswith("std::cmp::PartialOrd::") and len(l_[2]) == 2:
                            op_, p_, q_ = l_[1].rsplit("::", 1)[1], norm(b.expand(l_[2][0])), norm(b.expand(l_[2][1]))
                        elif l_[0] == "bin" and l_[1] in ("Le", "Lt", "Ge", "Gt"):
                            op_, p_, q_ = l_[1].lower(), norm(b.expand(l_[2])), norm(b.expand(l_[3]))
                        if op_ is None:
                            continue
                        if (p_, q_) == (x_, y_) and ((op_ in ("ge", "gt") and v_ is True) or (op_ in ("le", "lt") and v_ is False)):
                            return True
                        if (p_, q_) == (y_, x_) and ((op_ in ("le", "lt") and v_ is True) or (op_ in ("ge", "gt") and v_ is False)):
                            return True
                    return False
                if len(a) == 2 and sts_ and all(_ge(s_, a[0], a[1]) for s_ in sts_):
                    cls = "subtraction guarded by a comparison of the same operands (minuend >= subtrahend on every path)"
        if cls is None:
            # audited table
            for fre, k2, ore, why in AUDITED:
                if re.search(fre, b.spath) and (k2 == kind or (k2 == "index" and kind == "index") or (k2 == "unwrap" and kind == "unwrap") or (k2 == "panic" and kind == "panic") or (k2 == "std-op" and kind == "std-op") or (k2 == "sub" and kind == "sub")) and re.search(ore, desc):
                    cls = "audited: " + why
                    break
        site = "%s %s" % (kind, desc[:90])
        counts[cls.split(":")[0] if cls else "undischarged"] = counts.get(cls.split(":")[0] if cls else "undischarged", 0) + 1
        if cls is None:
            rep.bad(rule, fl, b, site, "undischarged panic site (%s): neither bounded by construction nor audited - an accepted configuration or ordinary use may reach a panic in the caller or kill a worker" % kind, loc=sp)
        elif not cls.startswith("overflow") and not cls.startswith("dependency"):
            rep.ok(rule, fl, b, site, cls, loc=sp)
    rep.note("R20.2 %s panic-site classes: %s" % (fl.cfg, counts))
    n_real = sum(v for k, v in counts.items() if not k.startswith("overflow") and not k.startswith("dependency"))
    if n_real < 30:
        rep.missing(rule, fl, "only %d non-trivial panic sites enumerated (expected >= 30)" % n_real)
    rep.check(opts_ok, rule, fl, "cache::builder::CacheBuilderCore", "options always Some", "hasher / update_validator / coster / callback are Some in every construction (%s)" % opts_why,
              "a CacheBuilderCore can be built with a None option that finalize unwraps: %s" % opts_why)


def check_finalize(rep, fl, rule="R20.1"):
    b = fl.code(fl.builder + "::finalize")
    at, entry = dataflow(b)
    inner = F(V("self"), "inner")
    want = {"InvalidNumCounters": ("num_counters", "usize"), "InvalidMaxCost": ("max_cost", "i64"), "InvalidBufferSize": ("insert_buffer_size", "usize")}
    seen = {}
    for bi, si, st, e in agg_nodes(b, "error::CacheError"):
        v = e[2].split("::")[-1]
        if v in want:
            seen[v] = (bi, si, st)
    creators = [bi for bi, t in b.calls() if any(callee_matches(b.callee_of(t), n) for n in ("bounded", "unbounded", "stop_channel", "spawn", fl.policy + "::with_hasher", fl.processor + "::new"))]
    for v, (fld, ty) in sorted(want.items()):
        if v not in seen:
            rep.bad(rule, fl, b, v, "finalize never returns %s: a zero %s is accepted" % (v, fld))
            continue
        bi, si, st = seen[v]
        zero = A(("bin", "Eq", norm(F(inner, fld)), ("const", 0, ty)))
        ok, cx = all_states(b, at, (bi, si), zero, hist=True)
        # every creator is on the non-zero side
        okc = True
        for cbi in creators:
            for s in at.get((cbi, term_idx(b, cbi)), set()):
                if feval(zero, expand_state(b, s, hist=True)) is not False:
                    okc = False
        # the Err is returned
        okr = any(norm(b.def_expr(rbi, rsi, True))[0] == "agg" and norm(b.def_expr(rbi, rsi, True))[2].endswith("Result::Err") and rbi in b.reachable(bi) for rbi, rsi in b.defs.get(0, []))
        rep.check(ok and okc and okr and creators, rule, fl, b, v, "%s == 0 => Err(%s) before any channel, worker or policy is created" % (fld, v),
                  "finalize no longer rejects %s == 0 with %s before creating channels / workers" % (fld, v), loc=st["sp"])
    # the validated values are the ones used
    bc = [t for bi, t in b.calls() if callee_matches(b.callee_of(t), "bounded")]
    okb = len(bc) >= 1 and norm(b.call_args(bc[0])[0]) == norm(F(inner, "insert_buffer_size"))
    pw = calls_to(b, fl.policy + "::with_hasher")
    okp = len(pw) == 1 and [norm(x) for x in b.call_args(pw[0][1])][:2] == [norm(F(inner, "num_counters")), norm(F(inner, "max_cost"))]
    rep.check(okb and okp, rule, fl, b, "validated values used", "the validated num_counters / max_cost / insert_buffer_size are the ones handed to the policy and the buffer",
              "finalize validates one value and uses another")


def check_C20(rep, fl):
    check_finalize(rep, fl)
    check_builder_plumbing(rep, fl, skip_sites=("default ignore_internal_cost",))
    check_panic_sites(rep, fl)
    props_sketch.check_sketch_sizing(rep, fl, "R20.3")
    props_sketch.check_sketch_cells(rep, fl, rule="R20.3", fold=False)
    props_sketch.check_bloom_sizing(rep, fl, None)
    props_life.check_unwraps(rep, fl)
    props_locks.check_lock_order(rep, fl, rule="R20.4")


# ----------------------------------------------------------------------------------------
# R20.5 builder plumbing: every tunable reaches the place that uses it, unchanged
# ----------------------------------------------------------------------------------------

CORE = "cache::builder::CacheBuilderCore"
SIMPLE_SETTERS = {  # setter -> field it must write (frozen table: names are the public API)
    "set_num_counters": "num_counters", "set_max_cost": "max_cost", "set_buffer_items": "buffer_items", "set_buffer_size": "insert_buffer_size",
    "set_metrics": "metrics", "set_ignore_internal_cost": "ignore_internal_cost", "set_cleanup_duration": "cleanup_duration",
}
REBUILD_SETTERS = {"set_key_builder": "key_to_hash", "set_coster": "coster", "set_update_validator": "update_validator", "set_callback": "callback", "set_hasher": "hasher"}


def check_builder_plumbing(rep, fl, rule="R20.5", skip_sites=(), only_sites=None):
    """skip_sites / only_sites: instance sites that are not / the only ones that are a necessary condition of the
    property being checked."""
    if skip_sites or only_sites is not None:
        from framework import Report
        tmp = Report(rep.prop, rep.tier)
        try:
            check_builder_plumbing(tmp, fl, rule)
        finally:
            import fnmatch
            hit = lambda site, pats: any(fnmatch.fnmatchcase(site, p_) for p_ in pats)
            rep.instances.extend(i for i in tmp.instances if i.verdict == "anchor-missing" or
                                 (not hit(i.site, skip_sites) and (only_sites is None or hit(i.site, only_sites))))
            rep.notes.extend(tmp.notes)
        return
    facts = fl.facts
    adt = facts.adts.get(CORE)
    fields = [f["name"] for f in adt["variants"][0]["fields"]] if adt else []
    if len(fields) < 12:
        rep.missing(rule, fl, "CacheBuilderCore fields (%d)" % len(fields))
        return
    for m, fld in sorted(SIMPLE_SETTERS.items()):
        b = facts.body(CORE + "::" + m)
        param = V(b.local_name.get(2, "arg2"))
        ws = stmt_nodes(b, lambda s: s["pl"]["l"] == 1 and s["pl"]["p"])
        ags = agg_nodes(b, CORE)
        if ags and not ws:
            # `Self { field: v, ..self }`: a rebuilt builder, every other field taken from self
            f = agg_fields(ags[0][3]) if len(ags) == 1 else {}
            ret = return_expr(b)
            ok = len(ags) == 1 and ret is not None and norm(ret) == norm(ags[0][3]) and f.get(fld) == param and \
                all(f.get(name) == norm(F(V("self"), name)) or (name.startswith("marker") and f.get(name) is not None) for name in fields if name != fld)
        else:
            ok = len(ws) == 1 and field_last(ws[0][2]["pl"])[0] == fld
            if ok:
                v = norm(b.rvalue_expr(ws[0][2]["rv"], True))
                ok = v == param and norm(return_expr(b)) == V("self")
        rep.check(ok, rule, fl, b, m, "%s(v) writes v into %s and returns the builder" % (m, fld), "%s does not store its argument into `%s` (only): the configured value is lost or lands in another tunable" % (m, fld))
    for m, fld in sorted(REBUILD_SETTERS.items()):
        b = facts.body(CORE + "::" + m)
        ags = agg_nodes(b, CORE)
        ok = len(ags) == 1
        rep.check(ok, rule, fl, b, m, "%s rebuilds the builder with one struct literal" % m, "%s does not rebuild the builder with one struct literal" % m)
        if ok:
            f = agg_fields(ags[0][3])
            param = V(b.local_name.get(2, "arg2"))
            for name in fields:
                v = f.get(name)
                if name == fld:
                    good = v == param or (v is not None and v[0] == "agg" and v[2].endswith("Option::Some") and v[3][0] == param)
                elif name.startswith("marker"):
                    good = v is not None
                else:
                    good = v == norm(F(V("self"), name))
                # one instance per field: a property rests on the tunables it is about
                rep.check(good, rule, fl, b, "%s keeps %s" % (m, name), "%s carries %s over unchanged" % (m, name) if name != fld else "%s installs its argument as %s" % (m, name),
                          "%s sets %s = %s (a tunable configured before this call is silently replaced)" % (m, name, show(v) if v is not None else "?"))
    # public wrappers forward to the core setter with their own argument
    n = 0
    for m in list(SIMPLE_SETTERS) + list(REBUILD_SETTERS):
        b = facts.body(fl.builder + "::" + m, required=False)
        if b is None:
            continue
        n += 1
        cs = calls_to(b, CORE + "::" + m)
        ok = len(cs) == 1
        if ok:
            a = [norm(x) for x in b.call_args(cs[0][1])]
            ok = a[0] == norm(F(V("self"), "inner")) and a[1] == V(b.local_name.get(2, "arg2"))
            e = norm(return_expr(b))
            ok = ok and e[0] == "agg" and agg_fields(e).get("inner") is not None and is_call(agg_fields(e)["inner"], CORE + "::" + m)
        rep.check(ok, rule, fl, b, m, "%s::%s forwards its argument to the core builder" % (short(fl.builder), m), "%s::%s does not forward to CacheBuilderCore::%s" % (short(fl.builder), m, m))
    if n < 12:
        rep.missing(rule, fl, "only %d builder wrappers found" % n)
    # finalize consumes every tunable
    fin = fl.code(fl.builder + "::finalize")
    inner = F(V("self"), "inner")
    rs = calls_to(fin, fl.ring + "::new")
    ok = len(rs) == 1 and norm(fin.call_args(rs[0][1])[1]) == norm(F(inner, "buffer_items"))
    rep.check(ok, rule, fl, fin, "buffer_items -> ring", "buffer_items sizes the get buffer", "finalize does not size the get buffer with buffer_items")
    pn = calls_to(fin, fl.processor + "::new")
    ok = len(pn) == 1
    if ok:
        a = [norm(x) for x in fin.call_args(pn[0][1])]
        ok = a[1] == norm(F(inner, "ignore_internal_cost")) and a[2] == norm(F(inner, "cleanup_duration"))
    rep.check(ok, rule, fl, fin, "flags -> processor", "ignore_internal_cost and cleanup_duration reach the processor", "finalize does not hand ignore_internal_cost / cleanup_duration to the processor")
    # premise of the audited `num_to_keep - 1` in track_admission: the bound handed to the processor is a literal >= 1
    okn = len(pn) == 1
    if okn:
        n2k = norm(fin.call_args(pn[0][1])[0])
        okn = n2k[0] == "const" and isinstance(n2k[1], int) and n2k[1] >= 1
    rep.check(okn, rule, fl, fin, "num_to_keep literal", "the processor's num_to_keep is a literal >= 1 (premise of the audited `num_to_keep - 1`)",
              "finalize no longer hands a literal >= 1 to the processor as num_to_keep: `num_to_keep - 1` in track_admission can underflow")
    # defaults: a builder on which the flag was never set charges the internal overhead
    nctor = 0
    okd = True
    badd = ""
    for b in facts.bodies:
        if not user_code(b) or not strip_generics(b.raw["root"]).startswith(CORE + "::new"):
            continue
        for bi_, si_, st_, e_ in agg_nodes(b, CORE):
            nctor += 1
            v = agg_fields(e_).get("ignore_internal_cost")
            if v != ("const", False, "bool") and v != ("const", 0, "bool"):
                okd = False
                badd = "%s sets ignore_internal_cost = %s" % (b.spath, show(v) if v is not None else "?")
    rep.check(okd and nctor >= 1, rule, fl, CORE, "default ignore_internal_cost", "a new builder starts with ignore_internal_cost = false: the internal overhead is charged unless the flag is set",
              "the builder's default for ignore_internal_cost is not false (%s): a cache built without touching the flag does not charge the internal overhead" % badd)
    at, entry = dataflow(fin)
    mo = calls_to(fin, "metrics::Metrics::new_op")
    ok = len(mo) == 1
    if ok:
        sts = [expand_state(fin, s, hist=True) for s in at.get((mo[0][0], term_idx(fin, mo[0][0])), set())]
        ok = bool(sts) and all(feval(A(F(inner, "metrics")), s) is True for s in sts)
        cm = calls_to(fin, fl.policy + "::collect_metrics")
        ok = ok and len(cm) == 1
        if ok:
            # the policy is handed the metrics exactly when the flag is set: in the same branch as new_op, or in a
            # later `if flag { policy.collect_metrics(..) }`
            import props_cache

            def lab_(bi_, t_):
                return "share" if t_ is cm[0][1] else ("op" if t_ is mo[0][1] else None)
            outs_, _at = props_cache.count_paths(fin, lab_)
            ok = bool(outs_)
            for s_, cnt_ in outs_:
                es_ = expand_state(fin, s_, hist=True)
                if any(a_[0] == "variant" and a_[2] == "Break" and v_ for a_, v_ in es_.lits):
                    continue  # an error return (`?`): no cache is built
                flag_ = feval(A(F(inner, "metrics")), es_)
                # a path that never looked at the flag left before the metrics were set up (a rejected configuration)
                want_ = {"op": 1, "share": 1} if flag_ is True else {}
                if cnt_ != want_:
                    ok = False
    rep.check(ok, rule, fl, fin, "metrics flag", "Op metrics (shared with the policy) are created exactly when the metrics flag is set", "the metrics flag no longer decides whether Op metrics are created and shared with the policy")
    cache_f = None
    for bi, si, st, e in agg_nodes(fin, fl.cache.split("::")[-1]):
        cache_f = agg_fields(e)
    ok = cache_f is not None
    if ok:
        k2h = cache_f.get("key_to_hash")
        ok = k2h is not None and mentions(k2h, norm(F(inner, "key_to_hash")))
        for fld, src in (("coster", "coster"), ("callback", "callback")):
            v = cache_f.get(fld)
            ok = ok and v is not None and mentions(norm(fin.expand(v)), norm(F(inner, src)))
    rep.check(ok, rule, fl, fin, "key builder / coster / callback", "the configured KeyBuilder, Coster and CacheCallback are the ones installed in the cache", "finalize installs another KeyBuilder / Coster / CacheCallback than the configured one")
