"""Whole-crate services for the cache-level rules: call graph, thread contexts, may-Err."""
from lib import *


def item_field(variant, fld, item=V("item")):
    return ("field", ("downcast", item, variant), fld)


class CallGraph:
    """Direct call edges between crate-local bodies, plus parent -> closure edges (a closure is
    considered callable from the body that creates it)."""

    def __init__(self, facts):
        self.facts = facts
        self.out = {}
        self.inn = {}
        for b in facts.bodies:
            outs = set()
            for bi, t in b.calls():
                r = t.get("resolved") or t.get("callee")
                if r and (t.get("rlocal") or t.get("local")):
                    for cand in facts.by_path.get(r, []):
                        outs.add(id(cand))
                        self.inn.setdefault(id(cand), set()).add(id(b))
            for c in facts.children(b):
                outs.add(id(c))
                self.inn.setdefault(id(c), set()).add(id(b))
            self.out[id(b)] = outs
        self.by_id = {id(b): b for b in facts.bodies}

    def reach(self, roots, blocked=()):
        blocked = set(blocked)
        seen = set(id(r) for r in roots)
        stack = list(seen)
        while stack:
            x = stack.pop()
            for y in self.out.get(x, ()):
                if y in blocked:
                    continue
                if y not in seen:
                    seen.add(y)
                    stack.append(y)
        return seen

    def callers_of(self, body):
        return [self.by_id[i] for i in self.inn.get(id(body), ())]


def contexts(fl, cg=None):
    """body id -> set of contexts {'client', 'processor', 'policy-worker'} it can run in.
    processor: everything reachable from the closure / async block handed to spawn in
    CacheProcessor::spawn; policy-worker: same for PolicyProcessor::spawn; client: everything
    reachable from the reachable-public methods of the cache type, ValueRef*, Metrics."""
    facts = fl.facts
    cg = cg or CallGraph(facts)
    sp = facts.body(fl.processor + "::spawn")
    proc_roots = [b for b in descendants(facts, sp) if b is not sp]
    psp = facts.body(fl.pproc + "::spawn")
    pol_roots = [b for b in descendants(facts, psp) if b is not psp]
    client_roots = []
    for b in facts.bodies:
        if b.is_closure or b.coroutine:
            continue
        info = facts.fns.get(b.path)
        if not info or not info.get("reachable"):
            continue
        st = strip_generics(b.raw.get("impl_self", ""))
        if st.startswith(fl.cache) or st.startswith("utils::ValueRef") or st.startswith("metrics::Metrics"):
            client_roots.append(b)
    ctx = {}
    # the closure / async block handed to spawn runs on the worker, not on the thread that spawns it
    spawned = {id(b) for b in proc_roots if root_is(b, sp)} | {id(b) for b in pol_roots if root_is(b, psp)}
    top_spawned = {id(b) for b in facts.children(sp)} | {id(b) for b in facts.children(psp)}
    for name, roots in (("processor", proc_roots), ("policy-worker", pol_roots), ("client", client_roots)):
        blocked = top_spawned if name == "client" else ()
        for i in cg.reach(roots, blocked):
            ctx.setdefault(i, set()).add(name)
    return ctx, cg, {"processor": proc_roots, "policy-worker": pol_roots, "client": client_roots}


def root_is(b, root):
    return b.raw["root"] == root.path


def root_of(facts, b):
    c = facts.by_path.get(b.raw["root"], [])
    return c[0] if len(c) == 1 else b


def call_sites_in_crate(facts, callee, flavour_filter=None):
    """All (body, bi, term) calling `callee` (generic-stripped path match)."""
    out = []
    for b in facts.bodies:
        for bi, t in calls_to(b, callee):
            out.append((b, bi, t))
    return out


# ----------------------------------------------------------------------------------------
# may-Err: can a crate function return Err?
# ----------------------------------------------------------------------------------------

PASS_FIRST = ("Result::map", "Result::map_err", "Result::inspect", "Result::inspect_err", "Result::or_else")


class MayErr:
    """spath -> bool for crate functions returning Result: True iff an Err can reach the return
    value.  Decided on the return expressions: Ok{..} aggregates are infallible, Err{..} are
    fallible, `?` forwards the fallibility of its operand, combinators forward their receiver /
    closures, crate callees are looked up recursively (fixed point), any other Result-typed
    source (external call, variable) is fallible."""

    def __init__(self, facts):
        self.facts = facts
        self.memo = {}
        self.reason = {}
        self.stack = set()

    def code_body(self, b):
        if b.raw.get("asyncness"):
            c = self.facts.by_path.get(b.path + "::{closure#0}", [])
            if len(c) == 1:
                return c[0]
        return b

    def of_path(self, path):
        sp = strip_generics(path)
        if sp in self.memo:
            return self.memo[sp]
        c = self.facts.by_path.get(path) or self.facts.by_spath.get(sp, [])
        if len(c) != 1:
            self.memo[sp] = True
            self.reason[sp] = "unknown body"
            return True
        if sp in self.stack:
            return False  # optimistic on recursion; the fixed point is re-run by callers
        self.stack.add(sp)
        r = self.of_body(self.code_body(c[0]), sp)
        self.stack.discard(sp)
        self.memo[sp] = r
        return r

    def of_body(self, b, tag):
        for bi, si in b.defs.get(0, []):
            e = b.def_expr(bi, si, True)
            why = self.errish(e, b)
            if why:
                self.reason[tag] = why
                return True
        return False

    def closure_errish(self, ce):
        cb = self.facts.closure_body(ce[1])
        for bi, si in cb.defs.get(0, []):
            why = self.errish(cb.def_expr(bi, si, True), cb)
            if why:
                return why
        return None

    def errish(self, e, b, _depth=0):
        """None if e cannot be Err, else a short reason."""
        if not isinstance(e, tuple) or not e:
            return None
        k = e[0]
        if k == "agg":
            if e[1] == "adt" and e[2].endswith("Result::Ok"):
                return None
            if e[1] == "adt" and e[2].endswith("Result::Err"):
                return "constructs Err(%s)" % (show(e[3][0]) if e[3] else "")
            return None
        if k == "call":
            c = e[1]
            if callee_matches(c, "FromResidual::from_residual"):
                a = e[2][0]
                # (Try::branch(X) as Break).0
                for sub in subexprs(a):
                    if is_call(sub, "Try::branch"):
                        return self.errish(sub[2][0], b)
                return "forwards a residual"
            if any(callee_matches(c, n) for n in PASS_FIRST):
                return self.errish(e[2][0], b)
            if callee_matches(c, "Result::and_then"):
                return self.errish(e[2][0], b) or (self.closure_errish(e[2][1]) if e[2][1][0] == "closure" else "and_then(fn)")
            if callee_matches(c, "Result::map_or_else") or callee_matches(c, "Option::map_or_else"):
                for x in e[2][1:]:
                    if x[0] == "closure":
                        w = self.closure_errish(x)
                        if w:
                            return w
                return None
            if callee_matches(c, "Option::map_or") or callee_matches(c, "Result::map_or"):
                w = self.errish(e[2][1], b)
                if w:
                    return w
                if e[2][2][0] == "closure":
                    return self.closure_errish(e[2][2])
                return None
            if callee_matches(c, "Option::ok_or") or callee_matches(c, "Option::ok_or_else"):
                return "ok_or on an Option"
            # crate-local callee?
            cands = self.facts.by_spath.get(c, [])
            if len(cands) == 1:
                return ("calls %s" % short(c)) if self.of_path(cands[0].path) else None
            return "forwards %s" % short(c)
        if k == "field" and e[1][0] == "downcast" and e[1][2] == "Ready" and e[1][1][0] == "call":
            # value of `fut.await`: the polled coroutine's own result when it is a crate async fn
            c = e[1][1][1]
            cands = self.facts.by_spath.get(c, [])
            if len(cands) == 1 and cands[0].coroutine:
                tag = c
                if tag in self.memo:
                    return ("awaits %s" % short(c)) if self.memo[tag] else None
                if tag in self.stack:
                    return None
                self.stack.add(tag)
                r = self.of_body(cands[0], tag)
                self.stack.discard(tag)
                self.memo[tag] = r
                return ("awaits %s" % short(c)) if r else None
            return "awaits %s" % short(c)
        if k in ("var", "tmp") and _depth < 5:
            # a local assigned on several paths (e.g. the result slot of an inlined helper): every
            # definition must be infallible
            l = b.name_local.get(e[1]) if k == "var" else e[1]
            if isinstance(l, int) and not (1 <= l <= b.arg_count) and b.defs.get(l) and not b.partial_defs.get(l):
                for bi, si in b.defs[l]:
                    w = self.errish(b.def_expr(bi, si, True), b, _depth + 1)
                    if w:
                        return w
                return None
        if k in ("var", "tmp", "field", "downcast", "await"):
            return "returns %s" % show(e)
        return None


def may_err(facts):
    m = MayErr(facts)
    res = {}
    for b in facts.bodies:
        if b.is_closure or b.coroutine:
            continue
        sig = b.raw.get("sig", "")
        if "->" in sig and "Result<" in sig.split("->")[-1]:
            res[b.spath] = m.of_path(b.path)
    return res, m.reason


LEAK_OR_DUP = ("mem::forget", "ManuallyDrop::new", "ptr::read", "ptr::read_unaligned", "ptr::read_volatile", "mem::transmute_copy", "mem::zeroed", "mem::uninitialized",
               "MaybeUninit::assume_init", "Box::leak", "ptr::copy", "ptr::copy_nonoverlapping", "intrinsics::forget")


def leak_or_dup_calls(facts):
    """Calls in repository code (not inside dependency macros' own closures) to primitives that
    can leak a value (no drop) or duplicate it bitwise."""
    out = []
    for b in facts.bodies:
        if not user_code(b):
            continue
        for bi, t in b.calls():
            c = b.callee_of(t)
            d = b.decl_callee_of(t)
            if t["sp"].get("exp") and not t["sp"]["f"].startswith("src/"):
                continue
            for n in LEAK_OR_DUP:
                if callee_matches(c, n) or callee_matches(d, n):
                    out.append((b, bi, t, n))
    return out


def ctor_fields(facts, e):
    """(adt::variant path, {field: expr}) of an expression that builds a struct / enum value: an
    aggregate, or a call to a crate function that only builds one from its parameters (`Item::delete(k, c)`
    and `Item::Delete { key: k, conflict: c }` are the same thing)."""
    e = norm(e)
    if e[0] == "agg" and e[1] == "adt":
        return e[2], dict(zip(e[4], e[3])) if e[4] else {str(i): x for i, x in enumerate(e[3])}
    if e[0] == "call":
        c = facts.by_spath.get(strip_generics(e[1]), [])
        # a straight-line constructor: one path, the result is a struct literal over its parameters (it may call
        # other pure constructors for the fields: `AtomicI64::new(max_cost)`, `HashMap::with_hasher(hasher)`)
        if len(c) == 1 and not c[0].is_closure and not any((c[0].term(bi_) or {}).get("k") == "switch" for bi_ in c[0].live_blocks()):
            b = c[0]
            try:
                r = norm(return_expr(b))
            except Exception:
                return None
            if r[0] == "agg" and r[1] == "adt":
                m = {V(b.local_name.get(i + 1, "arg%d" % (i + 1))): a for i, a in enumerate(e[2])}
                r = norm(subst(r, m))
                return r[2], dict(zip(r[4], r[3])) if r[4] else {str(i): x for i, x in enumerate(r[3])}
    return None
