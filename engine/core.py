"""Core services of the rule engine: facts loading, CFG, expression reconstruction,
edge predicates and a path-sensitive forward dataflow (disjunctive atom valuations).

Everything here works on the JSON emitted by /verif/driver (mir_built bodies).  Nothing
executes stretto.
"""
import json
import os
import re
from collections import defaultdict

# --------------------------------------------------------------------------------------
# expressions: nested tuples
#   ('const', v, ty) | ('cstr', s) | ('fn', path)
#   ('var', name)                user variable / argument / captured variable (by source name)
#   ('tmp', local)               un-named multi-assigned temporary
#   ('field', base, name) | ('index', base, idx) | ('downcast', base, variant)
#   ('call', callee, (args...)) | ('bin', op, a, b) | ('un', op, a) | ('cast', ty, a)
#   ('discr', x) | ('agg', kind, name, (fields...)) | ('closure', def, (captures...))
#   ('ref', x) is never produced: references and derefs are seen through.
# --------------------------------------------------------------------------------------

# trait methods that only pass through to the pointee (seen through, like `*x`)
DEREF_LIKE = {
    "std::ops::Deref::deref",
    "std::ops::DerefMut::deref_mut",
    "std::convert::AsRef::as_ref",
    "std::borrow::Borrow::borrow",
    "std::borrow::BorrowMut::borrow_mut",
}
# Deref impls of *crate* types are not seen through (they are real code), except the
# ones audited here as plain field accessors.
CRATE_DEREF_PASSTHROUGH = {
    # ttl.rs: impl Deref/DerefMut for Bucket { &self.map }
    "<ttl::Bucket<S> as std::ops::Deref>::deref": "map",
    "<ttl::Bucket<S> as std::ops::DerefMut>::deref_mut": "map",
}

CMP_OPS = {"Lt", "Le", "Gt", "Ge", "Eq", "Ne"}
NEG = {"Lt": "Ge", "Ge": "Lt", "Gt": "Le", "Le": "Gt", "Eq": "Ne", "Ne": "Eq"}
SWAP = {"Lt": "Gt", "Gt": "Lt", "Le": "Ge", "Ge": "Le", "Eq": "Eq", "Ne": "Ne"}
COMMUTATIVE = {"Add", "Mul", "BitAnd", "BitOr", "BitXor", "Eq", "Ne", "AddWithOverflow", "MulWithOverflow"}


def strip_generics(path):
    """`policy::SampledLFU::<S>::room_left` -> `policy::SampledLFU::room_left`.
    Generic argument lists (`::<...>`) are dropped; `<impl ..>` and `<T as Trait>` qualified
    segments are kept verbatim."""
    out = []
    i = 0
    n = len(path)
    while i < n:
        if path.startswith("::<", i) and not path.startswith("::<impl", i):
            j = i + 2
            d = 0
            while j < n:
                c = path[j]
                if c == "<":
                    d += 1
                elif c == ">" and path[j - 1] != "-":
                    d -= 1
                    if d == 0:
                        break
                j += 1
            i = j + 1
            continue
        out.append(path[i])
        i += 1
    return "".join(out)


def short(path):
    """Last two segments of a generic-stripped path (Type::method)."""
    p = strip_generics(path)
    segs = p.split("::")
    return "::".join(segs[-2:]) if len(segs) >= 2 else p


# reference functions that are always spliced into their callers (see Facts._inline_new_helpers)
ALWAYS_INLINE = {
    "policy::TinyLFU::reset",                         # try_reset: `if w >= samples { self.reset() }`
    "cache::sync::CacheProcessor::on_evict",          # handle_item: prepare_evict(&item); callback.on_evict(item)
    "cache::r#async::CacheProcessor::on_evict",
    "ttl::cleanup_bucket",                            # storage_bucket(t) - 1
    "cache::sync::Item::is_update",                   # matches!(self, Item::Update { .. })
    "cache::r#async::Item::is_update",
    "cache::sync::CacheProcessor::track_admission",   # metrics.add(KeyAdd, key, 1) + the start_ts bookkeeping
    "cache::r#async::CacheProcessor::track_admission",
}


class Facts:
    def __init__(self, path):
        with open(path) as f:
            d = json.load(f)
        self.raw = d
        self.config = d.get("config")
        self.adts = d["adts"]
        self.consts = d["consts"]
        self.impls = d["impls"]
        self.fns = d["fns"]
        raws = self._undo_renames(d)
        raws = self._inline_new_helpers(raws)
        raws = self._split_new_structs(raws)
        self.bodies = [Body(self, b) for b in raws]
        self._flat = {}
        self.optimized = None
        self._opt_raw = d.get("optimized", [])
        self.by_path = defaultdict(list)
        for b in self.bodies:
            self.by_path[b.path].append(b)
        self.by_spath = defaultdict(list)
        for b in self.bodies:
            self.by_spath[b.spath].append(b)
        try:
            import lib
            lib.ALL_FACTS.append(self)
        except ImportError:
            pass

    def _undo_renames(self, d):
        """Private functions and fields that were merely renamed get their reference names back
        (engine/known_items.json), so that rules can keep naming them.  A function is a rename when it
        is not in the reference list and exactly one reference function with the same signature and
        parent is missing from the tree; a field is a rename when its struct has the reference field
        types in the reference order."""
        raws = d["bodies"]
        self.renamed = {}
        if d.get("crate") != "stretto":
            return raws
        kp = os.path.join(os.path.dirname(os.path.abspath(__file__)), "known_items.json")
        if not os.path.exists(kp):
            return raws
        known = json.load(open(kp))
        kf = known["fns"]
        present = {strip_generics(b["path"]): b for b in raws if b["defkind"] in ("Fn", "AssocFn")}
        other = "r#async" if d.get("config") == "default" else ("::sync::" if d.get("config") == "async" else None)
        missing = {k_: v for k_, v in kf.items() if k_ not in present and not (other and other in k_)
                   and not (d.get("config") == "default" and ("Async" in k_ or "::axync" in k_ or "_async" in k_))
                   and not (d.get("config") == "async" and k_.startswith("sync::"))}
        fn_map = {}
        for sp, b in present.items():
            if sp in kf or not b["span"]["f"].startswith("src/") or "::test" in sp:
                continue
            par = strip_generics(b.get("parent", ""))
            cands = [m for m, v in missing.items() if v["sig"] == b.get("sig", "") and v["parent"] == par and v.get("impl_trait") == b.get("impl_trait")]
            if len(cands) == 1 and cands[0] not in fn_map.values():
                fn_map[sp] = cands[0]
        # a free function turned into a method / associated function of a type of the same module (or
        # back): same name, same signature, another parent
        for sp, b in present.items():
            if sp in kf or sp in fn_map or not b["span"]["f"].startswith("src/") or "::test" in sp:
                continue
            name = sp.split("::")[-1]
            mod = sp.split("::")[0]
            cands = [m for m, v in missing.items() if m.split("::")[-1] == name and m.split("::")[0] == mod and v["sig"] == b.get("sig", "") and m not in fn_map.values()]
            if len(cands) == 1:
                fn_map[sp] = cands[0]
        # renamed and moved at once (`get_size(n)` -> `Size::for_entries(n)`): the only new function of the module
        # with that signature, for the only missing reference function of the module with that signature
        for sp, b in present.items():
            if sp in kf or sp in fn_map or not b["span"]["f"].startswith("src/") or "::test" in sp or not b.get("sig"):
                continue
            mod = sp.split("::")[0]
            cands = [m for m, v in missing.items() if m.split("::")[0] == mod and v["sig"] == b.get("sig", "") and m not in fn_map.values()]
            rivals = [sp2 for sp2, b2 in present.items() if sp2 not in kf and sp2 not in fn_map and sp2.split("::")[0] == mod and b2.get("sig") == b.get("sig")
                      and b2["span"]["f"].startswith("src/") and "::test" not in sp2]
            if len(cands) == 1 and rivals == [sp]:
                fn_map[sp] = cands[0]
        # field renames
        fld_map = {}  # (owner adt path, variant idx, field idx) -> (new name, reference name)
        for path, a in d["adts"].items():
            ref = known["adts"].get(path)
            if not ref or len(ref) != len(a["variants"]):
                continue
            for vi, v in enumerate(a["variants"]):
                if len(ref[vi]) != len(v["fields"]) or [f["ty"] for f in v["fields"]] != [r[1] for r in ref[vi]]:
                    continue
                for fi, f in enumerate(v["fields"]):
                    if f["name"] != ref[vi][fi][0]:
                        # only when the reference name is not used by another field of the same variant
                        if ref[vi][fi][0] not in [g["name"] for g in v["fields"]]:
                            fld_map[(path, f["name"])] = ref[vi][fi][0]
                            f["name"] = ref[vi][fi][0]
        if not fn_map and not fld_map:
            return raws
        self.renamed = {"fns": fn_map, "fields": {"%s.%s" % k_: v for k_, v in fld_map.items()}}
        # rewrite: function paths appear with generics; map by last segment within the same prefix
        seg_map = {}
        for new_sp, old_sp in fn_map.items():
            seg_map[new_sp] = (new_sp.split("::")[-1], old_sp.split("::")[-1])

        def fix_path(p_):
            if not isinstance(p_, str):
                return p_
            sp = strip_generics(p_)
            for new_sp, (nseg, oseg) in seg_map.items():
                if sp == new_sp or sp.startswith(new_sp + "::"):
                    same_parent = new_sp.rsplit("::", 1)[0] == fn_map[new_sp].rsplit("::", 1)[0]
                    # replace the last occurrence of ::nseg (followed by end, `::` or `<`)
                    i = p_.rfind("::" + nseg)
                    while i >= 0:
                        j = i + 2 + len(nseg)
                        if j == len(p_) or p_[j] in ":<":
                            if strip_generics(p_[:j]) == new_sp:
                                if same_parent:
                                    return p_[:i + 2] + oseg + p_[j:]
                                return fn_map[new_sp] + p_[j:]
                        i = p_.rfind("::" + nseg, 0, i)
            return p_

        def fix_proj(e):
            if isinstance(e, str) and e.startswith(".") and "@" in e:
                head, owner = e.rsplit("@", 1)
                idx, _, name = head[1:].partition(":")
                ref = fld_map.get((owner, name))
                if ref is not None:
                    return ".%s:%s@%s" % (idx, ref, owner)
            return e

        def walk(node):
            if isinstance(node, list):
                return [walk(x) for x in node]
            if isinstance(node, dict):
                out = {}
                for k_, v in node.items():
                    if k_ in ("sp", "fsp", "span"):
                        out[k_] = v
                    elif k_ in ("path", "root", "parent", "callee", "resolved", "def", "name") and isinstance(v, str):
                        nv = fix_path(v)
                        if k_ == "name" and "path" in node and strip_generics(node["path"]) in seg_map:
                            nv = seg_map[strip_generics(node["path"])][1]
                        out[k_] = nv
                    elif k_ == "closures" and isinstance(v, list):
                        out[k_] = [fix_path(x) for x in v]
                    elif k_ == "p" and isinstance(v, list) and "l" in node:
                        out[k_] = [fix_proj(e) for e in v]
                    elif k_ == "fnames" and isinstance(v, list) and node.get("ak") == "adt":
                        out[k_] = [fld_map.get((node.get("adt"), n), n) for n in v]
                    else:
                        out[k_] = walk(v)
                return out
            return node
        return [walk(b) for b in raws]

    def _inline_new_helpers(self, raws):
        """Functions that are not in the reference list of function names (engine/known_fns.txt) are
        helpers a refactoring introduced: inline them into their callers and drop them, so that the
        rules see the callers as they were (see flatten.py)."""
        import flatten
        known = flatten.load_known_fns()
        self.inlined_helpers = []
        if known is None or self.raw.get("crate") != "stretto":
            return raws
        def is_new(b):
            return b["defkind"] in ("Fn", "AssocFn") and b["span"]["f"].startswith("src/") and not b["span"]["f"].endswith("test.rs") \
                and "::test::" not in b["path"] and "::tests::" not in b["path"] and strip_generics(b["path"]) not in known
        def calls_fn_value(b):
            # a helper that takes a closure and calls it (directly or from its own closures) stays a
            # function: the analyses that follow closure parameters (lock order) need the call site
            fam = [b] + [c for c in raws if c.get("root") == b["path"] and c is not b]
            for x in fam:
                for bb in x["blocks"]:
                    t = bb["term"]
                    if t and t["k"] == "call" and re.search(r"ops::(Fn::call|FnMut::call_mut|FnOnce::call_once)$", t.get("callee", "")):
                        # the callee value is of a generic parameter type (`F`), not a closure written here
                        ty0 = (t.get("argtys") or [""])[0].replace("&mut ", "").replace("&", "").strip()
                        if re.match(r"^[A-Z][A-Za-z0-9]*$", ty0):
                            return True
            return False
        # (a helper that takes a closure and calls it is inlined like any other: the closure literal is then in sight at
        # the `f(..)` call, where flatten.py splices its body and the lock-order analysis finds it among the call's closures)
        # ... unless it calls that closure while it holds a lock of its own: the lock-order analysis pairs the helper's
        # locks with what the caller's closure does at the call site (`em.clear_with(|| shards..)`), through any nesting
        def takes_lock(b):
            fam = [b] + [c for c in raws if c.get("root") == b["path"] and c is not b]
            return any(t_ and t_["k"] == "call" and re.search(r"(Mutex|RwLock)(::<[^>]*>|<[^>]*>)?::(lock|read|write|upgradable_read|try_lock|try_read|try_write)", t_.get("callee", ""))
                       for x in fam for bb in x["blocks"] for t_ in [bb["term"]])
        helpers = {strip_generics(b["path"]): b for b in raws if is_new(b) and not (calls_fn_value(b) and takes_lock(b))}
        # thin wrappers of the reference tree that a refactoring may as well write out at the call
        # site: the rules are written against the inlined form, whether or not the wrapper exists
        for b in raws:
            if b["defkind"] in ("Fn", "AssocFn") and strip_generics(b["path"]) in ALWAYS_INLINE:
                helpers[strip_generics(b["path"])] = b
        if not helpers:
            return raws

        def lookup(path):
            return helpers.get(strip_generics(path or ""))
        out = []
        first_caller = {}
        kept_helpers = []
        for b in raws:
            if strip_generics(b["path"]) in helpers and b["defkind"] in ("Fn", "AssocFn"):
                kept_helpers.append(b)
                continue
            nb, done = flatten.inline_function_calls(b, lookup, lambda c: True)
            for h in done:
                first_caller.setdefault(h, nb)
            out.append(nb)
        # a helper that was inlined nowhere is used as a function value (`.map(shard_len)`): it stays
        for hb in kept_helpers:
            if hb["path"] not in first_caller:
                nb, done = flatten.inline_function_calls(hb, lookup, lambda c: True)
                out.append(nb)
                helpers.pop(strip_generics(hb["path"]), None)
        # helpers may call helpers: inline_function_calls iterates; closures of a helper move to its first caller
        res = []
        for b in out:
            if b["defkind"] not in ("Fn", "AssocFn"):
                for hp, hb in helpers.items():
                    if b["parent"] == hb["path"] or b["root"] == hb["path"]:
                        fc = first_caller.get(hb["path"])
                        if fc is not None:
                            b = dict(b)
                            if b["parent"] == hb["path"]:
                                b["parent"] = fc["path"]
                            b["root"] = fc["root"]
            res.append(b)
        self.inlined_helpers = sorted(helpers)
        # `helper(..).await` on an async helper: its shell was inlined above (the caller now builds the helper's
        # coroutine itself); splice the coroutine's body in where it is polled
        co = {}
        for b in res:
            if b.get("coroutine") and b["defkind"] not in ("Fn", "AssocFn"):
                fn_ = re.sub(r"::\{closure#\d+\}$", "", strip_generics(b["path"]))
                if fn_ in helpers and strip_generics(b["path"]).endswith("{closure#0}"):
                    co[strip_generics(b["path"])] = b
        if co:
            res2 = []
            for b in res:
                nb, n_ = flatten.inline_awaited(b, lambda d_: co.get(strip_generics(d_ or "")))
                res2.append(nb if n_ else b)
            res = res2
        return res

    def _split_new_structs(self, raws):
        """Locals of plain-data struct types that the reference tree does not have (engine/known_items.json) are
        replaced by one local per field (flatten.split_struct_locals): a refactoring that gathers loop variables in a
        struct leaves the rules the variables they are written for."""
        import flatten
        self.split_structs = {}
        try:
            known = json.load(open(os.path.join(os.path.dirname(os.path.abspath(__file__)), "known_items.json"))).get("adts", {})
        except Exception:
            return raws
        if self.raw.get("crate") != "stretto":
            return raws
        # (every plain-data struct of the crate qualifies, old or new: `let mut min_pair = PolicyPair::new(0, 0)` used
        # as an accumulator is split like a new `MinSample` would be; a local that is never assigned as a whole and
        # read by field is left alone by split_struct_locals itself)
        new_types = {p_ for p_, a_ in self.adts.items() if str(a_.get("span", {}).get("f", "")).startswith("src/") and "::test" not in p_}
        if not new_types:
            return raws
        out = []
        for b in raws:
            if any(l_["ty"] in new_types for l_ in b["locals"]) and b["span"]["f"].startswith("src/") and "::test" not in b["path"]:
                nb, n_ = flatten.split_struct_locals(b, self.adts, lambda ty: ty in new_types)
                if n_:
                    self.split_structs[b["path"]] = n_
                    b = nb
            out.append(b)
        return out

    def flat(self, body):
        """The body with eager std combinators taking closure literals desugared to explicit control
        flow (closure bodies spliced in): see flatten.py.  Cached per body."""
        import flatten
        if body.path not in self._flat:
            def look(dp):
                c = self.by_path.get(dp) or self.by_spath.get(strip_generics(dp or "")) or []
                return c[0].raw if len(c) >= 1 and (dp in self.by_path or len(c) == 1) else None
            raw, n = flatten.desugar_combinators(body.raw, look)
            if n and self.raw.get("crate") == "stretto" and any(_plain_ty(l_["ty"], self.adts) for l_ in raw["locals"]):
                # a struct accumulator captured by a closure that is now spliced in: `(*r).f` with `r = &mut acc` is
                # `acc.f`, and acc can be split into its fields like an uncaptured one
                raw2, nf = flatten.forward_local_refs(raw)
                if nf:
                    raw3, ns = flatten.split_struct_locals(raw2, self.adts, lambda ty: True)
                    if ns:
                        raw = raw3
            fb = Body(self, raw) if n else body
            fb.n_desugared = n
            self._flat[body.path] = fb
        return self._flat[body.path]

    def opt_bodies(self):
        if self.optimized is None:
            self.optimized = [Body(self, b) for b in self._opt_raw]
        return self.optimized

    def body(self, spath, required=True):
        """Unique body by generic-stripped path."""
        c = self.by_spath.get(spath, [])
        if len(c) == 1:
            return c[0]
        if not c and not required:
            return None
        raise AnchorMissing("body %r: %d candidates in config %s" % (spath, len(c), self.config))

    def find(self, pred):
        return [b for b in self.bodies if pred(b)]

    def children(self, body):
        """Closure / coroutine bodies whose parent is `body`."""
        return [b for b in self.bodies if b.raw["parent"] == body.path and b is not body]

    def closure_body(self, defpath):
        c = self.by_path.get(defpath, [])
        if len(c) == 1:
            return c[0]
        raise AnchorMissing("closure body %r: %d candidates" % (defpath, len(c)))

    def const_init(self, name):
        """Initialiser expression of a crate constant whose value rustc did not give as an integer, when it is a
        closed expression (another constant, a call on constants); None otherwise."""
        if not hasattr(self, "_const_init"):
            self._const_init = {}
        if name in self._const_init:
            return self._const_init[name]
        self._const_init[name] = None
        if name in self.consts:
            for b in self.by_spath.get(strip_generics(name), []) + self.by_path.get(name, []):
                defs = b.defs.get(0, [])
                if len(defs) == 1 and not b.arg_count:
                    e = norm(b.def_expr(defs[0][0], defs[0][1], True))
                    if not any(x[0] in ("var", "tmp") for x in subexprs(e)):
                        self._const_init[name] = e
                    break
        return self._const_init[name]

    def const_value(self, name):
        c = self.consts.get(name)
        if c is None:
            raise AnchorMissing("const %r" % name)
        return c["v"]

    def variant_name(self, ty, discr):
        """Variant name of enum type string `ty` for discriminant value `discr`."""
        base = strip_generics(ty.split("<")[0]) if "<" in ty else ty
        base = base.lstrip("&").replace("mut ", "").strip()
        if base in ("std::option::Option", "core::option::Option"):
            return {0: "None", 1: "Some"}.get(discr)
        if base in ("std::result::Result", "core::result::Result"):
            return {0: "Ok", 1: "Err"}.get(discr)
        if base in ("std::ops::ControlFlow", "core::ops::ControlFlow"):
            return {0: "Continue", 1: "Break"}.get(discr)
        if base in ("std::task::Poll", "core::task::Poll"):
            return {0: "Ready", 1: "Pending"}.get(discr)
        if base in ("std::cmp::Ordering", "core::cmp::Ordering"):
            return {255: "Less", -1: "Less", 0: "Equal", 1: "Greater"}.get(discr)
        a = self.adts.get(base)
        if a and a["kind"] == "Enum":
            if 0 <= discr < len(a["variants"]):
                return a["variants"][discr]["name"]
        return None


class AnchorMissing(Exception):
    pass


class Node:
    """A program point: statement `idx` of block `bb`, or the terminator (idx == len(stmts))."""
    __slots__ = ("bb", "idx")

    def __init__(self, bb, idx):
        self.bb = bb
        self.idx = idx

    def __repr__(self):
        return "bb%d[%d]" % (self.bb, self.idx)

    def key(self):
        return (self.bb, self.idx)


class Body:
    def __init__(self, facts, raw):
        self.facts = facts
        self.raw = raw
        self.path = raw["path"]
        self.spath = strip_generics(raw["path"])
        self.name = raw["name"]
        self.blocks = raw["blocks"]
        self.locals = raw["locals"]
        self.arg_count = raw["arg_count"]
        self.is_closure = raw["defkind"] == "Closure"
        self.coroutine = raw.get("coroutine")
        self.span = raw["span"]
        # debug names
        self.local_name = {}
        self.debug_places = []  # (place, name) for non-trivial places (captures)
        seen_names = defaultdict(int)
        for d in raw["debug"]:
            if "pl" in d:
                p = d["pl"]
                if not p["p"]:
                    if p["l"] in self.local_name:
                        continue
                    # shadowed names get an ordinal suffix in declaration order: cost, cost#2
                    seen_names[d["name"]] += 1
                    n = seen_names[d["name"]]
                    self.local_name[p["l"]] = d["name"] if n == 1 else "%s#%d" % (d["name"], n)
                else:
                    self.debug_places.append((p, d["name"]))
        self.name_local = {v: k for k, v in self.local_name.items()}
        # definitions of each local (whole-local assignments only)
        self.defs = defaultdict(list)
        self.partial_defs = defaultdict(list)
        for bi, bb in enumerate(self.blocks):
            if bb["cleanup"]:
                continue
            for si, st in enumerate(bb["stmts"]):
                if st["k"] == "assign":
                    p = st["pl"]
                    if not p["p"]:
                        self.defs[p["l"]].append((bi, si))
                    elif "*" not in p["p"]:
                        # a write through a pointer held in the local is not a definition of the local
                        self.partial_defs[p["l"]].append((bi, si))
            t = bb["term"]
            if t and t["k"] == "call":
                p = t["dest"]
                if not p["p"]:
                    self.defs[p["l"]].append((bi, len(bb["stmts"])))
                elif "*" not in p["p"]:
                    self.partial_defs[p["l"]].append((bi, len(bb["stmts"])))
            if t and t["k"] == "yield":
                p = t["resume_arg"]
                if not p["p"]:
                    self.defs[p["l"]].append((bi, len(bb["stmts"])))
        self._succ = None
        self._pred = None
        self._expr_cache = {}

    # ---------------------------------------------------------------- CFG
    def term(self, bi):
        return self.blocks[bi]["term"]

    def succs(self, bi):
        """Normal (non-unwind) successors; FalseEdge / FalseUnwind resolved to the real target."""
        if self._succ is None:
            self._succ = {}
            for i, bb in enumerate(self.blocks):
                t = bb["term"]
                s = []
                if t is None or bb["cleanup"]:
                    self._succ[i] = s
                    continue
                k = t["k"]
                if k in ("goto", "drop", "assert", "falseedge", "falseunwind", "yield"):
                    s = [t["t"]]
                elif k == "switch":
                    s = [b for _, b in t["tg"]] + [t["o"]]
                elif k == "call":
                    s = [t["t"]] if t["t"] is not None else []
                self._succ[i] = s
        return self._succ[bi]

    def preds(self, bi):
        if self._pred is None:
            self._pred = defaultdict(list)
            for i in range(len(self.blocks)):
                for s in self.succs(i):
                    self._pred[s].append(i)
        return self._pred[bi]

    def reachable(self, start=0, removed_edges=()):
        seen = {start}
        stack = [start]
        rem = set(removed_edges)
        while stack:
            b = stack.pop()
            for s in self.succs(b):
                if (b, s) in rem or s in seen:
                    continue
                seen.add(s)
                stack.append(s)
        return seen

    def live_blocks(self):
        return sorted(self.reachable(0))

    def return_blocks(self):
        return [b for b in self.live_blocks() if self.term(b) and self.term(b)["k"] == "return"]

    def in_loop(self, bi):
        """Is block bi on a cycle?"""
        for s in self.succs(bi):
            if bi in self.reachable(s):
                return True
        return False

    # ---------------------------------------------------------------- nodes
    def calls(self):
        """All call terminators in live blocks: list of (bb, term)."""
        out = []
        for b in self.live_blocks():
            t = self.term(b)
            if t and t["k"] == "call":
                out.append((b, t))
        return out

    def loc(self, sp):
        return "%s:%d" % (sp["f"], sp["l"])

    # ---------------------------------------------------------------- expressions
    def is_named(self, local):
        return local in self.local_name

    def place_expr(self, pl, expand_vars=False, depth=0):
        # captured variable (closure env projections) by debug info: longest matching prefix
        best = None
        for dp, name in self.debug_places:
            if dp["l"] == pl["l"] and len(dp["p"]) <= len(pl["p"]) and pl["p"][: len(dp["p"])] == dp["p"]:
                if best is None or len(dp["p"]) > len(best[0]["p"]):
                    best = (dp, name)
        if best is not None:
            e = ("var", best[1])
            rest = pl["p"][len(best[0]["p"]) :]
        else:
            e = self.local_expr(pl["l"], expand_vars, depth)
            rest = pl["p"]
        for pr in rest:
            e = self.project(e, pr, expand_vars, depth)
        return e

    def project(self, e, pr, expand_vars=False, depth=0):
        if pr == "*":
            return e
        if pr.startswith("."):
            idx, _, name = pr[1:].partition(":")
            name = name.partition("@")[0]
            fname = name if name else idx
            # projection of a known aggregate
            if e[0] == "agg" and e[1] in ("tuple",) and idx.isdigit() and int(idx) < len(e[3]):
                return e[3][int(idx)]
            if e[0] == "bin" and e[1].endswith("WithOverflow"):
                if idx == "0":
                    return ("bin", e[1][: -len("WithOverflow")], e[2], e[3])
                return ("overflow", e)
            return ("field", e, fname)
        if pr.startswith("as "):
            return ("downcast", e, pr[3:])
        if pr.startswith("[_"):
            l = int(pr[2:-1])
            return ("index", e, self.local_expr(l, expand_vars, depth))
        if pr.startswith("[c"):
            return ("index", e, ("const", pr[2:-1], "usize"))
        return ("proj", e, pr)

    def local_expr(self, local, expand_vars=False, depth=0):
        key = (local, expand_vars)
        if key in self._expr_cache:
            return self._expr_cache[key]
        r = self._local_expr(local, expand_vars, depth)
        self._expr_cache[key] = r
        return r

    def _local_expr(self, local, expand_vars, depth):
        name = self.local_name.get(local)
        defs = self.defs.get(local, [])
        is_arg = 1 <= local <= self.arg_count
        if is_arg:
            if name:
                return ("var", name)
            return ("var", "arg%d" % local)
        if depth > 60:
            return ("tmp", local)
        if name and (not expand_vars or self.locals[local]["mut"]):
            return ("var", name)
        if len(defs) == 1 and not self.partial_defs.get(local):
            bi, si = defs[0]
            return self.def_expr(bi, si, expand_vars, depth + 1)
        if name:
            return ("var", name)
        if len(defs) == 0 and self.partial_defs.get(local):
            return ("tmp", local)
        return ("tmp", local)

    def def_expr(self, bi, si, expand_vars=False, depth=0):
        bb = self.blocks[bi]
        if si < len(bb["stmts"]):
            st = bb["stmts"][si]
            return self.rvalue_expr(st["rv"], expand_vars, depth)
        t = bb["term"]
        if t["k"] == "call":
            return self.call_expr(t, expand_vars, depth)
        if t["k"] == "yield":
            # value produced by awaiting: the future that was polled is not tracked here
            return ("await", bi)
        return ("tmp", -1)

    def operand_expr(self, op, expand_vars=False, depth=0):
        k = op["k"]
        if k in ("copy", "move"):
            return self.place_expr(op["pl"], expand_vars, depth)
        if k == "const":
            if "fn" in op:
                return ("fn", op["fn"])
            if "v" in op:
                return ("const", op["v"], op["ty"])
            if "static" in op:
                return ("static", strip_generics(op["static"]))
            if "named" in op:
                v = self.facts.consts.get(op["named"], {}).get("v")
                if v is not None:
                    return ("const", v, op["ty"])
                # a named constant of the crate stands for its initialiser (`const NO_TTL: Duration = Duration::ZERO`)
                init = self.facts.const_init(op["named"]) if depth < 40 else None
                if init is not None:
                    return init
                return ("named", op["named"])
            return ("cstr", op["s"])
        return ("unknown", str(op))

    def rvalue_expr(self, rv, expand_vars=False, depth=0):
        k = rv["k"]
        if k == "use":
            return self.operand_expr(rv["op"], expand_vars, depth)
        if k in ("ref", "rawptr"):
            return self.place_expr(rv["pl"], expand_vars, depth)
        if k == "cast":
            inner = self.operand_expr(rv["op"], expand_vars, depth)
            ck = rv["ck"]
            if ck.startswith("PointerCoercion") or ck in ("PtrToPtr", "Subtype"):
                return inner
            return ("cast", rv["ty"], inner)
        if k == "binop":
            a = self.operand_expr(rv["a"], expand_vars, depth)
            b = self.operand_expr(rv["b"], expand_vars, depth)
            return ("bin", rv["op"], a, b)
        if k == "unop":
            return ("un", rv["op"], self.operand_expr(rv["a"], expand_vars, depth))
        if k == "discr":
            return ("discr", self.place_expr(rv["pl"], expand_vars, depth), rv["ty"])
        if k == "agg":
            fields = tuple(self.operand_expr(f, expand_vars, depth) for f in rv["fields"])
            ak = rv["ak"]
            if ak == "adt":
                return ("agg", "adt", strip_generics(rv["adt"]) + "::" + rv["variant"], fields, tuple(rv["fnames"]))
            if ak in ("closure", "coroutine", "coroutine_closure"):
                return ("closure", rv["def"], fields)
            return ("agg", ak, "", fields, ())
        if k == "repeat":
            return ("repeat", self.operand_expr(rv["op"], expand_vars, depth), rv["n"])
        return ("unknown", rv.get("s", k))

    def call_expr(self, t, expand_vars=False, depth=0):
        callee = t.get("resolved") or t["callee"]
        args = tuple(self.operand_expr(a, expand_vars, depth) for a in t["args"])
        if t["callee"] in DEREF_LIKE or (t.get("resolved") or "") in DEREF_LIKE:
            res = t.get("resolved") or ""
            if res in CRATE_DEREF_PASSTHROUGH:
                return ("field", args[0], CRATE_DEREF_PASSTHROUGH[res])
            if not t.get("rlocal"):
                return args[0]
        if callee is None:
            return ("icall", self.operand_expr(t["fnop"], expand_vars, depth), args)
        # other spellings of a plain value: `u8::default()` is 0, `Duration::default()` is Duration::ZERO,
        # `i64::from(x)` / `x.into()` between integer types is the lossless `x as i64`
        m = _DEFAULT_OF.match(callee)
        if m and not args:
            ty = m.group(1)
            if ty in _INT_TYS:
                return ("const", 0, ty)
            if ty == "bool":
                return ("const", 0, "bool")
            if ty == "std::time::Duration":
                return ("named", "std::time::Duration::ZERO")
        m = _NUM_FROM.match(callee)
        if m and len(args) == 1 and m.group(1) in _INT_TYS and m.group(2) in _INT_TYS:
            return ("cast", m.group(2), args[0])
        return ("call", strip_generics(callee), args)

    def expand(self, e):
        """Substitute every ('var', name) that names an immutable, singly-defined local by its
        defining expression (recursively)."""
        if not isinstance(e, tuple):
            return e
        if e and e[0] == "var":
            l = self.name_local.get(e[1])
            if l is not None and not (1 <= l <= self.arg_count) and not self.locals[l]["mut"]:
                defs = self.defs.get(l, [])
                if len(defs) == 1 and not self.partial_defs.get(l):
                    return self.def_expr(defs[0][0], defs[0][1], True, 1)
            return e
        if e and isinstance(e[0], str):
            return tuple([e[0]] + [self.expand(x) if isinstance(x, tuple) else x for x in e[1:]])
        return tuple(self.expand(x) for x in e)

    def place_uses(self):
        """Every place occurrence in live blocks: yields (bi, si, role, place) with role in
        write | mutref | ref | read."""
        for bi in self.live_blocks():
            bb = self.blocks[bi]
            for si, st in enumerate(bb["stmts"]):
                if st["k"] == "assign":
                    yield bi, si, "write", st["pl"]
                    yield from self._rv_places(bi, si, st["rv"])
            t = bb["term"]
            if not t:
                continue
            n = len(bb["stmts"])
            if t["k"] == "call":
                yield bi, n, "write", t["dest"]
                for a in t["args"]:
                    if a["k"] in ("copy", "move"):
                        yield bi, n, "read", a["pl"]
            elif t["k"] == "drop":
                yield bi, n, "drop", t["pl"]
            elif t["k"] == "switch":
                if t["d"]["k"] in ("copy", "move"):
                    yield bi, n, "read", t["d"]["pl"]

    def _rv_places(self, bi, si, rv):
        k = rv["k"]
        if k == "ref":
            yield bi, si, ("mutref" if rv["bk"] == "mut" else "ref"), rv["pl"]
        elif k == "rawptr":
            yield bi, si, "mutref", rv["pl"]
        elif k == "discr":
            yield bi, si, "read", rv["pl"]
        else:
            for key in ("op", "a", "b"):
                o = rv.get(key)
                if isinstance(o, dict) and o.get("k") in ("copy", "move"):
                    yield bi, si, "read", o["pl"]
            for o in rv.get("fields", []):
                if o.get("k") in ("copy", "move"):
                    yield bi, si, "read", o["pl"]

    # ---------------------------------------------------------------- call helpers
    def callee_of(self, t):
        """Generic-stripped resolved callee of a call terminator ('' for indirect calls)."""
        c = t.get("resolved") or t.get("callee")
        return strip_generics(c) if c else ""

    def decl_callee_of(self, t):
        c = t.get("callee")
        return strip_generics(c) if c else ""

    def call_args(self, t, expand_vars=True):
        return [self.operand_expr(a, expand_vars) for a in t["args"]]

    def find_calls(self, pred):
        """Call sites whose (callee, terminator) satisfies pred -> list of (bb, term)."""
        return [(b, t) for b, t in self.calls() if pred(self.callee_of(t), t)]

    def vars_assigned(self):
        """name -> list of (bb, idx, expr) for every whole assignment of a named local or a
        captured variable (closure env write)."""
        out = defaultdict(list)
        for bi in self.live_blocks():
            bb = self.blocks[bi]
            for si, st in enumerate(bb["stmts"]):
                if st["k"] != "assign":
                    continue
                tgt = self.place_expr(st["pl"])
                if tgt[0] == "var" or tgt[0] == "field":
                    out[tgt].append((bi, si, self.rvalue_expr(st["rv"], True)))
            t = bb["term"]
            if t and t["k"] == "call":
                tgt = self.place_expr(t["dest"])
                if tgt[0] == "var" or tgt[0] == "field":
                    out[tgt].append((bi, len(bb["stmts"]), self.call_expr(t, True)))
        return out


# --------------------------------------------------------------------------------------
# normalisation
# --------------------------------------------------------------------------------------

def norm(e):
    """Normalise an expression: comparisons into {Lt, Le, Eq} forms with sorted operands where
    commutative, casts between same-width ints erased, x/2^k -> x>>k, x%2^k -> x&(2^k-1)."""
    if not isinstance(e, tuple):
        return e
    k = e[0]
    if k == "bin":
        op, a, b = e[1], norm(e[2]), norm(e[3])
        if op.endswith("WithOverflow"):
            op = op[: -len("WithOverflow")]
        if op.endswith("Unchecked"):
            op = op[: -len("Unchecked")]
        if op == "Gt":
            op, a, b = "Lt", b, a
        elif op == "Ge":
            return ("un", "Not", norm(("bin", "Lt", a, b)))
        elif op == "Le":
            return ("un", "Not", norm(("bin", "Lt", b, a)))
        elif op == "Ne":
            return ("un", "Not", norm(("bin", "Eq", a, b)))
        # unsigned x: `x < 1` is `x == 0`, `0 < x` is `x != 0`
        if op == "Lt" and b[0] == "const" and b[1] == 1 and not isinstance(b[1], bool) and len(b) > 2 and b[2] in ("usize", "u64", "u32", "u16", "u8", "u128"):
            return norm(("bin", "Eq", a, ("const", 0, b[2])))
        if op == "Lt" and a[0] == "const" and a[1] == 0 and not isinstance(a[1], bool) and len(a) > 2 and a[2] in ("usize", "u64", "u32", "u16", "u8", "u128"):
            return ("un", "Not", norm(("bin", "Eq", b, ("const", 0, a[2]))))
        if op == "Div" and b[0] == "const" and isinstance(b[1], int) and b[1] > 0 and (b[1] & (b[1] - 1)) == 0:
            op, b = "Shr", ("const", b[1].bit_length() - 1, b[2])
        if op == "Rem" and b[0] == "const" and isinstance(b[1], int) and b[1] > 0 and (b[1] & (b[1] - 1)) == 0:
            op, b = "BitAnd", ("const", b[1] - 1, b[2])
        if op in ("Shl", "Shr") and b[0] == "const":
            b = ("const", b[1], "shamt")
        if a[0] == "const" and b[0] == "const" and isinstance(a[1], int) and isinstance(b[1], int) and not isinstance(a[1], bool) and not isinstance(b[1], bool) \
                and op in ("Add", "Sub", "Mul", "BitAnd", "BitOr", "BitXor", "Shl", "Shr"):
            # constant folding (`NUM_OF_SHARDS - 1`); the checked forms assert no overflow separately
            try:
                v = {"Add": a[1] + b[1], "Sub": a[1] - b[1], "Mul": a[1] * b[1], "BitAnd": a[1] & b[1], "BitOr": a[1] | b[1], "BitXor": a[1] ^ b[1],
                     "Shl": a[1] << (b[1] & 63), "Shr": a[1] >> (b[1] & 63)}[op]
                if 0 <= v < (1 << 64):
                    return ("const", v, a[2])
            except (ValueError, OverflowError):
                pass
        if op in COMMUTATIVE and repr(a) > repr(b):
            a, b = b, a
        return ("bin", op, a, b)
    if k == "un":
        a = norm(e[2])
        if e[1] == "Not" and a[0] == "un" and a[1] == "Not":
            return a[2]
        return ("un", e[1], a)
    if k == "cast":
        a = norm(e[2])
        return ("cast", e[1], a)
    if k == "field":
        b_ = norm(e[1])
        # a field of an aggregate that is in sight is that operand: (a, b).1 == b (values returned as tuples / structs)
        if b_[0] == "agg" and isinstance(e[2], str):
            if b_[1] == "tuple" and e[2].isdigit() and int(e[2]) < len(b_[3]):
                return b_[3][int(e[2])]
            if b_[1] == "adt" and b_[4] and e[2] in b_[4] and len(b_[4]) == len(b_[3]):
                return b_[3][list(b_[4]).index(e[2])]
        # the payload of an enum value that is in sight: (Poll::Ready(x) as Ready).0 == x
        if b_[0] == "downcast" and isinstance(e[2], str) and b_[1][0] == "agg" and b_[1][1] == "adt" and str(b_[1][2]).endswith("::" + str(b_[2])):
            ag = b_[1]
            if ag[4] and e[2] in ag[4] and len(ag[4]) == len(ag[3]):
                return ag[3][list(ag[4]).index(e[2])]
            if e[2].isdigit() and int(e[2]) < len(ag[3]):
                return ag[3][int(e[2])]
        return ("field", b_, e[2])
    if k == "call":
        args = tuple(norm(x) for x in e[2])
        # trait comparisons: a.ge(b) == b.le(a), a.gt(b) == b.lt(a) (written `a >= b` / `b <= a` on non-primitive types)
        if len(args) == 2 and isinstance(e[1], str):
            for frm, to in (("PartialOrd::ge", "PartialOrd::le"), ("PartialOrd::gt", "PartialOrd::lt")):
                if e[1].endswith(frm):
                    return ("call", e[1][: -len(frm)] + to, (args[1], args[0]))
        # `c.is_empty()` is `c.len() == 0` on the std collections
        if len(args) == 1 and isinstance(e[1], str) and e[1].endswith("::is_empty") and _STD_COLL.search(e[1]):
            return norm(("bin", "Eq", ("call", e[1][: -len("is_empty")] + "len", args), ("const", 0, "usize")))
        return ("call", e[1], args)
    if k == "index":
        return ("index", norm(e[1]), norm(e[2]))
    if k == "downcast":
        x = norm(e[1])
        # `opt?` : (Try::branch(opt) as Continue) is (opt as Some)
        if x[0] == "call" and isinstance(x[1], str) and x[1].endswith("Try>::branch") and "option::Option" in x[1] and len(x[2]) == 1 and e[2] in ("Continue", "Break"):
            return ("downcast", x[2][0], "Some" if e[2] == "Continue" else "None")
        return ("downcast", x, e[2])
    if k == "discr":
        return ("discr", norm(e[1]), e[2])
    if k == "agg":
        return ("agg", e[1], e[2], tuple(norm(x) for x in e[3]), e[4])
    if k == "closure":
        return ("closure", e[1], tuple(norm(x) for x in e[2]))
    if k == "variant":
        x = norm(e[1])
        if x[0] == "call" and isinstance(x[1], str) and x[1].endswith("Try>::branch") and "option::Option" in x[1] and len(x[2]) == 1 and e[2] in ("Continue", "Break"):
            return ("variant", x[2][0], "Some" if e[2] == "Continue" else "None")
        # map / map_err keep the variant of the value they are applied to
        while x[0] == "call" and e[2] in ("Ok", "Err", "Some", "None") and (
                (len(x[2]) == 2 and re.search(r"(^|::)(Result|Option)(::<[^>]*>)?::(map|map_err|inspect|inspect_err)$", x[1])) or
                (len(x[2]) == 1 and re.search(r"(^|::)(Result|Option)(::<[^>]*>)?::(as_ref|as_mut|as_deref|as_deref_mut|cloned|copied)$", x[1]))):
            x = norm(x[2][0])
        return ("variant", x, e[2])
    if k == "icall":
        return ("icall", norm(e[1]), tuple(norm(x) for x in e[2]))
    return e


def show(e):
    """Human-readable rendering of an expression."""
    if not isinstance(e, tuple):
        return str(e)
    k = e[0]
    if k == "const":
        return str(e[1])
    if k == "var":
        return e[1]
    if k == "tmp":
        return "_%s" % e[1]
    if k == "field":
        return "%s.%s" % (show(e[1]), e[2])
    if k == "index":
        return "%s[%s]" % (show(e[1]), show(e[2]))
    if k == "downcast":
        return "(%s as %s)" % (show(e[1]), e[2])
    if k == "call":
        return "%s(%s)" % (short(e[1]), ", ".join(show(a) for a in e[2]))
    if k == "icall":
        return "(%s)(%s)" % (show(e[1]), ", ".join(show(a) for a in e[2]))
    if k == "bin":
        sym = {"Add": "+", "Sub": "-", "Mul": "*", "Div": "/", "Rem": "%", "Shl": "<<", "Shr": ">>", "BitAnd": "&",
               "BitOr": "|", "BitXor": "^", "Lt": "<", "Le": "<=", "Gt": ">", "Ge": ">=", "Eq": "==", "Ne": "!="}
        op = e[1].replace("WithOverflow", "")
        return "(%s %s %s)" % (show(e[2]), sym.get(op, op), show(e[3]))
    if k == "un":
        return "%s(%s)" % ({"Not": "!", "Neg": "-"}.get(e[1], e[1]), show(e[2]))
    if k == "cast":
        return "(%s as %s)" % (show(e[2]), e[1])
    if k == "discr":
        return "discr(%s)" % show(e[1])
    if k == "agg":
        if e[1] == "adt":
            if e[4]:
                return "%s{%s}" % (short(e[2]), ", ".join("%s: %s" % (n, show(f)) for n, f in zip(e[4], e[3])))
            return short(e[2])
        return "(%s)" % ", ".join(show(f) for f in e[3])
    if k == "closure":
        return "closure<%s>" % e[1].split("::")[-1]
    if k == "fn":
        return "fn " + short(e[1])
    if k == "cstr":
        return e[1]
    if k == "named" or k == "static":
        return e[1]
    if k == "variant":
        return "%s is %s" % (show(e[1]), e[2])
    if k == "await":
        return "<await>"
    return repr(e)


def subexprs(e):
    if isinstance(e, tuple):
        yield e
        for x in e[1:]:
            if isinstance(x, tuple):
                # tuples of expressions (args) vs expression
                if x and isinstance(x[0], str):
                    yield from subexprs(x)
                else:
                    for y in x:
                        yield from subexprs(y)


def mentions(e, target):
    for s in subexprs(e):
        if s == target:
            return True
    return False


def mentions_var(e, name):
    return mentions(e, ("var", name))


def calls_in(e):
    return [s for s in subexprs(e) if s[0] == "call"]


# --------------------------------------------------------------------------------------
# edge predicates
# --------------------------------------------------------------------------------------

def edge_literals(body, bi):
    """For a switch block: list of (target_bb, atom, polarity) where atom is a normalised
    boolean expression and polarity says whether it holds on that edge.  For enum switches the
    atom is ('variant', scrutinee, name) with polarity True on that edge (and, for the
    otherwise edge of a 2-way switch, the complementary variant when known)."""
    t = body.term(bi)
    if not t or t["k"] != "switch":
        return []
    d = body.operand_expr(t["d"], expand_vars=False)
    # expand single-def temporaries only (named variables are kept symbolic)
    out = []
    tg = t["tg"]
    if d[0] == "discr":
        scrut = norm(d[1])
        ty = d[2]
        seen = set()
        for v, b in tg:
            name = body.facts.variant_name(ty, v)
            out.append((b, ("variant", scrut, name if name else "#%d" % v), True))
            seen.add(name)
        # otherwise edge: nothing known unless exactly one variant remains
        base = strip_generics(ty.split("<")[0])
        allv = None
        if base.endswith("option::Option"):
            allv = ["None", "Some"]
        elif base.endswith("result::Result"):
            allv = ["Ok", "Err"]
        elif base.endswith("ops::ControlFlow"):
            allv = ["Continue", "Break"]
        elif base.endswith("task::Poll"):
            allv = ["Ready", "Pending"]
        else:
            a = body.facts.adts.get(base)
            if a and a["kind"] == "Enum":
                allv = [x["name"] for x in a["variants"]]
        if allv:
            rest = [x for x in allv if x not in seen]
            if len(rest) == 1:
                out.append((t["o"], ("variant", scrut, rest[0]), True))
            elif len(seen) == 1 and None not in seen:
                # `matches!(x, E::A { .. })` on an enum with several other variants: not A on the otherwise edge
                out.append((t["o"], ("variant", scrut, list(seen)[0]), False))
            else:
                out.append((t["o"], None, True))
        elif len(seen) == 1 and None not in seen:
            out.append((t["o"], ("variant", scrut, list(seen)[0]), False))
        else:
            out.append((t["o"], None, True))
        return out
    atom = norm(d)
    pol = True
    # strip leading Not
    while atom[0] == "un" and atom[1] == "Not":
        atom = atom[2]
        pol = not pol
    if t["ty"] == "bool":
        for v, b in tg:
            out.append((b, atom, pol if v != 0 else (not pol)))
        # otherwise = the other value
        vals = [v for v, _ in tg]
        if vals == [0]:
            out.append((t["o"], atom, pol))
        elif vals == [1]:
            out.append((t["o"], atom, not pol))
        else:
            out.append((t["o"], None, True))
        return out
    # integer switch: atom Eq(d, v)
    for v, b in tg:
        out.append((b, norm(("bin", "Eq", atom, ("const", v, t["ty"]))), True))
    if len(tg) == 1:
        # `match x { 0 => .., _ => .. }`: the other arm knows x != 0
        out.append((t["o"], norm(("bin", "Eq", atom, ("const", tg[0][0], t["ty"]))), False))
    else:
        out.append((t["o"], None, True))
    return out


# --------------------------------------------------------------------------------------
# path-sensitive dataflow
# --------------------------------------------------------------------------------------

_INT_TYS = ("u8", "u16", "u32", "u64", "u128", "usize", "i8", "i16", "i32", "i64", "i128", "isize")
_DEFAULT_OF = re.compile(r"^<([\w:]+) as (?:std|core)::default::Default>::default$")
_NUM_FROM = re.compile(r"^(?:std|core)::convert::num::<impl (?:std|core)::convert::From<(\w+)> for (\w+)>::from$")


_STD_COLL = re.compile(r"(^|[<:\s])(std|alloc|core)::(vec::Vec|collections::(HashMap|HashSet|BTreeMap|BTreeSet|VecDeque|hash_map::HashMap|hash::map::HashMap)|slice::<impl \[T\]>|string::String|str::<impl str>)(::<[^>]*>)?::is_empty$")


def _plain_ty(ty, adts):
    a = adts.get(ty)
    return bool(a) and a.get("kind") == "Struct" and "<" not in ty and str(a.get("span", {}).get("f", "")).startswith("src/")


class TooManyStates(Exception):
    pass


class PathState:
    """Immutable abstract state: a valuation of atoms (`lits`: frozenset of (atom, bool), facts
    still valid at this point), the history of branch decisions (`hist`: like lits but never
    invalidated by later writes; a newer decision on the same atom replaces the older one) and a
    user component (hashable)."""
    __slots__ = ("lits", "user", "hist")

    def __init__(self, lits=frozenset(), user=None, hist=frozenset()):
        self.lits = lits
        self.user = user
        self.hist = hist

    def __hash__(self):
        return hash((self.lits, self.user, self.hist))

    def __eq__(self, o):
        return self.lits == o.lits and self.user == o.user and self.hist == o.hist

    def value(self, atom, hist=False):
        for a, v in (self.hist if hist else self.lits):
            if a == atom:
                return v
        return None

    def with_lit(self, atom, val):
        cur = self.value(atom)
        if cur is not None and cur != val:
            return None  # infeasible
        if val is True and atom[0] == "variant":
            # an enum value has one variant: `x is A` known, `x is B` cannot be taken
            for a, v in self.lits:
                if v is True and a[0] == "variant" and a[1] == atom[1] and a[2] != atom[2]:
                    return None
        nl = self.lits if cur is not None else (self.lits | {(atom, val)})
        h = self.value(atom, True)
        if h is None:
            nh = self.hist | {(atom, val)}
        elif h != val:
            nh = frozenset(x for x in self.hist if x[0] != atom) | {(atom, val)}
        else:
            nh = self.hist
        if nl is self.lits and nh is self.hist:
            return self
        return PathState(nl, self.user, nh)

    def set_lit(self, atom, val):
        """Record a fact that is not a branch decision (a flag assignment): lits only, replacing an older value."""
        nl = frozenset(x for x in self.lits if x[0] != atom) | {(atom, val)}
        if nl == self.lits:
            return self
        return PathState(nl, self.user, self.hist)

    def kill(self, pred):
        n = frozenset((a, v) for a, v in self.lits if not pred(a))
        if len(n) == len(self.lits):
            return self
        return PathState(n, self.user, self.hist)

    def with_user(self, u):
        if u == self.user:
            return self
        return PathState(self.lits, u, self.hist)

    def as_hist(self):
        """View in which the branch history plays the role of the valid facts."""
        return PathState(self.hist, self.user, self.hist)


def place_target(body, pl):
    """The memory location written by an assignment to `pl`, as an expression, or None when the
    target is a plain temporary (which has no identity beyond its single definition)."""
    named = body.is_named(pl["l"]) or (1 <= pl["l"] <= body.arg_count)
    if not named:
        for dp, _ in body.debug_places:
            if dp["l"] == pl["l"] and pl["p"][: len(dp["p"])] == dp["p"]:
                named = True
                break
    if named:
        return norm(body.place_expr(pl))
    if "*" in pl["p"]:
        # write through a pointer held in a temporary: the pointee expression
        return norm(body.place_expr(pl, expand_vars=False))
    return None


def assigned_targets(body, bi, si):
    """Locations (var/field expressions) written by the statement / terminator at (bi, si)."""
    bb = body.blocks[bi]
    if si < len(bb["stmts"]):
        st = bb["stmts"][si]
        if st["k"] == "assign":
            t = place_target(body, st["pl"])
            return [t] if t is not None else []
        return []
    t = bb["term"]
    if t and t["k"] == "call":
        x = place_target(body, t["dest"])
        return [x] if x is not None else []
    return []


def call_kills(body, t):
    """Expressions whose literals become stale when the call t executes: the call expression
    itself (a re-executed call yields a new value) and everything passed by `&mut`."""
    out = []
    c = t.get("resolved") or t.get("callee") or ""
    if t.get("callee") in DEREF_LIKE and not t.get("rlocal"):
        return out
    out.append(norm(body.call_expr(t, False)))
    e2 = norm(body.call_expr(t, True))
    if e2 != out[0]:
        out.append(e2)
    for a, ty in zip(t["args"], t.get("argtys", [])):
        if ty.startswith("&mut "):
            for ex in (False, True):
                e = norm(body.operand_expr(a, ex))
                if e[0] in ("var", "field", "index", "tmp") and e not in out:
                    out.append(e)
    return out


def dataflow(body, init_user=None, node_fn=None, edge_fn=None, max_states=4096, track_lits=True):
    """Forward, path-sensitive dataflow.

    node_fn(state, bi, si, stmt_or_term) -> state | list of states | None   (None = unchanged)
    edge_fn(state, bi, target, atom, polarity) -> state | None (None = keep default)

    Returns (states_at_node, states_at_block_entry): dicts keyed by (bi, si) (state *before*
    the node executes) and by bi.
    Literal bookkeeping: crossing a switch edge records its literal; a path on which the same
    un-killed atom takes both values is pruned as infeasible; an assignment to a variable kills
    every literal that mentions it.
    """
    entry = defaultdict(set)
    at_node = defaultdict(set)
    entry[0].add(PathState(frozenset(), init_user))
    work = [0]
    inwork = {0}
    total = 0
    lits_cache = {}
    while work:
        bi = work.pop()
        inwork.discard(bi)
        bb = body.blocks[bi]
        if bb["cleanup"]:
            continue
        states = set(entry[bi])
        n_st = len(bb["stmts"])
        for si in range(n_st + 1):
            node = bb["stmts"][si] if si < n_st else bb["term"]
            if node is None:
                break
            at_node[(bi, si)] |= states
            new_states = set()
            tg = assigned_targets(body, bi, si) if track_lits else []
            if track_lits and si == n_st and node["k"] == "call":
                tg = list(tg) + call_kills(body, node)
            flag = flag_src = None
            if track_lits and si < n_st and node["k"] == "assign" and not node["pl"]["p"] and node["rv"]["k"] == "use" and body.locals[node["pl"]["l"]]["ty"] == "bool":
                op_ = node["rv"]["op"]
                if op_.get("k") == "const" and op_.get("ty") == "bool" and "v" in op_:
                    flag = (norm(body.place_expr(node["pl"], False)), bool(op_["v"]))
                elif op_.get("k") in ("copy", "move") and not op_["pl"]["p"]:
                    flag = (norm(body.place_expr(node["pl"], False)), None)
                    flag_src = norm(body.place_expr(op_["pl"], False))
            if track_lits and si < n_st and node["k"] == "assign" and not node["pl"]["p"] and node["rv"]["k"] == "agg" and node["rv"].get("ak") == "adt" \
                    and node["rv"].get("variant") and len(body.defs.get(node["pl"]["l"], ())) > 1:
                # `x = Variant(..)` on one of several definitions of x: a later `match x` on this path takes that arm only
                flag = (("variant", norm(body.place_expr(node["pl"], False)), node["rv"]["variant"]), True)
            alias = None
            if track_lits and si == n_st and node["k"] == "call" and not node["dest"]["p"] and body.locals[node["dest"]["l"]]["ty"] == "bool" \
                    and len(body.defs.get(node["dest"]["l"], ())) > 1:
                # `x = f(..)` on one of several definitions of a boolean x (an inlined `a && f()` helper): a later `if x`
                # on this path decides f(..)
                alias = (("alias", norm(body.place_expr(node["dest"], False))), norm(body.call_expr(node, True)))
            if track_lits and si < n_st and node["k"] == "assign" and not node["pl"]["p"] and node["rv"]["k"] in ("binop", "unop") and body.locals[node["pl"]["l"]]["ty"] == "bool" \
                    and len(body.defs.get(node["pl"]["l"], ())) > 1:
                # likewise `x = a != b` (the second operand of an inlined `p && a != b`)
                alias = (("alias", norm(body.place_expr(node["pl"], False))), norm(body.rvalue_expr(node["rv"], True)))
            for s in states:
                outs = None
                if node_fn is not None:
                    outs = node_fn(s, bi, si, node)
                if outs is None:
                    outs = [s]
                elif isinstance(outs, PathState):
                    outs = [outs]
                for o in outs:
                    if tg:
                        for tgt in tg:
                            o = o.kill(lambda a, tgt=tgt: mentions(a, tgt))
                    if flag is not None:
                        # a boolean flag: `x = true / false` is known until x is written again, and a plain copy
                        # `y = x` carries what is known about x (a later `if y` then takes one branch only)
                        fx, fv = flag
                        if fv is not None:
                            o = o.set_lit(fx, fv)
                        else:
                            src = flag_src
                            v = o.value(src)
                            if v is not None:
                                o = o.set_lit(fx, v)
                    if alias is not None:
                        o = o.set_lit(alias[0], alias[1])
                    new_states.add(o)
            states = new_states
            total += len(states)
            if len(states) > max_states:
                raise TooManyStates("%s: %d states at bb%d" % (body.path, len(states), bi))
        # propagate along edges
        t = bb["term"]
        if t is None:
            continue
        if t["k"] == "switch":
            if bi not in lits_cache:
                lits_cache[bi] = edge_literals(body, bi)
            for (tgt, atom, pol) in lits_cache[bi]:
                for s in states:
                    o = s
                    if atom is not None and track_lits:
                        o = o.with_lit(atom, pol)
                        if o is None:
                            continue
                        al = o.value(("alias", atom))
                        if al is not None:
                            o = o.with_lit(al, pol)
                            if o is None:
                                continue
                    if edge_fn is not None:
                        r = edge_fn(o, bi, tgt, atom, pol)
                        if r is not None:
                            o = r
                    if o not in entry[tgt]:
                        entry[tgt].add(o)
                        if len(entry[tgt]) > max_states:
                            raise TooManyStates("%s: %d states entering bb%d" % (body.path, len(entry[tgt]), tgt))
                        if tgt not in inwork:
                            work.append(tgt)
                            inwork.add(tgt)
        else:
            for tgt in body.succs(bi):
                for s in states:
                    if s not in entry[tgt]:
                        entry[tgt].add(s)
                        if len(entry[tgt]) > max_states:
                            raise TooManyStates("%s: %d states entering bb%d" % (body.path, len(entry[tgt]), tgt))
                        if tgt not in inwork:
                            work.append(tgt)
                            inwork.add(tgt)
    return at_node, entry


# --------------------------------------------------------------------------------------
# boolean formulas over atoms, three-valued evaluation against a PathState
#   formula: ('atom', expr) | ('not', f) | ('and', f...) | ('or', f...) | True | False
# --------------------------------------------------------------------------------------

def feval(f, state):
    if f is True or f is False:
        return f
    k = f[0]
    if k == "atom":
        a = norm(f[1])
        pol = True
        while a[0] == "un" and a[1] == "Not":
            a = a[2]
            pol = not pol
        v = state.value(a)
        if v is None:
            return None
        return v if pol else (not v)
    if k == "not":
        v = feval(f[1], state)
        return None if v is None else (not v)
    if k == "and":
        res = True
        for g in f[1:]:
            v = feval(g, state)
            if v is False:
                return False
            if v is None:
                res = None
        return res
    if k == "or":
        res = False
        for g in f[1:]:
            v = feval(g, state)
            if v is True:
                return True
            if v is None:
                res = None
        return res
    raise ValueError(f)


def guarded(body, at_node, node_key, formula):
    """True iff the formula evaluates to True in every abstract state reaching node_key.
    Returns (ok, counterexample_state_or_None)."""
    sts = at_node.get(node_key, set())
    if not sts:
        return True, None  # unreachable node
    for s in sts:
        if feval(formula, s) is not True:
            return False, s
    return True, None


def show_state(s):
    return " & ".join(("" if v else "!") + show(a) for a, v in sorted(s.lits, key=repr)) or "true"
