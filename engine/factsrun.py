"""Runs the fact extractor on /repo's *current working tree* and caches the result by tree hash.

Nothing is written under /repo: the cargo target directory is /verif/.cache/target/<config>.
"""
import fcntl
import glob
import hashlib
import json
import os
import shutil
import subprocess
import sys
import time

VERIF = os.path.dirname(os.path.dirname(os.path.abspath(__file__)))
REPO = os.environ.get("STRETTO_REPO", "/repo")
CACHE = os.path.join(VERIF, ".cache")
DRIVER = os.path.join(VERIF, "driver", "target", "release", "stretto-facts")

CONFIGS = {
    "default": [],
    "async": ["--no-default-features", "--features", "async"],
    "full": ["--features", "full"],
}

# number of mir_built bodies counted on the tree this framework was developed against; a
# driver that silently produced (much) less is a hard error, never a pass.
BODY_FLOOR = {"default": 400, "async": 410, "full": 530}


def tree_hash(repo=REPO):
    h = hashlib.sha256()
    files = []
    for root, dirs, fs in os.walk(os.path.join(repo, "src")):
        dirs.sort()
        for f in sorted(fs):
            files.append(os.path.join(root, f))
    for extra in ("Cargo.toml", "Cargo.lock"):
        p = os.path.join(repo, extra)
        if os.path.exists(p):
            files.append(p)
    for p in files:
        h.update(os.path.relpath(p, repo).encode())
        h.update(b"\0")
        with open(p, "rb") as f:
            h.update(f.read())
        h.update(b"\0")
    # the driver itself is part of the key
    try:
        with open(os.path.join(VERIF, "driver", "src", "main.rs"), "rb") as f:
            h.update(f.read())
    except OSError:
        pass
    return h.hexdigest()[:24]


def sysroot():
    return subprocess.check_output(["rustc", "+nightly", "--print", "sysroot"], text=True).strip()


def ensure_driver():
    if os.path.exists(DRIVER):
        src = os.path.join(VERIF, "driver", "src", "main.rs")
        if os.path.getmtime(DRIVER) >= os.path.getmtime(src):
            return
    env = dict(os.environ, CARGO_NET_OFFLINE="true")
    r = subprocess.run(["cargo", "+nightly", "build", "--release", "--offline"], cwd=os.path.join(VERIF, "driver"),
                       env=env, stdout=subprocess.PIPE, stderr=subprocess.STDOUT, text=True)
    if r.returncode != 0 or not os.path.exists(DRIVER):
        sys.stderr.write(r.stdout)
        raise RuntimeError("fact extractor failed to build")


def facts_path(config, repo=REPO, th=None):
    th = th or tree_hash(repo)
    return os.path.join(CACHE, "facts", th, config + ".json")


def build_facts(config, repo=REPO, opt=True, quiet=True):
    """Return the path of the facts file for `config` of the current tree, running the
    extractor if the tree changed.  Raises on any failure (a compile error in /repo included)."""
    th = tree_hash(repo)
    out = facts_path(config, repo, th)
    if os.path.exists(out):
        return out
    os.makedirs(os.path.dirname(out), exist_ok=True)
    os.makedirs(os.path.join(CACHE, "target"), exist_ok=True)
    lock = open(os.path.join(CACHE, "lock." + config), "w")
    fcntl.flock(lock, fcntl.LOCK_EX)
    try:
        if os.path.exists(out):
            return out
        ensure_driver()
        tdir = os.path.join(CACHE, "target", config)
        # cargo's freshness cache would skip the wrapper: drop stretto's own fingerprint
        for fp in glob.glob(os.path.join(tdir, "debug", ".fingerprint", "stretto-*")):
            shutil.rmtree(fp, ignore_errors=True)
        tmp_out = out + ".run%d" % os.getpid()
        env = dict(os.environ)
        env.update({
            "LD_LIBRARY_PATH": os.path.join(sysroot(), "lib") + ":" + env.get("LD_LIBRARY_PATH", ""),
            "RUSTFLAGS": "-Zmir-opt-level=0 -Awarnings",
            "RUSTC_WORKSPACE_WRAPPER": DRIVER,
            "CARGO_TARGET_DIR": tdir,
            "CARGO_NET_OFFLINE": "true",
            "STRETTO_FACTS_OUT": tmp_out,
            "STRETTO_FACTS_CONFIG": config,
            "STRETTO_FACTS_OPT": "1" if opt else "0",
        })
        env.pop("RUSTC_WRAPPER", None)
        t0 = time.time()
        cmd = ["cargo", "+nightly", "check", "--offline", "--lib"] + CONFIGS[config]
        r = subprocess.run(cmd, cwd=repo, env=env, stdout=subprocess.PIPE, stderr=subprocess.STDOUT, text=True)
        if r.returncode != 0:
            sys.stderr.write(r.stdout[-6000:])
            raise RuntimeError("cargo check failed for config %s (does /repo compile?)" % config)
        if not os.path.exists(tmp_out):
            sys.stderr.write(r.stdout[-3000:])
            raise RuntimeError("fact extractor did not run for config %s (no output file)" % config)
        with open(tmp_out) as f:
            d = json.load(f)
        if d.get("n_bodies", 0) < BODY_FLOOR[config]:
            raise RuntimeError("fact extractor saw only %d bodies for %s (floor %d)" % (d.get("n_bodies", 0), config, BODY_FLOOR[config]))
        os.replace(tmp_out, out)
        if not quiet:
            sys.stderr.write("facts[%s]: %d bodies in %.1fs\n" % (config, d["n_bodies"], time.time() - t0))
        prune_cache(keep=th)
        return out
    finally:
        fcntl.flock(lock, fcntl.LOCK_UN)
        lock.close()


def prune_cache(keep, max_dirs=8, min_age_s=1800):
    """Keep the facts cache small: at most max_dirs tree hashes among those not touched for
    min_age_s seconds.  Young directories are never removed: another process (a mutant or seeded
    run on a scratch copy) may be writing into one right now."""
    base = os.path.join(CACHE, "facts")
    now = time.time()
    try:
        ds = [os.path.join(base, d) for d in os.listdir(base) if os.path.isdir(os.path.join(base, d))]
    except OSError:
        return
    old = [p for p in ds if now - os.path.getmtime(p) > min_age_s and os.path.basename(p) != keep]
    old.sort(key=lambda p: os.path.getmtime(p))
    while len(old) > max_dirs:
        shutil.rmtree(old.pop(0), ignore_errors=True)


if __name__ == "__main__":
    cfgs = sys.argv[1:] or ["default", "async"]
    for c in cfgs:
        print(build_facts(c, quiet=False))


def build_fixture_facts(quiet=True):
    """Facts of the positive-fixture crate /verif/fixtures (cached by its own hash + driver hash)."""
    fdir = os.path.join(VERIF, "fixtures")
    h = hashlib.sha256()
    for rel in ("src/lib.rs", "Cargo.toml"):
        with open(os.path.join(fdir, rel), "rb") as f:
            h.update(f.read())
    with open(os.path.join(VERIF, "driver", "src", "main.rs"), "rb") as f:
        h.update(f.read())
    out = os.path.join(CACHE, "facts", "fixture-" + h.hexdigest()[:16] + ".json")
    if os.path.exists(out):
        return out
    os.makedirs(os.path.dirname(out), exist_ok=True)
    lock = open(os.path.join(CACHE, "lock.fixture"), "w")
    fcntl.flock(lock, fcntl.LOCK_EX)
    try:
        if os.path.exists(out):
            return out
        ensure_driver()
        tdir = os.path.join(CACHE, "target", "fixture")
        for fp in glob.glob(os.path.join(tdir, "debug", ".fingerprint", "stretto_fixture-*")):
            shutil.rmtree(fp, ignore_errors=True)
        tmp_out = out + ".run%d" % os.getpid()
        env = dict(os.environ)
        env.update({
            "LD_LIBRARY_PATH": os.path.join(sysroot(), "lib") + ":" + env.get("LD_LIBRARY_PATH", ""),
            "RUSTFLAGS": "-Zmir-opt-level=0 -Awarnings",
            "RUSTC_WORKSPACE_WRAPPER": DRIVER,
            "CARGO_TARGET_DIR": tdir,
            "CARGO_NET_OFFLINE": "true",
            "STRETTO_FACTS_OUT": tmp_out,
            "STRETTO_FACTS_CONFIG": "fixture",
            "STRETTO_FACTS_CRATE": "stretto_fixture",
            "STRETTO_FACTS_OPT": "0",
        })
        env.pop("RUSTC_WRAPPER", None)
        r = subprocess.run(["cargo", "+nightly", "check", "--offline", "--lib"], cwd=fdir, env=env, stdout=subprocess.PIPE, stderr=subprocess.STDOUT, text=True)
        if r.returncode != 0 or not os.path.exists(tmp_out):
            sys.stderr.write(r.stdout[-3000:])
            raise RuntimeError("fixture crate: fact extraction failed")
        os.replace(tmp_out, out)
        return out
    finally:
        fcntl.flock(lock, fcntl.LOCK_UN)
        lock.close()
