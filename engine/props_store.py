"""Rules anchored in src/store.rs and src/ttl.rs: C03 (TTL visibility), C05 (reclaim of expired
entries), C09 (conditional writes), C04 (nothing is lost below capacity) and the store-level
parts of C02 / C18 (same-key lookups, conflict isolation)."""
import re
from cachelib import *

SM = "store::ShardedMap"
EM = "ttl::ExpirationMap"
TIME = "ttl::Time"
ACCESSORS = ("get", "get_mut", "try_insert", "try_update", "try_remove")

OUTER_TY = "HashMap<i64, ttl::Bucket<"     # the bucket index: second -> Bucket
INNER_TY = "HashMap<u64, u64"              # one bucket: key -> conflict
SHARD_TY = "HashMap<u64, store::StoreItem<"  # one store shard


def recv_ty(t):
    return t["argtys"][0] if t.get("argtys") else ""


def map_calls(body, ty_frag, *methods):
    """HashMap method calls (by name) whose receiver type contains ty_frag."""
    out = []
    for bi, t in body.calls():
        c = body.callee_of(t)
        if not c.startswith("std::collections::HashMap::"):
            continue
        m = c.split("::")[-1]
        if methods and m not in methods:
            continue
        if ty_frag in recv_ty(t):
            out.append((bi, t, m))
    return out


# ----------------------------------------------------------------------------------------
# store accessors: shard selector, lookup key, conflict guard, expiry guard
# ----------------------------------------------------------------------------------------

def accessor_facts(body):
    """For a ShardedMap accessor: (shard selector expr, lookup call expr, key expr, item expr)."""
    lk = [(bi, t) for bi, t in calls_to(body, "RwLock::read", "RwLock::write")]
    if len(lk) != 1:
        raise AnchorMissing("%s: expected one shard lock acquisition, found %d" % (body.spath, len(lk)))
    shard = norm(body.call_args(lk[0][1])[0])
    look = map_calls(body, SHARD_TY, "get", "get_mut")
    if len(look) != 1:
        raise AnchorMissing("%s: expected one shard lookup, found %d" % (body.spath, len(look)))
    le = norm(body.call_expr(look[0][1], True))
    key = norm(body.call_args(look[0][1])[1])
    return shard, le, key, some_payload(le), lk[0], look[0]


def check_blocking_shard_locks(rep, fl, rule="R02.1"):
    """Every shard lock of ShardedMap is taken unconditionally: a `try_read` / `try_write` (or a timed variant) whose failure
    is turned into `None` / `false` makes a lookup that races a writer of the same shard report a resident key as missing,
    and a write that races a reader be skipped."""
    facts = fl.facts
    n = 0
    bad = []
    for b in facts.bodies:
        if not strip_generics(b.raw["root"]).startswith(SM + "::") or not user_code(b):
            continue
        for bi, t in b.calls():
            c = b.callee_of(t)
            m = re.search(r"\b(RwLock|Mutex)(::<[^>]*>|<[^>]*>)?::(\w+)$", c)
            if not m:
                continue
            n += 1
            if m.group(3).startswith("try_"):
                bad.append((b, t, m.group(3)))
    for b, t, meth in bad:
        rep.bad(rule, fl, b, "shard lock taken unconditionally", "%s takes its shard lock with `%s`: when another thread holds the lock the operation gives up and its caller sees "
                "`not there` / `nothing to do` for an entry that is resident" % (short(b.spath), meth), loc=t["sp"])
    if not bad:
        rep.check(n >= 8, rule, fl, SM, "shard lock taken unconditionally", "all %d lock acquisitions in ShardedMap block until the lock is granted" % n,
                  "only %d lock acquisitions found in ShardedMap (expected >= 8)" % n)


def conflict_ok_formula(item, conflict=V("conflict")):
    c0 = ("bin", "Ne", conflict, ("const", 0, "u64"))
    cd = ("bin", "Ne", conflict, ("field", item, "conflict"))
    return OR(NOT(A(c0)), NOT(A(cd)))


def live_formula(item):
    exp = ("field", item, "expiration")
    return OR(A(call(TIME + "::is_zero", exp)), NOT(A(call(TIME + "::is_expired", exp))))


def check_selectors(rep, fl, rule="R02.1"):
    facts = fl.facts
    n = facts.const_value("store::NUM_OF_SHARDS")
    sels = {}
    for m in ACCESSORS + ("expiration",):
        b = facts.body(SM + "::" + m)
        lk = calls_to(b, "RwLock::read", "RwLock::write")
        if len(lk) != 1:
            rep.missing(rule, fl, "%s: shard lock acquisition" % b.spath)
            continue
        sels[m] = norm(b.call_args(lk[0][1])[0])
    key = V("key")
    want = ("index", norm(F(V("self"), "shards")), norm(("bin", "Rem", ("cast", "usize", key), ("const", n, "usize"))))
    # the selectors are compared as functions of the key, on boundary values of every integer width and a spread of
    # other keys (`key as u32 as usize % 256` picks the same shard as `key as usize % 256`; `(key >> 8) % 256` does
    # not): every accessor must send a key to the shard the reference expression names, inside the array
    samples = sorted({0, 1, 2, n - 1, n, n + 1, 2 * n - 1, (1 << 16) - 1, 1 << 16, (1 << 31) - 1, 1 << 31, (1 << 32) - 1, 1 << 32, (1 << 32) + n + 3, (1 << 63) - 1, 1 << 63, (1 << 64) - 1}
                     | {(0x9E3779B97F4A7C15 * k_ + 0x7F4A7C15) & ((1 << 64) - 1) for k_ in range(1, 40)})
    ref = [eval_expr(want[2], {key: k_}) for k_ in samples]
    for m, s in sorted(sels.items()):
        b = facts.body(SM + "::" + m)
        kv = V(b.local_name.get(2, "key"))
        ok = s == want
        if not ok and s[0] == "index" and norm(s[1]) == norm(F(V("self"), "shards")):
            try:
                got = [eval_expr(s[2], {kv: k_}) for k_ in samples]
                ok = got == ref
            except CannotEval:
                ok = False
        rep.check(ok, rule, fl, SM + "::" + m, "shard selector", "shards[(key as usize) %% %d]" % n,
                  "%s selects shard %s; the other accessors use shards[(key as usize) %% %d]: the same key is looked up in a different shard than it is stored in" % (m, show(s), n))
    # the array length in the type equals NUM_OF_SHARDS
    adt = facts.adts.get(SM)
    ty = ""
    if adt:
        for f in adt["variants"][0]["fields"]:
            if f["name"] == "shards":
                ty = f["ty"]
    rep.check(("; %d]" % n) in ty or "; NUM_OF_SHARDS]" in ty or "; store::NUM_OF_SHARDS]" in ty, rule, fl, SM, "array length", "the shard array has NUM_OF_SHARDS = %d elements" % n, "shards has type %s but NUM_OF_SHARDS is %d" % (ty, n))
    # len() sums every shard: one pass over self.shards that adds read(shard).len() to the total in every round
    # (`.iter().map(|l| l.read().len()).sum()` or a `for` loop with an accumulator)
    lb = facts.body(SM + "::len")
    it = single_iteration(facts, lb)
    e = norm(return_expr(lb)) if return_expr(lb) is not None else ("unknown",)
    ok = it is not None and iterates(it, F(V("self"), "shards"))
    if ok:
        fb = it.body
        segs = sym_segment(fb, it.some, [it.nbi]) or []
        ok = bool(segs)
        accs = set()
        for lits, env in segs:
            for k_, v_ in env.items():
                v_ = norm(v_)
                if k_[0] == "var" and v_[0] == "bin" and v_[1] == "Add" and k_ in (v_[2], v_[3]):
                    other_ = v_[3] if v_[2] == k_ else v_[2]
                    oe = it.indexed(other_)
                    if is_call(oe, "HashMap::len") and is_call(norm(oe[2][0]), "RwLock::read") and norm(oe[2][0][2][0]) == ("index", norm(F(V("self"), "shards")), ("elem",)):
                        accs.add(k_)
            ok = ok and len(accs) == 1 and all(norm(env.get(k_, k_)) != k_ for k_ in accs)
        if ok:
            acc = next(iter(accs))
            ret = norm(fb.expand(norm(return_expr(fb)))) if return_expr(fb) is not None else None
            l_ = fb.name_local.get(acc[1])
            init = [norm(fb.def_expr(a_, b_, True)) for a_, b_ in fb.defs.get(l_, []) if a_ not in it.region]
            ok = (ret == acc or norm(return_expr(fb)) == acc) and len(init) == 1 and init[0][0] == "const" and init[0][1] == 0
    rep.check(ok, "R06.6", fl, lb, "len", "len() sums the sizes of all shards", "len() is %s" % show(e))


def check_lookup_guards(rep, fl):
    """R02.2 / R03.1 / R18.3: a reference is handed out only for the looked-up key, after the
    conflict test and the expiry test, and it is derived from that very item."""
    facts = fl.facts
    for m, ctor in (("get", "ValueRef::new"), ("get_mut", "ValueRefMut::new")):
        b = facts.body(SM + "::" + m)
        shard, le, key, item, lk, look = accessor_facts(b)
        at, entry = dataflow(b)
        rep.check(key == V("key"), "R02.2", fl, b, "lookup key", "the shard is searched for the parameter key", "the shard is searched for %s" % show(key), loc=look[1]["sp"])
        cs = calls_to(b, ctor)
        if len(cs) != 1:
            rep.missing("R02.2", fl, "%s: %s construction" % (b.spath, ctor))
            continue
        bi, t = cs[0]
        nk = (bi, term_idx(b, bi))
        found = A(("variant", le, "Some"))
        ok, cx = all_states(b, at, nk, found)
        rep.check(ok, "R02.2", fl, b, "found", "a reference is built only when data.get(key) is Some", "reference built without a successful lookup (%s)" % (show_state(cx) if cx else ""), loc=t["sp"])
        ok, cx = all_states(b, at, nk, conflict_ok_formula(item))
        rep.check(ok, "R18.3", fl, b, "conflict guard", "dominated by !(conflict != 0 && conflict != item.conflict)",
                  "a value is handed out on a path where the stored conflict hash was not compared (%s): a colliding key reads another key's value" % (show_state(cx) if cx else ""), loc=t["sp"])
        ok, cx = all_states(b, at, nk, live_formula(item))
        rep.check(ok, "R03.1", fl, b, "expiry guard", "dominated by !(!expiration.is_zero() && expiration.is_expired())",
                  "a value is handed out on a path where its deadline was not tested (%s): an entry is served after its TTL" % (show_state(cx) if cx else ""), loc=t["sp"])
        # provenance: the guard moved in is the lock guard, the reference derives from `item`
        a = [norm(x) for x in b.call_args(t)]
        okg = a[0] == norm(b.call_expr(lk[1], True))
        src = norm(b.expand(a[1]))
        okv = mentions(src, item) and not any(is_call(c, "HashMap::get") or is_call(c, "HashMap::get_mut") for c in calls_in(src) if norm(c) != le)
        rep.check(okg and okv, "R02.3", fl, b, "provenance", "the returned reference borrows from the looked-up item under the guard that is moved into it",
                  "reference built from %s with guard %s" % (show(src), show(a[0])), loc=t["sp"])
        # None on the other paths: every return that is not the constructed Some is None (by construction of the type)


def check_expiration_getter(rep, fl):
    facts = fl.facts
    b = facts.body(SM + "::expiration")
    e = norm(return_expr(b))
    ok = is_call(e, "Option::map") and is_call(e[2][0], "HashMap::get") and norm(e[2][0][2][1]) == V("key")
    if ok:
        cb = facts.closure_body(e[2][1][1])
        ce = norm(return_expr(cb))
        ok = ce == ("field", V(cb.local_name.get(2, "arg2")), "expiration")
    rep.check(ok, "R03.2", fl, b, "expiration(key)", "expiration(key) = shard.get(key).map(|item| item.expiration)", "expiration() returns %s" % show(e))


# ----------------------------------------------------------------------------------------
# C03
# ----------------------------------------------------------------------------------------

def check_time(rep, fl):
    facts = fl.facts
    self_ = V("self")
    d = norm(F(self_, "d"))
    created = norm(F(self_, "created_at"))
    # is_expired: elapsed(created_at) failed => false; Ok(e) => e >= d - path by path on the flattened body, whatever
    # the spelling (`map_or(false, |e| e >= d)`, `is_ok_and(..)`, a match, `if let Ok(e) = .. { e >= d } else { false }`)
    b = facts.body(TIME + "::is_expired")
    fb = facts.flat(b)
    is_el = lambda x: is_call(x, "SystemTime::elapsed") and norm(x[2][0]) == created
    is_pay = lambda x: x[0] == "field" and x[2] == "0" and x[1][0] == "downcast" and x[1][2] == "Ok" and is_el(norm(x[1][1]))
    is_want = lambda x: x is not None and is_call(x, "PartialOrd::le") and norm(x[2][0]) == d and is_pay(norm(x[2][1]))
    try:
        paths = sym_paths(fb)
    except TooManyStates:
        paths = None
    ok = bool(paths)
    e = norm(return_expr(b)) if return_expr(b) is not None else ("unknown", "several returns")
    for lits, ret in paths or []:
        got_ok = None
        cmpv = None
        for a, v in lits:
            a = norm(a)
            if a[0] == "variant" and is_el(norm(a[1])):
                got_ok = v if a[2] == "Ok" else (not v)
            if is_want(a):
                cmpv = v
            elif is_call(a, "PartialOrd::lt") and is_pay(norm(a[2][0])) and norm(a[2][1]) == d:
                cmpv = not v
        r = norm(ret) if ret is not None else None
        if got_ok is True:
            ok = ok and (is_want(r) or (r is not None and r[0] == "const" and cmpv is not None and bool(r[1]) == cmpv))
        elif got_ok is False:
            ok = ok and r is not None and r[0] == "const" and not r[1]
        else:
            ok = False
    rep.check(ok, "R03.3", fl, b, "is_expired", "is_expired() == (elapsed(created_at) >= d), false on a clock error", "is_expired() is %s" % show(e))
    # is_zero
    b = facts.body(TIME + "::is_zero")
    e = norm(return_expr(b))
    rep.check(is_call(e, "Duration::is_zero") and e[2][0] == d, "R03.3", fl, b, "is_zero", "is_zero() == d.is_zero()", "is_zero() is %s" % show(e))
    # now / now_with_expiration
    for m, dur in (("now", ("cstr", "std::time::Duration::ZERO")), ("now_with_expiration", V("duration"))):
        b = facts.body(TIME + "::" + m)
        cf_ = ctor_fields(facts, norm(return_expr(b))) if return_expr(b) is not None else None   # the literal, or `Self::now_with_expiration(ZERO)`
        f = cf_[1] if cf_ is not None else {}
        f = {k_: norm(v_) for k_, v_ in f.items()}
        okd = f.get("d") == dur or (m == "now" and f.get("d", ("x",))[0] in ("cstr", "named") and "ZERO" in str(f.get("d")))
        okc = is_call(f.get("created_at", ()), "SystemTime::now")
        rep.check(okd and okc, "R03.3", fl, b, m, "%s() stamps SystemTime::now() with d = %s" % (m, show(dur)), "%s() builds %s" % (m, {k: show(v) for k, v in f.items()}))
    # get_ttl
    b = facts.body(TIME + "::get_ttl")
    at, entry = dataflow(b)
    zero = A(call("std::time::Duration::is_zero", d))

    def d_le_elapsed(s_):
        """What the path knows about `d <= elapsed` (the entry's age has reached its lifetime), whichever way round and
        with whichever of <, <=, >, >= the test is written: True / False / None."""
        is_el = lambda x_: is_call(strip_unwrap(x_), "SystemTime::elapsed")
        for a_, v_ in s_.lits:
            if not (a_[0] == "call" and isinstance(a_[1], str) and len(a_[2]) == 2):
                continue
            x_, y_ = a_[2]
            if a_[1].endswith("PartialOrd::le"):
                if x_ == d and is_el(y_):
                    return bool(v_)
                if y_ == d and is_el(x_) and v_ is False:
                    return True        # !(elapsed <= d): d < elapsed
            if a_[1].endswith("PartialOrd::lt"):
                if y_ == d and is_el(x_):
                    return not v_      # elapsed < d  <=>  !(d <= elapsed)
                if x_ == d and is_el(y_) and v_ is True:
                    return True        # d < elapsed
        return None
    okall = True
    kinds = set()
    for rbi, rsi in b.defs.get(0, []):
        e = norm(b.def_expr(rbi, rsi, True))
        sts = [expand_state(b, s) for s in at.get((rbi, rsi), set())]
        if e[0] in ("cstr", "named") and "MAX" in str(e):
            kinds.add("max")
            okall = okall and all(feval(zero, s) is True for s in sts)
        elif e[0] in ("cstr", "named") and "ZERO" in str(e):
            kinds.add("zero")
            for s in sts:
                okall = okall and feval(zero, s) is False and d_le_elapsed(s) is True
        elif is_call(e, "Duration::saturating_sub") and len(e[2]) == 2:
            # d.saturating_sub(elapsed): ZERO when elapsed >= d, d - elapsed otherwise - both cases in one expression
            kinds |= {"zero", "sub"}
            okall = okall and e[2][0] == d and is_call(strip_unwrap(e[2][1]), "SystemTime::elapsed") and norm(strip_unwrap(e[2][1])[2][0]) == created
            for s in sts:
                okall = okall and feval(zero, s) is False
        elif is_call(e, "Sub::sub"):
            kinds.add("sub")
            okall = okall and e[2][0] == d and is_call(strip_unwrap(e[2][1]), "SystemTime::elapsed") and norm(strip_unwrap(e[2][1])[2][0]) == created
            for s in sts:
                okall = okall and feval(zero, s) is False and d_le_elapsed(s) is False
        else:
            okall = False
    rep.check(okall and kinds == {"max", "zero", "sub"}, "R03.3", fl, b, "get_ttl",
              "get_ttl() = MAX if d == 0; ZERO if elapsed >= d; else d - elapsed (<= d, non-increasing under a monotone clock)",
              "get_ttl() no longer has the three cases (no-expiry / elapsed / remaining = d - elapsed); cases seen: %s" % sorted(kinds))
    # ValueRef::ttl
    b = facts.body("utils::ValueRef::ttl")
    e = norm(return_expr(b))
    rep.check(is_call(e, "Time::get_ttl") and e[2][0] == norm(F(V("self"), "val", "expiration")), "R03.5", fl, b, "ValueRef::ttl", "ValueRef::ttl() == val.expiration.get_ttl()", "ValueRef::ttl() is %s" % show(e))


def strip_unwrap(e):
    while isinstance(e, tuple) and e and e[0] == "call" and (callee_matches(e[1], "Result::unwrap") or callee_matches(e[1], "Option::unwrap")):
        e = e[2][0]
    return e


def check_get_ttl(rep, fl):
    """R03.2: Cache::get_ttl reports a TTL only through store.get (expiry- and conflict-checked)."""
    facts = fl.facts
    b = facts.flat(fl.cache_fn("get_ttl"))
    store = norm(F(V("self"), "store"))
    gets = calls_to(b, SM + "::get")
    exps = calls_to(b, SM + "::expiration")
    ttls = calls_to(b, TIME + "::get_ttl")
    bk = calls_to(b, "KeyBuilder::build_key")
    ok = len(gets) == 1 and len(exps) == 1 and len(ttls) == 1 and len(bk) == 1 and norm(b.call_args(bk[0][1])[1]) == V("key")
    detail = "store.get x%d, store.expiration x%d, Time::get_ttl x%d" % (len(gets), len(exps), len(ttls))
    if ok:
        bke = norm(b.call_expr(bk[0][1], True))
        ga = [norm(b.expand(norm(x))) for x in b.call_args(gets[0][1])]
        ea = [norm(b.expand(norm(x))) for x in b.call_args(exps[0][1])]
        gres = norm(b.call_expr(gets[0][1], True))
        eres = norm(b.call_expr(exps[0][1], True))
        ok = ga[0] == store and ga[1] == ("field", bke, "0") and ga[2] == ("field", bke, "1") and ea[0] == store and ea[1] == ("field", bke, "0")
        ta = norm(b.expand(norm(b.call_args(ttls[0][1])[0])))
        ok = ok and ta == ("field", ("downcast", eres, "Some"), "0")
        at, entry = dataflow(b)
        # the deadline is read (and reported) only when the expiry- and conflict-checked lookup found the entry
        good, cx = all_states(b, at, (exps[0][0], term_idx(b, exps[0][0])), A(("variant", gres, "Some")), hist=True)
        ok = ok and good
        # every Some(..) that reaches the return carries that get_ttl result
        tres = norm(b.call_expr(ttls[0][1], True))
        import props_sibling
        for leaf in props_sibling.ret_leaves(b):
            if leaf[0] == "agg" and leaf[2].endswith("Option::Some"):
                ok = ok and norm(b.expand(leaf[3][0])) == tres
            elif leaf[0] == "agg" and leaf[2].endswith("Option::None"):
                pass
            elif is_call(leaf, "FromResidual::from_residual") and any(is_call(c, SM + "::get") for c in calls_in(leaf)):
                pass  # `store.get(..)?`: the miss of the checked lookup, handed on as None
            else:
                ok = ok and leaf == gres and False
        detail = "lookup args %s, deadline of %s, reported %s" % ([show(x) for x in ga[1:]], show(ea[1]), show(ta))
    rep.check(ok, "R03.2", fl, b, "get_ttl", "get_ttl(key) = store.get(index, conflict).and_then(|_| store.expiration(index).map(Time::get_ttl)) with (index, conflict) = build_key(key)",
              "get_ttl no longer goes through the expiry-checked lookup of the same key: %s" % detail)


def check_ttl_plumbing(rep, fl):
    """R03.4 / R03.5: the TTL given to insert* becomes the stored deadline."""
    facts = fl.facts
    tu = fl.cache_fn("try_update")
    ttl = V("ttl")

    def deadline_defs(hb):
        """the deadline variable of body hb (or the result slot of a helper that computes it): defined only by Time::now*
        calls, `now()` exactly when ttl is zero"""
        at_, _e = dataflow(hb)
        exp_l_, defs_ = None, []
        for l in sorted(hb.defs):
            ds = hb.defs.get(l, [])
            es = [norm(hb.def_expr(a, b, True)) for a, b in ds]
            if len(es) == 2 and all(is_call(e, "Time::now") or is_call(e, "Time::now_with_expiration") for e in es):
                exp_l_, defs_ = l, list(zip(ds, es))
        ok_ = exp_l_ is not None and len(defs_) == 2
        if ok_:
            zero = A(call("std::time::Duration::is_zero", ttl))
            for (dbi, dsi), e in defs_:
                sts = [expand_state(hb, s) for s in at_.get((dbi, dsi), set())]
                if is_call(e, "Time::now"):
                    ok_ = ok_ and all(feval(zero, s) is True for s in sts)
                else:
                    ok_ = ok_ and e[2][0] == ttl and all(feval(zero, s) is False for s in sts)
        return ok_, exp_l_
    ok, exp_l = deadline_defs(tu)
    names = None
    if exp_l is None:
        # the deadline may be computed by the one caller and handed in as a parameter (`try_update(.., expiration: Time, ..)`)
        tpar = [i_ for i_ in range(1, tu.arg_count + 1) if tu.locals[i_]["ty"].endswith("ttl::Time")]
        ti = fl.cache_fn("try_insert_in", required=False)
        if len(tpar) == 1 and ti is not None:
            cs_ = calls_to(ti, fl.cache + "::try_update")
            if len(cs_) == 1:
                okc, cl = deadline_defs(ti)
                arg_ = norm(ti.call_args(cs_[0][1], expand_vars=False)[tpar[0] - 1])
                slot_c = norm(ti.place_expr({"l": cl, "p": []}, False)) if cl is not None else None
                cnames = {slot_c} | {V(n_) for l_, n_ in ti.local_name.items() if len(ti.defs.get(l_, [])) == 1 and slot_c is not None and norm(ti.def_expr(ti.defs[l_][0][0], ti.defs[l_][0][1], False)) == slot_c}
                if okc and (arg_ in cnames or (arg_[0] == "tmp" and norm(ti.expand(arg_)) in cnames)):
                    ok, exp_l = True, tpar[0]
                    names = {V(tu.local_name.get(tpar[0], "arg%d" % tpar[0]))}
    rep.check(ok, "R03.4", fl, tu, "expiration", "expiration = Time::now() iff ttl.is_zero(), else Time::now_with_expiration(ttl)",
              "the deadline of an insert is no longer derived from its ttl parameter")
    if exp_l is None:
        return
    # the deadline value: that local, or a named variable that is a plain copy of it (`let expiration = helper(ttl)`)
    slot = tu.place_expr({"l": exp_l, "p": []}, False)
    if names is None:
        names = {norm(slot)}
        for l, name in tu.local_name.items():
            ds = tu.defs.get(l, [])
            if len(ds) == 1 and norm(tu.def_expr(ds[0][0], ds[0][1], False)) == norm(slot):
                names.add(V(name))

    def is_deadline(e):
        e = norm(e)
        return e in names or (e[0] == "tmp" and norm(tu.expand(e)) in names)
    # flows into store.try_update and into the queued New item
    su = calls_to(tu, SM + "::try_update")
    ok = len(su) == 1 and is_deadline(tu.call_args(su[0][1], expand_vars=False)[4])
    rep.check(ok, "R03.4", fl, tu, "store.try_update(.., expiration)", "the new deadline is handed to store.try_update", "store.try_update does not receive the new deadline")
    news = []
    for bi, t in calls_to(tu, fl.item + "::new"):
        cf = ctor_fields(facts, tu.call_expr(t, False))
        if cf is not None:
            news.append(cf[1].get("expiration"))
    for bi, si, st, e in agg_nodes(tu, fl.item.split("::")[-1]):
        if e[2].endswith("Item::New"):
            news.append(agg_fields(norm(tu.rvalue_expr(st["rv"], False))).get("expiration"))
    ok = len(news) >= 1 and all(x is not None and is_deadline(x) for x in news)
    rep.check(ok, "R03.4", fl, tu, "Item::new(.., expiration)", "a queued New item carries the deadline", "the queued New item does not receive the deadline")
    # callers: insert / insert_if_present pass ZERO, insert_with_ttl passes its parameter
    ti = fl.cache_fn("try_insert_in")
    c = calls_to(ti, fl.cache + "::try_update")
    ok = len(c) == 1
    if ok:
        # arguments by the callee's parameter names; the deadline itself when try_update takes it instead of the ttl
        a_ = [norm(x_) for x_ in ti.call_args(c[0][1])]
        tu0 = facts.body(strip_generics(tu.raw["root"]), required=False) or tu
        byn = {tu0.local_name.get(i_ + 1): a_[i_] for i_ in range(len(a_)) if tu0.local_name.get(i_ + 1)}
        ok = byn.get("cost", a_[3] if len(a_) > 3 else None) == V("cost")
        if "ttl" in byn or len([1 for i_ in range(1, tu0.arg_count + 1) if tu0.locals[i_]["ty"].endswith("ttl::Time")]) == 0:
            ok = ok and byn.get("ttl", a_[4] if len(a_) > 4 else None) == V("ttl")
        # (else: the deadline parameter was matched with the caller's computation above)
    rep.check(ok, "R03.4", fl, ti, "try_update(.., ttl, ..)", "try_insert_in forwards ttl and cost", "try_insert_in does not forward its ttl/cost")
    for meth, want_ttl, want_flag in (("try_insert_with_ttl", V("ttl"), 0), ("try_insert_if_present", "ZERO", 1), ("insert_with_ttl", V("ttl"), 0), ("insert_if_present", "ZERO", 1),
                                      ("try_insert", "ZERO", 0), ("insert", "ZERO", 0)):
        b = fl.cache_fn(meth, required=False)
        if b is None:
            continue
        # follow one level of forwarding among the public wrappers
        tgt = None
        for name in ("try_insert_in", "try_insert_with_ttl", "insert_with_ttl", "try_insert_if_present", "try_insert"):
            cs = calls_to(b, fl.cache + "::" + name)
            if cs:
                tgt = (name, cs[0][1])
                break
        if tgt is None:
            rep.bad("R03.4", fl, b, "forward", "%s does not forward to the insert path" % meth)
            continue
        a = [norm(x) for x in b.call_args(tgt[1])]
        # arguments by the callee's parameter names (a reordered private signature is the same call)
        cb_ = fl.cache_fn(tgt[0], required=False)
        byname = {}
        if cb_ is not None:
            cb0 = facts.body(strip_generics(cb_.raw["root"]), required=False) or cb_   # the shell of an async fn carries the names
            for i_ in range(len(a)):
                nm_ = cb0.local_name.get(i_ + 1)
                if nm_:
                    byname[nm_] = a[i_]
        ttl_a = byname.get("ttl", a[4] if len(a) > 4 else None) if ("ttl" in byname or "only_update" not in byname) else None
        flag_a = byname.get("only_update", a[5] if len(a) > 5 else None)
        if ttl_a is None:
            # wrapper without ttl parameter forwarding to another wrapper without ttl: fine (checked there)
            rep.ok("R03.4", fl, b, "forward->%s" % tgt[0], "forwards to %s" % tgt[0])
            continue
        okt = (ttl_a == want_ttl) if want_ttl != "ZERO" else (ttl_a[0] in ("cstr", "named") and "ZERO" in str(ttl_a))
        okf = True
        if tgt[0] == "try_insert_in":
            okf = flag_a == ("const", want_flag, "bool")
        rep.check(okt and okf, "R03.4", fl, b, "forward->%s" % tgt[0], "%s passes ttl=%s%s" % (meth, want_ttl if want_ttl == "ZERO" else "its parameter", ", only_update=%s" % bool(want_flag) if tgt[0] == "try_insert_in" else ""),
                  "%s passes ttl=%s only_update=%s" % (meth, show(ttl_a), show(flag_a) if flag_a is not None else "-"), loc=tgt[1]["sp"])


def keep_aspects(rep, fl, fn, table, prop=None):
    """Run rule function `fn` and keep the instances whose rule id the property `prop` (default: the one
    being checked) rests on, according to `table`; anchors that went missing are always kept."""
    from framework import Report
    prop = prop or rep.prop
    want = table.get(prop)
    if want is None:
        return fn(rep, fl)
    tmp = Report(rep.prop, rep.tier)
    try:
        fn(tmp, fl)
    finally:
        rep.instances.extend(i for i in tmp.instances if i.rule in want or i.verdict == "anchor-missing")
        rep.notes.extend(tmp.notes)


def keep_sites(rep, fl, fn, patterns, *args, **kw):
    """Run rule function `fn(rep, fl, *args, **kw)` and keep the instances whose site matches one of the fnmatch
    `patterns` (anchors that went missing are always kept): a property reports only the instances of a shared
    rule function that are a necessary condition of that property."""
    import fnmatch
    from framework import Report
    tmp = Report(rep.prop, rep.tier)
    try:
        fn(tmp, fl, *args, **kw)
    finally:
        # a pattern with a `|` is matched against `<function>|<site>`, otherwise against the site
        hit = lambda i: any(fnmatch.fnmatchcase("%s|%s" % (i.func, i.site) if "|" in p_ else i.site, p_) for p_ in patterns)
        rep.instances.extend(i for i in tmp.instances if i.verdict == "anchor-missing" or hit(i))
        rep.notes.extend(tmp.notes)


def keep_rules(rep, fl, fn, rules, *args, rename=None, **kw):
    """Like keep_sites, by rule id: keep the instances of `fn` whose rule id is in `rules` (renamed to `rename`)."""
    from framework import Report
    tmp = Report(rep.prop, rep.tier)
    try:
        fn(tmp, fl, *args, **kw)
    finally:
        for i in tmp.instances:
            if i.verdict == "anchor-missing" or i.rule in rules:
                if rename and i.rule in rules:
                    i.rule = rename
                rep.instances.append(i)
        rep.notes.extend(tmp.notes)


# which store-write obligations a property rests on (rule ids of _store_writes_all): a check reports only
# what is a necessary condition of its own property, so that e.g. a change that loses the new
# deadline of an update alarms C03 / C05 / C04 but not C02 or C18
STORE_WRITE_ASPECTS = {
    "C01": {"R06.7"},                                       # the policy's victims really leave the store
    "C02": {"R02.4", "R02.5", "R09.2", "R18.3"},           # value swapped in place, right outcome, guards, same key
    "C03": {"R03.5"},                                       # the new deadline is installed
    "C04": {"R02.4", "R02.5", "R03.5", "R04.4", "R05.2", "R09.2", "R18.3", "R08.2", "R06.7"},  # exact map: everything
    "C05": {"R03.5", "R05.2", "R09.2"},                     # stored deadline and expiry index move together, and only for an accepted write
    "C06": {"R04.4", "R06.7"},                                       # what the policy admitted is stored
    "C08": {"R02.4", "R08.2", "R09.2", "R06.7"},                     # old value comes back out, refused value handed back
    "C09": {"R09.2", "R02.4", "R02.5", "R03.5"},            # guards, outcomes, value swapped only when accepted; TTL untouched on veto
    "C10": {"R02.5"},                                       # outcomes reported for their own cause: an insert of a resident key is applied, not re-queued as New
    "C18": {"R18.3", "R09.2", "R02.5", "R06.7"},                     # same key, conflict test before every write
}


def check_store_writes(rep, fl, prop=None):
    """Runs the store-write obligations and keeps those the property `prop` (default: the property being
    checked) rests on."""
    return keep_aspects(rep, fl, _store_writes_all, STORE_WRITE_ASPECTS, prop)


def _store_writes_all(rep, fl):
    """R03.5 / R09.2 / R02.4 / R18.3: mutations in store.try_update / try_insert happen only after
    the conflict test and the validator agreed; the Update path installs value and deadline."""
    facts = fl.facts
    # ---- try_update ------------------------------------------------------------------------
    b = facts.body(SM + "::try_update")
    shard, le, key, item, lk, look = accessor_facts(b)
    at, entry = dataflow(b)
    val = V("val")
    should = A(call("UpdateValidator::should_update", F(V("self"), "validator"), call("utils::SharedValue::get", ("field", item, "value")), val))
    guard = AND(A(("variant", le, "Some")), conflict_ok_formula(item), should)
    muts = []
    for bi, t in calls_to(b, "mem::swap", "mem::replace"):
        muts.append(("swap", bi, term_idx(b, bi), t["sp"]))
    for bi, si, st in stmt_nodes(b, lambda s: has_field(s["pl"], "expiration", "store::StoreItem") or has_field(s["pl"], "value", "store::StoreItem") or has_field(s["pl"], "conflict", "store::StoreItem")):
        muts.append(("write " + field_last(st["pl"])[0], bi, si, st["sp"]))
    for bi, t in calls_to(b, EM + "::try_update", EM + "::try_insert", EM + "::try_remove"):
        muts.append((short(b.callee_of(t)), bi, term_idx(b, bi), t["sp"]))
    for bi, t, m in map_calls(b, SHARD_TY, "insert", "remove", "clear", "retain"):
        muts.append(("shard." + m, bi, term_idx(b, bi), t["sp"]))
    if len(muts) < 3:
        rep.missing("R09.2", fl, "store.try_update: expected swap + expiration write + em.try_update, found %s" % [m[0] for m in muts])
    for name, bi, si, sp in muts:
        ok, cx = all_states(b, at, (bi, si), guard, hist=True)
        rep.check(ok, "R09.2", fl, b, name, "dominated by lookup-hit, conflict-ok and should_update == true",
                  "%s is reachable although the conflict test / UpdateValidator did not agree (%s): a vetoed or colliding insert changes the resident entry" % (name, show_state(cx) if cx else ""), loc=sp)
    # the Update path: swap(val, item.value) ; item.expiration = expiration ; returns Update(val)
    # `mem::swap(&mut val, slot)` then Update(val), or `let prev = mem::replace(slot, val)` then Update(prev)
    sw = calls_to(b, "mem::swap", "mem::replace")
    oksw = len(sw) == 1
    old_value = val
    if oksw:
        a = [norm(x) for x in b.call_args(sw[0][1])]
        slot = call("utils::SharedValue::get_mut", ("field", item, "value"))
        if callee_matches(b.callee_of(sw[0][1]), "mem::replace"):
            oksw = a[0] == norm(slot) and a[1] == val
            old_value = norm(b.call_expr(sw[0][1], True))
        else:
            oksw = {a[0], a[1]} == {val, norm(slot)}
    rep.check(oksw, "R02.4", fl, b, "swap(val, item.value)", "the new value is swapped into the looked-up item", "mem::swap / mem::replace arguments are not (val, item.value)")
    ew = [(bi, si, st) for bi, si, st in stmt_nodes(b, lambda s: has_field(s["pl"], "expiration", "store::StoreItem"))]
    okew = len(ew) == 1 and norm(b.rvalue_expr(ew[0][2]["rv"], True)) == V("expiration") and norm(b.place_expr(ew[0][2]["pl"], True)) == ("field", item, "expiration")
    rep.check(okew, "R03.5", fl, b, "item.expiration = expiration", "an update replaces the stored deadline by the new one",
              "store.try_update does not install the new deadline: a re-inserted key keeps its old TTL")
    upd = agg_nodes(b, "store::UpdateResult", "Update")
    okup = len(upd) == 1 and sw and block_dominates(b, sw[0][0], upd[0][0]) and (upd[0][3][3][0] == old_value or norm(b.expand(upd[0][3][3][0])) == old_value)
    rep.check(bool(okup), "R02.4", fl, b, "Update(val)", "Update(old value) is returned only after the swap", "the Update result is built without the swap: the resident value is not replaced (or the old value is lost)")
    okud = len(upd) == 1 and ew and block_dominates(b, ew[0][0], upd[0][0])
    rep.check(bool(okud), "R03.5", fl, b, "Update after deadline write", "Update is returned only after the new deadline was stored", "an update can return without storing the new deadline: the entry keeps its old TTL")
    emu = calls_to(b, EM + "::try_update")
    okem = len(emu) == 1
    if okem:
        a = [norm(x) for x in b.call_args(emu[0][1])]
        okem = a[1] == key and a[2] == V("conflict") and a[3] == ("field", item, "expiration") and a[4] == V("expiration")
    rep.check(okem, "R05.2", fl, b, "em.try_update(key, conflict, old, new)", "the expiry index is moved from the stored deadline to the new one", "em.try_update arguments changed")
    # rejected paths return the caller's value unchanged, and each outcome is reported only for its own cause
    causes = {
        "NotExist": (A(("variant", le, "None")), "the key is absent from the shard"),
        "Conflict": (AND(A(("variant", le, "Some")), NOT(conflict_ok_formula(item))), "the stored conflict hash differs"),
        "Reject": (AND(A(("variant", le, "Some")), conflict_ok_formula(item), NOT(should)), "the UpdateValidator vetoed"),
    }
    for var in ("NotExist", "Conflict", "Reject"):
        ag = agg_nodes(b, "store::UpdateResult", var)
        ok = len(ag) >= 1 and all(x[3][3][0] == val for x in ag)
        rep.check(ok, "R09.2", fl, b, var + "(val)", "%s hands the caller's value back" % var, "%s does not return the caller's value" % var)
        for abi, asi, ast, ae in ag:
            good, cx = all_states(b, at, (abi, asi), causes[var][0], hist=True)
            rep.check(good, "R02.5", fl, b, var + " cause", "%s is reported only when %s" % (var, causes[var][1]),
                      "%s is reported on a path where it is not the case that %s (%s): a resident entry is treated as %s, so an insert of a resident key is queued as a New item "
                      "instead of replacing the value in place (and the policy, which already charges the key, then rejects it)" % (var, causes[var][1], show_state(cx)[:160] if cx else "", var), loc=ast["sp"])
    # ---- try_insert ------------------------------------------------------------------------
    b = facts.body(SM + "::try_insert")
    shard, le, key, item, lk, look = accessor_facts(b)
    at, entry = dataflow(b)
    should = A(call("UpdateValidator::should_update", F(V("self"), "validator"), call("utils::SharedValue::get", ("field", item, "value")), val))
    absent = A(("variant", le, "None"))
    guard = OR(absent, AND(A(("variant", le, "Some")), conflict_ok_formula(item), should))
    ins = map_calls(b, SHARD_TY, "insert")
    rep.check(len(ins) == 1, "R09.2", fl, b, "one insert", "one shard insert", "%d shard inserts" % len(ins))
    for bi, t, m in ins:
        ok, cx = all_states(b, at, (bi, term_idx(b, bi)), guard, hist=True)
        rep.check(ok, "R09.2", fl, b, "shard.insert", "an existing entry is overwritten only after conflict-ok and should_update == true; an absent key is always inserted",
                  "shard.insert reachable with a resident entry whose conflict/validator test did not pass (%s)" % (show_state(cx) if cx else ""), loc=t["sp"])
        a = [norm(x) for x in b.call_args(t)]
        f = agg_fields(a[2])
        okf = a[1] == key == V("key") and f.get("key") == V("key") and f.get("conflict") == V("conflict") and f.get("expiration") == V("expiration") \
            and is_call(f.get("value", ()), "SharedValue::new") and f["value"][2][0] == val
        rep.check(okf, "R03.5", fl, b, "StoreItem{..}", "the entry is stored under `key` with the given conflict, value and deadline", "StoreItem built as %s" % {k: show(v) for k, v in f.items()}, loc=t["sp"])
    # R04.4: an absent key is always inserted: a return that has not passed the shard insert is justified only by
    # a resident entry that refused the write (conflict mismatch / validator veto) or by an expiry-index error
    import props_cache
    ins_terms = [t for _, t, _ in ins]

    def lab_ins(bi, t):
        return "insert" if any(t is x for x in ins_terms) else None
    outs, at_ins = props_cache.count_paths(b, lab_ins)
    bad = []
    for s_, cnt in outs:
        if cnt.get("insert"):
            continue
        es = expand_state(b, s_, hist=True)
        resident = any(a[0] == "variant" and a[2] == "Some" and v and norm(a[1]) == le for a, v in es.lits) or \
            any(a[0] == "variant" and a[2] == "None" and v is False and norm(a[1]) == le for a, v in es.lits)
        errp = any(a[0] == "variant" and a[2] == "Break" and v for a, v in es.lits)
        if not (resident or errp):
            bad.append(show_state(s_))
    rep.check(bool(ins) and not bad, "R04.4", fl, b, "absent => inserted", "an absent key is always inserted (only a resident entry that refuses the write, or an expiry-index error, can prevent it)",
              "store.try_insert can return without inserting although the key is not resident (path: %s): the policy has already charged the entry, which is then charged but not stored" % (bad[0][:200] if bad else ""))
    for bi, t in calls_to(b, EM + "::try_insert"):
        ok, cx = all_states(b, at, (bi, term_idx(b, bi)), absent)
        a = [norm(x) for x in b.call_args(t)]
        rep.check(ok and a[1] == key and a[2] == V("conflict") and a[3] == V("expiration"), "R05.2", fl, b, "em.try_insert(key, conflict, expiration)",
                  "a fresh entry is filed in the expiry index with its own deadline", "em.try_insert call changed: %s" % show(b.call_expr(t)), loc=t["sp"])
    for bi, t in calls_to(b, EM + "::try_update"):
        ok, cx = all_states(b, at, (bi, term_idx(b, bi)), AND(A(("variant", le, "Some")), conflict_ok_formula(item), should), hist=True)
        a = [norm(x) for x in b.call_args(t)]
        rep.check(ok and a[1] == key and a[3] == ("field", item, "expiration") and a[4] == V("expiration"), "R09.2", fl, b, "em.try_update",
                  "the expiry index is touched only after the validator agreed", "em.try_update reachable before the validator agreed / wrong arguments", loc=t["sp"])
    # ---- try_remove -------------------------------------------------------------------------
    b = facts.body(SM + "::try_remove")
    shard, le, key, item, lk, look = accessor_facts(b)
    at, entry = dataflow(b)
    rms = map_calls(b, SHARD_TY, "remove")
    rep.check(len(rms) == 1, "R18.3", fl, b, "one remove", "one shard removal", "%d shard removals" % len(rms))
    for bi, t, m in rms:
        ok, cx = all_states(b, at, (bi, term_idx(b, bi)), AND(A(("variant", le, "Some")), conflict_ok_formula(item)))
        a = [norm(x) for x in b.call_args(t)]
        rep.check(ok and a[1] == key == V("key"), "R18.3", fl, b, "shard.remove(key)", "an entry is removed only for the looked-up key after the conflict test",
                  "shard.remove reachable without the conflict test (%s): removing one key deletes a colliding key's entry" % (show_state(cx) if cx else ""), loc=t["sp"])
        # the removed item is what is returned
        re_ = [norm(b.def_expr(x, y, True)) for x, y in b.defs.get(0, []) if x in b.reachable(bi)]
        okr = any(e[0] == "agg" and e[2].endswith("Result::Ok") and is_call(e[3][0], "HashMap::remove") for e in re_)
        rep.check(okr, "R08.2", fl, b, "returns removed item", "the removed StoreItem is returned to the caller (who routes its value to a callback)", "try_remove does not return the removed item")
    # ... and the other way round: a removal asked for with the wildcard conflict 0 (the policy's victims) or with the
    # entry's own conflict hash is carried out - the only refusal of a found entry is `conflict != 0 && conflict !=
    # item.conflict`, known on the path.  (A stricter test - equality only - leaves every victim of a key builder with
    # real conflict hashes in the store, uncharged.)
    if len(rms) == 1:
        import props_cache
        rbi_ = rms[0][0]
        outs_, at_ = props_cache.count_paths(b, lambda bi_, t_: "removed" if t_ is rms[0][1] else None)
        okc = bool(outs_)
        badp = None
        for s_, cnt_ in outs_:
            es_ = expand_state(b, s_, hist=True)
            if cnt_.get("removed"):
                continue
            if any(a_[0] == "variant" and a_[2] in ("Break", "Err") and v_ for a_, v_ in es_.lits):
                continue   # an error return of the expiry index
            found_ = feval(A(("variant", le, "Some")), es_)
            if found_ is False or feval(A(("variant", le, "None")), es_) is True:
                continue
            if feval(conflict_ok_formula(item), es_) is not False:
                okc = False
                badp = s_
        rep.check(okc, "R06.7", fl, b, "own or wildcard removal happens", "a found entry is left in place only when conflict != 0 && conflict != item.conflict: a wildcard (0) or matching removal is always carried out",
                  "try_remove can refuse although the caller passed the wildcard conflict 0 or the entry's own conflict hash (%s): the policy's victims (removed with conflict 0) stay in the store without a charge" % (show_state(badp) if badp else ""))
    er = calls_to(b, EM + "::try_remove")
    rep.note("R05.4 (recorded, not armed): store.try_remove calls em.try_remove: %s" % bool(er))


# ----------------------------------------------------------------------------------------
# C05: expiry index
# ----------------------------------------------------------------------------------------

def check_buckets(rep, fl):
    facts = fl.facts
    sb = facts.body("ttl::storage_bucket")
    t = V(sb.local_name.get(1, "arg1"))
    e = norm(return_expr(sb))
    want = norm(("cast", "i64", ("bin", "Add", call(TIME + "::unix", t), ("const", 1, "u64"))))
    rep.check(e == want, "R05.1", fl, sb, "storage_bucket", "storage_bucket(t) = unix(t) + 1", "storage_bucket(t) = %s" % show(e))
    # cleanup_bucket(now) = storage_bucket(now) - 1 is spliced into its caller (core.ALWAYS_INLINE): R05.5 compares
    # the buckets with that expression in ExpirationMap::try_cleanup
    ux = facts.body(TIME + "::unix")
    e = norm(return_expr(ux))
    ok = is_call(e, "Duration::as_secs") and is_call(strip_unwrap(e[2][0]), "Result::map") and is_call(strip_unwrap(e[2][0])[2][0], "SystemTime::duration_since") \
        and norm(strip_unwrap(e[2][0])[2][0][2][0]) == norm(F(V("self"), "created_at"))
    if ok:
        cb = facts.closure_body(strip_unwrap(e[2][0])[2][1][1])
        ce = in_parent_terms(facts, cb, return_expr(cb))
        ok = is_call(ce, "Add::add") and set(ce[2]) == {V(cb.local_name.get(2, "arg2")), norm(F(V("self"), "d"))}
    rep.check(ok, "R05.1", fl, ux, "unix", "unix() = whole seconds of (created_at - EPOCH + d): buckets are one second wide", "unix() is %s" % show(e))


def check_em_remove(rep, fl, rule="R05.9"):
    """ExpirationMap::try_remove un-files one key: it takes the key out of a bucket and never drops, clears or
    replaces a bucket of the index (the other keys filed under the same second must stay tracked)."""
    facts = fl.facts
    b = facts.flat(facts.body(EM + "::try_remove"))
    outer_mut = map_calls(b, OUTER_TY, "remove", "clear", "retain", "insert", "drain", "remove_entry", "extract_if")
    inner_rm = [(bi, t) for bi, t in b.calls() if callee_matches(b.callee_of(t), "Bucket::remove") or
                (b.callee_of(t).startswith("std::collections::HashMap::") and b.callee_of(t).endswith("::remove") and INNER_TY in recv_ty(t))]
    inner_other = map_calls(b, INNER_TY, "clear", "retain", "drain")
    ok = not outer_mut and not inner_other and all(norm(b.expand(norm(b.call_args(t)[1]))) == V("key") for _, t in inner_rm)
    rep.check(ok, rule, fl, b, "removes one key", "try_remove(key, ..) only takes `key` out of a bucket",
              "ExpirationMap::try_remove edits the bucket index itself (%s): the other keys filed under that second are no longer tracked and are never reclaimed"
              % ", ".join(sorted({m for _, _, m in outer_mut + inner_other}) or ["another key"]))


def check_em_insert(rep, fl):
    """R05.2: a non-zero deadline is filed under key in storage_bucket(deadline) on every path."""
    facts = fl.facts
    b = facts.body(EM + "::try_insert")
    at, entry = dataflow(b)
    key, conflict, exp = V("key"), V("conflict"), V("expiration")
    zero = A(call(TIME + "::is_zero", exp))
    inner = map_calls(b, INNER_TY, "insert")
    outer_ins = map_calls(b, OUTER_TY, "insert")
    outer_get = map_calls(b, OUTER_TY, "get_mut", "get", "entry")
    bnum = call("ttl::storage_bucket", exp)
    okk = True
    for bi, t, m in inner:
        a = [norm(x) for x in b.call_args(t)]
        okk = okk and a[1] == key and a[2] == conflict
        ok, cx = all_states(b, at, (bi, term_idx(b, bi)), NOT(zero))
        rep.check(ok, "R05.2", fl, b, "bucket.insert guarded", "entries without a deadline are not filed", "a zero deadline can be filed in a bucket", loc=t["sp"])
    rep.check(okk and len(inner) >= 1, "R05.2", fl, b, "bucket.insert(key, conflict)", "the bucket entry is (key -> conflict)", "bucket entries are not (key, conflict)")
    okb = all(norm(b.expand(norm(b.call_args(t)[1]))) == bnum for _, t, _ in outer_get + outer_ins) and len(outer_get) >= 1
    rep.check(okb, "R05.2", fl, b, "bucket = storage_bucket(expiration)", "the key is filed in the bucket of its own deadline", "the bucket number is not storage_bucket(expiration)")
    # every path with a non-zero deadline files the key, and a freshly created bucket is put into the index
    fin = False
    for bi in b.live_blocks():
        t = b.term(bi)
        if t and t["k"] == "switch":
            for tgt, atom, pol in edge_literals(b, bi):
                if atom is not None and norm(b.expand(atom)) == call(TIME + "::is_zero", exp) and pol is False:
                    fin = must_pass_through(b, [x for x, _, _ in inner], from_bi=tgt)
    rep.check(fin, "R05.2", fl, b, "always filed", "with a non-zero deadline every path files the key", "a path with a non-zero deadline returns without filing the key")
    for bi, t, m in inner:
        a = norm(b.call_args(t)[0])
        fresh = any(is_call(c, "Bucket::with_hasher") for c in calls_in(b.expand(a))) or a[0] == "field" and a[1][0] == "var" and a[1][1] in b.name_local and \
            any(is_call(norm(b.def_expr(x, y, True)), "Bucket::with_hasher") for x, y in b.defs.get(b.name_local[a[1][1]], []))
        if fresh:
            ok = must_pass_through(b, [x for x, _, _ in outer_ins], from_bi=bi)
            rep.check(ok, "R05.2", fl, b, "new bucket stored", "a freshly created bucket is inserted into the index", "a new bucket is filled but never stored", loc=t["sp"])


def check_em_update(rep, fl):
    """R05.3: try_update moves exactly the updated key."""
    facts = fl.facts
    b = facts.body(EM + "::try_update")
    at, entry = dataflow(b)
    key, conflict = V("key"), V("conflict")
    old, new = V("old_exp_time"), V("new_exp_time")
    outer_rm = map_calls(b, OUTER_TY, "remove", "clear", "retain", "drain", "extract_if")
    rep.check(not outer_rm, "R05.3", fl, b, "no bucket-level removal", "try_update never removes / clears a whole bucket",
              "try_update calls %s on the bucket index: every other key filed under the old deadline loses its expiry bookkeeping and is never reclaimed" % ",".join("buckets.%s" % m for _, _, m in outer_rm),
              loc=outer_rm[0][1]["sp"] if outer_rm else None)
    inner_rm = map_calls(b, INNER_TY, "remove")
    okr = len(inner_rm) >= 1
    for bi, t, m in inner_rm:
        a = [norm(x) for x in b.call_args(t)]
        src = norm(b.expand(a[0]))
        okr = okr and a[1] == key and any(is_call(c, "HashMap::get_mut") and norm(b.expand(norm(c[2][1]))) == call("ttl::storage_bucket", old) for c in calls_in(src))
    rep.check(okr, "R05.3", fl, b, "old bucket: remove(key)", "the updated key (only) is taken out of storage_bucket(old deadline)",
              "the updated key is not removed from the bucket of its old deadline (it would be swept at the old time)" if not inner_rm else "the inner removal is not remove(key) on storage_bucket(old)")
    inner_ins = map_calls(b, INNER_TY, "insert")
    oki = len(inner_ins) >= 1
    for bi, t, m in inner_ins:
        a = [norm(x) for x in b.call_args(t)]
        oki = oki and a[1] == key and a[2] == conflict
    outer_get = [x for x in map_calls(b, OUTER_TY, "get_mut") if norm(b.expand(norm(b.call_args(x[1])[1]))) == call("ttl::storage_bucket", new)]
    outer_ins = map_calls(b, OUTER_TY, "insert")
    oki = oki and len(outer_get) >= 1 and all(norm(b.expand(norm(b.call_args(t)[1]))) == call("ttl::storage_bucket", new) for _, t, _ in outer_ins)
    rep.check(oki, "R05.3", fl, b, "new bucket: insert(key, conflict)", "the key is filed in storage_bucket(new deadline)", "the key is not filed under its new deadline")
    # whenever the buckets differ the move happens on every path
    moved = True
    for bi in b.live_blocks():
        t = b.term(bi)
        if t and t["k"] == "switch":
            for tgt, atom, pol in edge_literals(b, bi):
                if atom is not None and atom[0] == "bin" and atom[1] == "Eq" and pol is False and \
                        {norm(b.expand(atom[2])), norm(b.expand(atom[3]))} == {call("ttl::storage_bucket", old), call("ttl::storage_bucket", new)}:
                    moved = must_pass_through(b, [x for x, _, _ in inner_ins], from_bi=tgt)
    rep.check(moved, "R05.3", fl, b, "move on every path", "when the buckets differ the key is re-filed on every path", "a path with differing buckets does not re-file the key")
    # a return that has not filed the key is justified only when there is nothing to file (the new
    # deadline is zero) or when the key is already in place: it *was* filed (old deadline non-zero)
    # under the same bucket.  An entry without TTL is filed nowhere, so equal bucket numbers mean
    # nothing for it.
    import props_cache
    ins_terms = [t for _, t, _ in inner_ins]

    def lab(bi, t):
        return "file" if any(t is x for x in ins_terms) else None
    outs, at2 = props_cache.count_paths(b, lab)
    bad = []
    for s_, cnt in outs:
        if cnt.get("file"):
            continue
        es = expand_state(b, s_, hist=True)
        new_zero = any(is_call(a, "Time::is_zero") and norm(a[2][0]) == new and v for a, v in es.lits)
        old_nonzero = any(is_call(a, "Time::is_zero") and norm(a[2][0]) == old and v is False for a, v in es.lits)
        same = any(a[0] == "bin" and a[1] == "Eq" and v and {a[2], a[3]} == {call("ttl::storage_bucket", old), call("ttl::storage_bucket", new)} for a, v in es.lits)
        errp = any(a[0] == "variant" and a[2] == "Break" and v for a, v in es.lits)
        if not (new_zero or (old_nonzero and same) or errp):
            bad.append(show_state(s_))
    rep.check(not bad, "R05.3", fl, b, "unfiled return only when in place", "try_update returns without filing the key only when the new deadline is zero or the key was already filed under the same bucket",
              "try_update can return without filing a key that now has a deadline although the key was filed nowhere before (the entry had no TTL and its creation second + 1 happens to equal the new bucket): "
              "the entry expires but is never reclaimed (path: %s)" % (bad[0] if bad else ""))


def check_em_cleanup(rep, fl):
    """R05.5: the due set is every bucket <= cleanup_bucket(now), each removed from the index."""
    facts = fl.facts
    b = facts.body(EM + "::try_cleanup")
    bodies = descendants(facts, b)
    # a bucket is due only after every deadline filed in it has passed: one behind the storage bucket
    cb_now = norm(("bin", "Sub", call("ttl::storage_bucket", V("now")), ("const", 1, "i64")))
    scans = []
    removals = []
    points = []
    for x in bodies:
        for bi, t, m in map_calls(x, OUTER_TY):
            if m in ("keys", "iter", "iter_mut", "retain", "extract_if", "drain", "into_iter", "values", "range"):
                scans.append((x, bi, t, m))
            if m in ("remove", "retain", "extract_if", "drain", "remove_entry"):
                removals.append((x, bi, t, m))
            if m in ("remove", "get", "get_mut", "remove_entry"):
                k = in_parent_terms(facts, x, x.expand(norm(x.call_args(t)[1]))) if x.is_closure else norm(x.expand(norm(x.call_args(t)[1])))
                if k == cb_now:
                    points.append((x, bi, t, m))
    # a comparison bucket <= cleanup_bucket(now)
    cmp_ok = False
    for x in bodies:
        exprs = []
        for bi in x.live_blocks():
            for st in x.blocks[bi]["stmts"]:
                if st["k"] == "assign":
                    exprs.append(norm(x.rvalue_expr(st["rv"], True)))
            t = x.term(bi)
            if t and t["k"] == "switch":
                for tgt, atom, pol in edge_literals(x, bi):
                    if atom is not None:
                        exprs.append(norm(x.expand(atom)))
        for e in exprs:
            e2 = in_parent_terms(facts, x, e) if x.is_closure else e
            for sub in subexprs(e2):
                if sub[0] == "bin" and sub[1] == "Lt":
                    # normal form: `bucket <= cb` is !(cb < bucket), `cb >= bucket` likewise: the cleanup bucket itself
                    # is due. `bucket < cb` (cb on the right) leaves it for the next round: one more bucket width of delay
                    if norm(b.expand(sub[2])) == cb_now:
                        cmp_ok = True
    if points and not scans:
        rep.bad("R05.5", fl, b, "due-set selection",
                "only the single bucket cleanup_bucket(now) is looked up (buckets.%s): buckets are one second wide and the default tick is %s, so every bucket a tick does not land on is never visited and its entries are never reclaimed" % (
                    points[0][3], facts.consts.get("cache::DEFAULT_CLEANUP_DURATION", {}).get("decl", "2 s")), loc=points[0][2]["sp"])
    else:
        rep.check(bool(scans) and cmp_ok and bool(removals), "R05.5", fl, b, "due-set selection",
                  "the bucket index is scanned (%s) for buckets <= cleanup_bucket(now) and the due buckets are removed from it (%s)" % (
                      ",".join(sorted({m for _, _, _, m in scans})), ",".join(sorted({m for _, _, _, m in removals}))),
                  "cannot establish that every bucket <= cleanup_bucket(now) is collected and removed (scan=%s, comparison with cleanup_bucket(now)=%s, removal=%s)" % (bool(scans), cmp_ok, bool(removals)))
    # the result is built from the removed buckets' maps
    ret_ok = any(is_call(s, "Extend::extend") or (s[0] == "field" and s[2] == "map") for x in bodies for bi in x.live_blocks() for st in x.blocks[bi]["stmts"] if st["k"] == "assign"
                 for s in subexprs(norm(x.rvalue_expr(st["rv"], True)))) or any(calls_to(x, "Extend::extend") for x in bodies)
    rep.check(ret_ok, "R05.5", fl, b, "returns bucket maps", "the keys of the removed buckets are returned", "the removed buckets' keys are not returned")


def sweeper_body(fl):
    """The body (function or closure) of the sweeper that contains both policy.remove and
    store.try_remove."""
    facts = fl.facts
    root = facts.body(fl.cleanup)
    for x in descendants(facts, root):
        if calls_to(x, SM + "::try_remove"):
            return root, x
    raise AnchorMissing("%s: no call to store.try_remove" % fl.cleanup)


# which sweeper obligations a property rests on: R05.6 = who is swept and when (the re-check on the stored
# deadline, the due set, the conflict passed on), R06.4 = charge and entry go together, R16.5 = the cost
# reported is the charge read before its release, R08.2 = the value reported is the removed one
SWEEPER_ASPECTS = {
    "C01": {"R05.6", "R06.4"},   # a charge is released for exactly the entries the sweep removes: no resident entry goes uncharged
    "C03": {"R05.6"}, "C04": {"R05.6", "R06.4"}, "C05": {"R05.6", "R06.4", "R16.5", "R08.2", "R05.8"}, "C06": {"R06.4"}, "C11": {"R05.6"},
    "C16": {"R16.5"}, "C08": {"R08.2", "R06.4", "R05.8", "R05.6"}, "C09": {"R05.6"},   # (C08: every entry found elapsed is taken out and reported)
}


def check_sweeper(rep, fl, prop=None):
    return keep_aspects(rep, fl, _sweeper_all, SWEEPER_ASPECTS, prop)


def _sweeper_all(rep, fl):
    """R05.6 (+ R03.6, R04.3, R06.4, R16.5)."""
    facts = fl.facts
    root, x = sweeper_body(fl)
    at, entry = dataflow(x)
    prs = calls_to(x, fl.policy + "::remove")
    tr = calls_to(x, SM + "::try_remove")[0]
    if len(prs) != 1:
        rep.bad("R06.4", fl, x, "remove pair", "the sweeper removes the entry from the store without releasing its policy charge (policy.remove calls: %d): the charge outlives the entry" % len(prs), loc=tr[1]["sp"])
        # fail closed: without the one policy.remove(k) none of the obligations that hang on it (guard, cost read
        # before the release, reported item) can be decided for this sweeper
        for r_ in ("R05.6", "R16.5", "R08.2"):
            rep.bad(r_, fl, x, "remove pair", "the sweeper does not release the charge of each swept key with one policy.remove(k) (calls: %d): the guard on that release, the cost read before it and the item reported for it cannot be established" % len(prs), loc=tr[1]["sp"])
        return
    pr = prs[0]
    pc = calls_to(x, fl.policy + "::cost")
    k = norm(x.call_args(pr[1])[1])
    # the stored deadline t: a value obtained from self.expiration(k)
    tvar = None
    for s in at.get((pr[0], term_idx(x, pr[0])), set()):
        for a, v in s.lits:
            ea = norm(x.expand(a))
            if is_call(ea, "Time::is_expired"):
                tvar = ea[2][0]
    if tvar is None:
        rep.bad("R05.6", fl, x, "re-check", "the sweeper removes bucket keys without re-checking the stored deadline (is_expired)", loc=pr[1]["sp"])
        for r_ in ("R06.4", "R16.5", "R08.2"):
            rep.bad(r_, fl, x, "re-check", "the sweeper removes bucket keys without re-checking the stored deadline (is_expired): what it releases and reports is not tied to an expired entry", loc=pr[1]["sp"])
        return
    # provenance of t: payload of expiration(self, k)
    src_ok = False
    te = norm(x.expand(tvar))
    if any(is_call(c, "ShardedMap::expiration") and norm(c[2][1]) == k for c in calls_in(te)):
        src_ok = True
    elif tvar[0] == "var" and x.is_closure:
        p = closure_passed_to(facts, x)
        if p is not None:
            par, pbi, pt = p
            recv = norm(par.call_args(pt)[0])
            kk = in_parent_terms(facts, x, k)
            src_ok = callee_matches(par.callee_of(pt), "Option::and_then") and is_call(recv, "ShardedMap::expiration") and norm(par.expand(recv[2][1])) == norm(par.expand(kk)) \
                and tvar == V(x.local_name.get(2, "arg2"))
    rep.check(src_ok, "R05.6", fl, x, "t = store.expiration(k)", "the deadline tested is the one currently stored for the same key",
              "the deadline tested by the sweeper is not store.expiration(k) of the key being removed")
    live = AND(NOT(A(call(TIME + "::is_zero", tvar))), A(call(TIME + "::is_expired", tvar)))
    for name, (bi, t) in (("policy.remove", pr), ("store.try_remove", tr)):
        ok, cx = all_states(x, at, (bi, term_idx(x, bi)), live)
        rep.check(ok, "R05.6", fl, x, name + " guard", "dominated by !t.is_zero() && t.is_expired() on the stored deadline (same predicate as the lookup path)",
                  "%s is reachable on a path where the stored deadline is not known to be non-zero and elapsed (%s): an entry without TTL (zero deadline reads as expired) or an unexpired entry is swept" % (
                      name, show_state(cx) if cx else ""), loc=t["sp"])
    # ... and the converse: once the stored deadline has been found non-zero and elapsed, the entry is taken out - no
    # further way round the removal (a second opinion asked of the policy, say: an entry the policy does not track any
    # more would stay in the store, out of every lookup's sight, its value never reported)
    n_edges = 0
    conv_ok = True
    for bi_ in x.live_blocks():
        t_ = x.term(bi_)
        if t_ and t_["k"] == "switch":
            for tgt_, atom_, pol_ in edge_literals(x, bi_):
                if atom_ is not None and pol_ is True and is_call(norm(x.expand(atom_)), TIME + "::is_expired"):
                    n_edges += 1
                    conv_ok = conv_ok and must_pass_through(x, [tr[0]], from_bi=tgt_)
    if n_edges:
        rep.check(conv_ok, "R05.6", fl, x, "expired => removed", "from the verdict `elapsed` every path reaches store.try_remove (%d verdict edges)" % n_edges,
                  "after the stored deadline has been found elapsed the sweeper can still leave the entry in the store (an exit between the verdict and store.try_remove): the expiry index has already forgotten the key, so the entry is never swept, its value never reported", loc=tr[1]["sp"])
    # cost read before the charge is released, same key
    okc = len(pc) == 1 and norm(x.call_args(pc[0][1])[1]) == k and precedes_each_time(x, pc[0][0], pr[0])
    rep.check(bool(okc), "R16.5", fl, x, "cost before remove", "cost = policy.cost(k) is read before policy.remove(k)",
              "the charged cost is read after the charge was released (reports -1) or for another key", loc=pr[1]["sp"])
    a = [norm(y) for y in x.call_args(tr[1])]
    rep.check(a[1] == k, "R06.4", fl, x, "same key", "policy.remove and store.try_remove act on the same key", "policy.remove(%s) vs store.try_remove(%s)" % (show(k), show(a[1])), loc=tr[1]["sp"])
    # pairing: every path through policy.remove reaches store.try_remove
    rep.check(must_pass_through(x, [tr[0]], from_bi=pr[0]), "R06.4", fl, x, "remove pair", "releasing the charge is always followed by removing the entry", "policy.remove can happen without store.try_remove")
    # ... and the other way round: no path reaches the store removal without having released the charge
    # (`if cost > 0 { policy.remove(k) }` keeps the charge of an entry that costs nothing)
    rep.check(block_dominates(x, pr[0], tr[0]), "R06.4", fl, x, "charge released first", "store.try_remove is reached only through policy.remove(k): every swept entry is un-charged, whatever its cost",
              "the sweeper can remove an entry from the store without policy.remove (the release is conditional): the charge outlives the entry and a later insert of the key is refused as an update", loc=pr[1]["sp"])
    # conflict value comes from the bucket entry (not 0 / constant)
    rep.check(a[2][0] != "const", "R05.6", fl, x, "conflict from bucket", "try_remove is given the conflict recorded in the bucket", "try_remove is called with a constant conflict %s" % show(a[2]))
    # result item: val Some(sitem.value), cost, exp: t
    items = []
    for y in descendants(facts, root):
        for bi, si, st, e in agg_nodes(y, "Item"):
            items.append((y, e, st))
    oki = len(items) == 1
    if oki:
        y, e, st = items[0]
        f = agg_fields(e)
        cost_e = in_parent_terms(facts, y, f["cost"], stop_at=x) if y is not x else f["cost"]
        exp_e = in_parent_terms(facts, y, f["exp"], stop_at=x) if y is not x else f["exp"]
        val_e = f["val"]
        okv = val_e[0] == "agg" and val_e[2].endswith("Option::Some") and is_call(val_e[3][0], "SharedValue::into_inner")
        cost_l = place_target(x, pc[0][1]["dest"]) if pc else None
        ce_ = norm(x.expand(norm(cost_e)))
        okcost = cost_l is not None and (norm(cost_e) == cost_l or (is_call(ce_, fl.policy + "::cost") and norm(x.expand(ce_[2][1])) == norm(x.expand(k))))
        okexp = norm(exp_e) == tvar or norm(x.expand(norm(exp_e))) == norm(x.expand(tvar))
        rep.check(okv, "R08.2", fl, y, "evicted item: value", "the swept entry is reported with the value that was removed from the store", "swept item carries val=%s" % show(val_e), loc=st["sp"])
        rep.check(okcost, "R16.5", fl, y, "evicted item: cost", "the swept entry is reported with the charged cost read before release", "swept item carries cost=%s" % show(cost_e), loc=st["sp"])
        rep.check(okexp, "R05.6", fl, y, "evicted item: deadline", "the swept entry is reported with its stored deadline", "swept item carries exp=%s" % show(exp_e), loc=st["sp"])
    else:
        rep.bad("R05.6", fl, x, "evicted item", "expected one Item construction in the sweeper, found %d" % len(items))
    # every key handed over by the expiry index is examined: the index has already forgotten them, so a key that
    # is skipped (take(n), skip, step_by, ...) stays in the store for ever, hidden by its elapsed deadline
    trunc = []
    for y in descendants(facts, root):
        for bi_, t_ in y.calls():
            c_ = y.callee_of(t_)
            if re.search(r"Iterator::(take|skip|step_by|take_while|skip_while|nth|nth_back|last|find|position)$|::(truncate|split_off|pop|swap_remove|drain)$", c_) and str((t_.get("sp") or {}).get("f", "")).startswith("src/"):
                if c_.endswith("::drain") and whole_drain(norm(y.call_expr(t_, True))):
                    continue   # `v.drain(..)`: every element, in order
                trunc.append(c_.split("::")[-1])
    rep.check(not trunc, "R05.8", fl, root, "whole due set", "the sweeper examines every key of the due set it took from the expiry index",
              "the sweeper drops part of the due set (%s) after the expiry index has already forgotten those keys: they are never reclaimed nor handed to on_evict" % ", ".join(sorted(set(trunc))))
    # the due set comes from em.try_cleanup(Time::now())
    ec = calls_to(root, EM + "::try_cleanup")
    ok = len(ec) == 1 and is_call(norm(root.call_args(ec[0][1])[1]), "Time::now")
    rep.check(ok, "R05.6", fl, root, "due set", "the due set is em.try_cleanup(Time::now())", "the sweeper does not ask the expiry index for the keys due now")


def check_tick(rep, fl):
    """R05.7: ticker arm -> handle_cleanup_event -> prepare_evict + on_evict once per swept item;
    the ticker period is the builder's cleanup_duration."""
    facts = fl.facts
    h = fl.proc_fn("handle_cleanup_event")
    bodies = descendants(facts, h)
    sw = [(x, c) for x in bodies for c in calls_to(x, fl.cleanup)]
    rep.check(len(sw) == 1, "R05.7", fl, h, "calls sweeper", "handle_cleanup_event runs the sweeper", "handle_cleanup_event does not call %s" % short(fl.cleanup))
    # on the flattened handler (`for_each` closure or `for` loop alike): one iteration over the swept
    # items, each element handed to prepare_evict and then to callback.on_evict, once
    hf = facts.flat(h)
    ev = calls_to(hf, "CacheCallback::on_evict")
    pe = calls_to(hf, fl.processor + "::prepare_evict")
    ok = len(ev) == 1 and len(pe) == 1
    if ok:
        ebi, et = ev[0]
        pbi, pt = pe[0]
        its_ = [i_ for i_ in iterations(hf) if ebi in i_.region]
        ok = len(its_) == 1
    if ok:
        it_ = its_[0]
        org = it_.origin()
        sweeper = fl.cleanup.split("::")[-1]
        from_sweeper = any(is_call(c, sweeper) for c in calls_in(org))
        pe_arg = it_.canon(hf.call_args(pt)[1])   # prepare_evict(&item) or prepare_evict(item.index)
        ok = from_sweeper and it_.is_elem(hf.call_args(et)[1]) and pe_arg in (("elem",), ("field", ("elem",), "index")) and it_.every_round([ebi]) \
            and must_pass_through(hf, [pbi], from_bi=it_.some, exits=[ebi]) and it_.once_per_round(ebi)
    rep.check(ok, "R05.7", fl, h, "on_evict per item", "every swept item goes through prepare_evict and callback.on_evict exactly once",
              "swept items are not handed to on_evict exactly once each")
    sp = fl.proc_fn("spawn")
    loop = None
    for x in descendants(facts, sp):
        if calls_to(x, fl.processor + "::handle_cleanup_event"):
            loop = x
    rep.check(loop is not None, "R05.7", fl, sp, "tick arm", "the processor loop has an arm calling handle_cleanup_event", "the processor loop never calls handle_cleanup_event")
    # the timer: a periodic one built from cleanup_duration, or a one-shot one (after(d) /
    # at(now + d)) that is re-armed inside the loop
    periodic = [(x, c) for x in descendants(facts, sp) for c in calls_to(x, "crossbeam_channel::tick", "Timer::interval", "channel::tick")]
    oneshot = [(x, c) for x in descendants(facts, sp) for c in calls_to(x, "crossbeam_channel::after", "crossbeam_channel::at", "channel::after", "channel::at", "Timer::after", "Timer::at")]
    cd = norm(F(V("self"), "cleanup_duration"))

    def is_period(x, e, deadline, depth=0):
        e = norm(e)
        if depth > 4:
            return False
        if not deadline and e == cd:
            return True
        if e[0] == "var":
            ds = var_def_exprs(x, e, False)
            if not ds and x.is_closure:
                par = parent_of(facts, x)
                env = closure_env(par, x) if par is not None else None
                if env and e in env:
                    return is_period(par, env[e], deadline, depth + 1)
            return bool(ds) and all(is_period(x, d, deadline, depth + 1) for d in ds)
        if deadline and e[0] == "call" and e[1].endswith("::add") and "Instant" in e[1] and len(e[2]) == 2:
            a, b_ = norm(e[2][0]), norm(e[2][1])
            return (is_call(a, "Instant::now") and is_period(x, b_, False, depth + 1)) or (is_call(b_, "Instant::now") and is_period(x, a, False, depth + 1))
        return False
    ok = False
    if periodic:
        x, (bi, t) = periodic[0]
        ok = is_period(x, x.call_args(t)[0], False)
        # ... and it ticks from the start, whatever the cache is used for: created once, on every path, before the loop
        # (a ticker that is armed later - by the first item of some kind - never sweeps entries that got their TTL another way)
        ok = ok and len(periodic) == 1 and not x.in_loop(bi) and must_pass_through(x, [bi])
        if ok and not t["dest"]["p"]:
            # the channel the loop receives from is that ticker and nothing else (no `never()` placeholder swapped for it)
            tl = t["dest"]["l"]
            tv = norm(x.place_expr(t["dest"], False))
            carriers = {tl}
            for _ in range(3):
                for l_, ds_ in x.defs.items():
                    for dbi, dsi in ds_:
                        blk = x.blocks[dbi]
                        if dsi < len(blk["stmts"]):
                            st_ = blk["stmts"][dsi]
                            rv_ = st_.get("rv") or {}
                            if rv_.get("k") == "use" and rv_["op"].get("k") in ("move", "copy") and not rv_["op"]["pl"]["p"] and rv_["op"]["pl"]["l"] in carriers:
                                carriers.add(l_)
            ok = all(len(x.defs.get(l_, [])) == 1 for l_ in carriers)
    elif oneshot:
        x, (bi, t) = oneshot[0]
        deadline = callee_matches(x.callee_of(t), "at") or x.callee_of(t).endswith("::at")
        # a one-shot timer has to carry an absolute deadline that only a cleanup run moves: a relative
        # `after(d)` armed anew on every turn of the loop is pushed back by every other event, and a busy
        # cache never sweeps
        ok = deadline and is_period(x, x.call_args(t)[0], deadline) and x.in_loop(bi)
        if ok:
            dv = norm(x.call_args(t)[0])
            hc = calls_to(x, fl.processor + "::handle_cleanup_event")
            if dv[0] == "var" and hc:
                l = x.name_local.get(dv[1])
                inloop = [d for d in x.defs.get(l, []) if x.in_loop(d[0])] if l is not None else []
                ok = all(block_dominates(x, hc[0][0], d[0]) or d[0] == hc[0][0] for d in inloop)
    rep.check(ok, "R05.7", fl, sp, "ticker period", "the cleanup timer is built from self.cleanup_duration (periodic, or one-shot and re-armed in the loop)", "the cleanup timer's period is not the configured cleanup_duration")
    new = fl.code(fl.processor + "::new")
    f = None
    for bi, si, st, e in agg_nodes(new, "CacheProcessor"):
        f = agg_fields(e)
    # (the parameter is found by its type - the one Duration argument - so that a renamed parameter is the same rule)
    durs = [V(new.local_name[i_]) for i_ in range(1, new.arg_count + 1) if i_ in new.local_name and new.locals[i_]["ty"].endswith("time::Duration")]
    rep.check(f is not None and len(durs) == 1 and f.get("cleanup_duration") == durs[0], "R05.7", fl, new, "cleanup_duration field", "CacheProcessor::new stores its cleanup_duration argument", "CacheProcessor::new drops cleanup_duration")


# ----------------------------------------------------------------------------------------
# C09 cache level
# ----------------------------------------------------------------------------------------

def check_only_update(rep, fl):
    facts = fl.facts
    tu = fl.cache_fn("try_update")
    at, entry = dataflow(tu)
    ou = V("only_update")
    su = calls_to(tu, SM + "::try_update")
    if len(su) != 1:
        rep.missing("R09.1", fl, "Cache::try_update: store.try_update call")
        return
    # returns
    n_none = 0
    for rbi, rsi in tu.defs.get(0, []):
        e = norm(tu.def_expr(rbi, rsi, True))
        if not (e[0] == "agg" and e[2].endswith("Result::Ok")):
            continue
        inner = e[3][0]
        sts = [expand_state(tu, s) for s in at.get((rbi, rsi), set())]
        variants = set()
        for s in sts:
            for a, v in s.lits:
                if a[0] == "variant" and v and a[2] in ("NotExist", "Reject", "Conflict", "Update"):
                    variants.add(a[2])
        if inner[0] == "agg" and inner[2].endswith("Option::None"):
            n_none += 1
            # (a closed cache queues nothing either, wherever the insert tests the flag)
            import props_life as _pl
            closed = lambda s_: [v_ for a_, v_ in s_.lits if _pl.is_closed_lit(a_)] == [True]
            if sts and all(closed(s_) for s_ in sts):
                n_none -= 1
                continue
            ok = all(feval(A(ou), s) is True or closed(s) for s in sts) and "Update" not in variants
            rep.check(ok, "R09.1", fl, tu, "Ok(None)", "nothing is queued exactly when only_update is set and the store did not update",
                      "Ok(None) returned on a path where only_update is not set (or after an update)")
        elif inner[0] == "agg" and inner[2].endswith("Option::Some"):
            tup = inner[3][0]
            itm = tup[3][1] if tup[0] == "agg" and len(tup[3]) == 2 else None
            if itm is not None and is_call(itm, "Item::new"):
                ok = all(feval(A(ou), s) is False for s in sts) and "Update" not in variants
                rep.check(ok, "R09.1", fl, tu, "New item", "a New item is built only when only_update is false and the key was not updated in place",
                          "a New item can be queued although only_update is set: insert_if_present would create an entry")
            elif itm is not None and is_call(itm, "Item::update"):
                ok = all(any(a[0] == "variant" and a[2] == "Update" and v for a, v in s.lits) for s in sts)
                rep.check(ok, "R09.1", fl, tu, "Update item", "an Update item is queued only after the store swapped the value", "an Update item is queued without an in-place update")
    rep.check(n_none >= 1, "R09.1", fl, tu, "has Ok(None)", "the only_update / not-updated case yields Ok(None)", "try_update never returns Ok(None): insert_if_present always queues an item")
    # try_insert_in maps None -> Ok(false) without sending
    ti = fl.cache_fn("try_insert_in")
    bodies = descendants(facts, ti)
    sends = [(x, c) for x in bodies for c in send_sites(x)]
    # sync: try_update(..)?.map_or(Ok(false), closure) ; async: if let Some(..) = try_update(..)? {..} else {Ok(false)}
    okn = False
    mo = calls_to(ti, "Option::map_or")
    if mo:
        a = [norm(x) for x in ti.call_args(mo[0][1])]
        okn = a[1][0] == "agg" and a[1][2].endswith("Result::Ok") and a[1][3][0] == ("const", 0, "bool")
    else:
        at2, _ = dataflow(ti)
        for rbi, rsi in ti.defs.get(0, []):
            e = norm(ti.def_expr(rbi, rsi, True))
            sts = [expand_state(ti, s) for s in at2.get((rbi, rsi), set())]
            if sts and all(any(a[0] == "variant" and a[2] == "None" and v and any(is_call(c, fl.cache + "::try_update") for c in calls_in(a[1])) for a, v in s.lits) for s in sts):
                okn = e[0] == "agg" and e[2].endswith("Result::Ok") and e[3][0] == ("const", 0, "bool")
                # and no send on that path: the block is not reachable from any send
    rep.check(okn, "R09.1", fl, ti, "None => Ok(false)", "try_insert_in returns Ok(false) when try_update produced no item", "try_insert_in does not map `no item` to Ok(false)")
    rep.check(len(sends) >= 1, "R10.1", fl, ti, "send site", "try_insert_in has a send site for the item", "try_insert_in never sends the item")


# ----------------------------------------------------------------------------------------
# C04 inventory
# ----------------------------------------------------------------------------------------

def check_removal_inventory(rep, fl):
    """R04.1: closed list of sites that remove / overwrite store entries or release charges."""
    facts = fl.facts
    shard_sites = {}
    for b in facts.bodies:
        for bi, t, m in map_calls(b, SHARD_TY, "remove", "clear", "insert", "retain", "drain", "remove_entry", "extract_if", "entry"):
            shard_sites.setdefault(strip_generics(b.raw["root"]), set()).add(m)
    allowed = {SM + "::try_remove": {"remove"}, SM + "::clear": {"clear"}, SM + "::try_insert": {"insert"}}
    for root, ms in sorted(shard_sites.items()):
        ok = root in allowed and ms <= allowed[root]
        rep.check(ok, "R04.1", fl, root, "shard." + ",".join(sorted(ms)), "known shard mutation site", "unexpected mutation of store entries (%s) in %s" % (",".join(sorted(ms)), root))
    if len(shard_sites) < 3:
        rep.missing("R04.1", fl, "fewer than 3 shard mutation sites found: %s" % sorted(shard_sites))
    # callers of ShardedMap::try_remove / clear and of policy remove / clear
    expect = {
        SM + "::try_remove": {fl.cache + "::try_remove", fl.processor + "::handle_item", fl.cleanup},
        # the in-place write belongs to the caller's insert (applied at once, in program order); the processor only ever
        # inserts what the policy has just admitted - a queued item is never written over a resident entry later
        SM + "::try_update": {fl.cache + "::try_update"},
        SM + "::try_insert": {fl.processor + "::handle_item"},
        SM + "::clear": {fl.processor + "::handle_clear_event"},
        fl.policy + "::remove": {fl.processor + "::handle_item", fl.cleanup},
        fl.policy + "::clear": {fl.processor + "::handle_clear_event"},
        "policy::SampledLFU::remove": {fl.policy + "::add", fl.policy + "::remove"},
        "policy::SampledLFU::clear": {fl.policy + "::clear"},
    }
    for callee, allowed_callers in sorted(expect.items()):
        callers = set()
        for b in facts.bodies:
            if calls_to(b, callee):
                r = strip_generics(b.raw["root"])
                # only callers of this flavour / shared code
                callers.add(r)
        other_fl = "r#async" if fl.name == "sync" else "::sync::"
        callers = {c for c in callers if other_fl not in c and not (fl.name == "sync" and c.endswith("try_cleanup_async")) and not (fl.name == "async" and c.endswith("::try_cleanup"))}
        extra = callers - allowed_callers
        missing = allowed_callers - callers
        rep.check(not extra and not missing, "R04.1", fl, callee, "callers", "removal/un-charge entry point called only from %s" % sorted(short(c) for c in allowed_callers),
                  "callers of %s are %s (unexpected: %s, missing: %s): an entry can be removed / un-charged outside the audited removal paths" % (short(callee), sorted(callers), sorted(extra), sorted(missing)))


def check_C03(rep, fl):
    check_lookup_guards(rep, fl)
    # "re-inserting a resident key replaces its deadline": only the caller's own insert writes a resident entry
    keep_sites(rep, fl, check_removal_inventory, ("*ShardedMap::try_update|callers", "*ShardedMap::try_insert|callers"))
    check_expiration_getter(rep, fl)
    check_get_ttl(rep, fl)
    check_time(rep, fl)
    check_ttl_plumbing(rep, fl)
    check_store_writes(rep, fl)
    check_sweeper(rep, fl)
    # "an entry with no TTL (or a later one) does not disappear because of time": the only judge of a lapsed deadline
    # that removes anything is the sweeper (above) - a Delete is queued by the caller's remove only, never by a lookup
    # that met a lapsed entry (by the time the processor applies it the key may have been given a new deadline)
    import props_life
    keep_sites(rep, fl, props_life.check_fifo, ("senders of insert_buf_tx",), rule="R03.7")


def check_C05(rep, fl):
    # "reclaimed .. through on_evict": a lapsed entry leaves the store through the sweeper (and a remove / clear /
    # eviction that happens to hit it), not through a lookup that drops it on the way - the sweep would not find it,
    # its value reach no callback and its cost stay charged
    keep_sites(rep, fl, check_removal_inventory, ("shard.*",))
    check_buckets(rep, fl)
    check_em_insert(rep, fl)
    check_em_update(rep, fl)
    check_em_remove(rep, fl)
    check_em_cleanup(rep, fl)
    check_sweeper(rep, fl)
    check_tick(rep, fl)
    check_store_writes(rep, fl)
    check_time(rep, fl)   # "whose TTL has elapsed": the sweeper's verdict is Time::is_expired on the stored deadline
    import props_cache
    props_cache.check_policy_cost(rep, fl)   # "handed to on_evict .. with its .. charged cost"
    check_single_section(rep, fl, "R05.2", [EM + "::try_insert", EM + "::try_update", EM + "::try_remove", EM + "::try_cleanup"],
                         "looking a bucket up and creating, filling or removing it")
    # "within a bounded delay": the sweep is never stuck behind a lock cycle between the expiry index and the shards
    import props_locks
    props_locks.check_lock_order(rep, fl, rule="R05.7")
    # "within .. one cleanup interval": the configured interval is the one the processor ticks with
    import props_panic
    props_panic.check_builder_plumbing(rep, fl, only_sites=("set_cleanup_duration", "set_* keeps cleanup_duration", "flags -> processor"))


LOCK_CALLS = ("Mutex::lock", "RwLock::read", "RwLock::write", "RwLock::upgradable_read", "Mutex::try_lock", "RwLock::try_read", "RwLock::try_write",
              "Mutex::try_lock_for", "RwLock::try_write_for", "RwLock::try_read_for")


def lock_acquisitions(body):
    return [(bi, t) for bi, t in body.calls() if any(callee_matches(body.callee_of(t), c) for c in LOCK_CALLS) and str((t.get("sp") or {}).get("f", "")).startswith("src/")]


def check_single_section(rep, fl, rule, fns, what):
    """Each listed function takes its lock once: a look-up and the insertion / reset that acts on it are one
    critical section.  Two acquisitions (release in between, re-lock, act on the earlier answer) let another
    thread change what was looked up - a bucket created meanwhile is overwritten, lookups appended meanwhile are
    wiped."""
    facts = fl.facts
    for path in fns:
        b = fl.code(path, required=False)
        if b is None:
            rep.missing(rule, fl, path)
            continue
        fb = facts.flat(b)
        n = len(lock_acquisitions(fb))
        rep.check(n == 1, rule, fl, b, "one critical section", "%s takes its lock once: %s happen in one critical section" % (short(path), what),
                  "%s acquires its lock %d times: %s are no longer one critical section, another thread can get in between" % (short(path), n, what))


def check_C09(rep, fl):
    check_only_update(rep, fl)
    # an entry that a conditional write has just rewritten without TTL stays: the sweep re-checks the stored deadline
    check_sweeper(rep, fl)
    # "on a resident key it behaves as an update of value and cost": the queued Update always re-charges
    import props_cache
    props_cache.check_arms_reach_policy(rep, fl)
    props_cache.check_insert_offered(rep, fl)
    # ... and the policy's update wrapper hands it on unconditionally (whatever the cost)
    import props_policy
    props_policy.check_policy_forwarding(rep, fl)
    # a vetoed plain insert is forwarded as a New item of a tracked key: add() un-charges sampled victims only, and
    # only for lack of room - never the key it was called for - so the resident entry is not evicted by its own rewrite
    keep_rules(rep, fl, props_policy.check_C07, {"R07.2", "R07.6"})
    # "as an update of value and cost": re-costing a charged key moves the charged total by exactly the difference
    props_policy.check_balance(rep, fl, props_policy.slfu_writers(fl.facts))
    check_store_writes(rep, fl)
    check_ttl_plumbing(rep, fl)
