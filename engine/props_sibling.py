"""C19: AsyncCache behaves like Cache.
R19.1: every flavoured rule of the other properties is instantiated on the async flavour (the
       registry runs every check on both flavours; this file re-runs them and counts).
R19.2: effect-skeleton diff of sibling functions: the set of (effects executed on a path, return
       class) must be equal modulo .await and type renaming, except for a frozen table of accepted
       differences."""
import re
from cachelib import *
from props_cache import count_paths, metric_tick

NEUTRAL = [
    ("cache::r#async::", "cache::"), ("cache::sync::", "cache::"),
    ("policy::r#async::", "policy::"), ("policy::sync::", "policy::"),
    ("AsyncCacheBuilder", "CacheBuilder"), ("AsyncCache", "Cache"), ("AsyncLFUPolicy", "LFUPolicy"), ("AsyncRingStripe", "RingStripe"),
    ("store::ShardedMap::try_cleanup_async", "store::ShardedMap::try_cleanup"),
    ("wg::AsyncWaitGroup", "WaitGroup"), ("wg::WaitGroup", "WaitGroup"), ("AsyncWaitGroup", "WaitGroup"),
    ("axync::", "chan::"), ("sync::stop_channel", "chan::stop_channel"),
]


def neutral(name):
    for a, b in NEUTRAL:
        name = name.replace(a, b)
    return name


# crate functions without effects (read a field / a discriminant): how often they are evaluated is not behaviour
PURE_ACCESSORS = {"is_update", "is_zero", "is_op", "item_size"}


_PURE = {}


def _is_pure(facts, spath):
    """A crate function that calls nothing and writes through no pointer (a constructor, an accessor):
    calling it is not an effect."""
    key = (id(facts), spath)
    if key not in _PURE:
        c = facts.by_spath.get(spath, [])
        ok = len(c) == 1 and not c[0].is_closure
        if ok:
            b = c[0]
            ok = not any(True for _ in b.calls())
            for bi in b.live_blocks() if ok else []:
                for st in b.blocks[bi]["stmts"]:
                    if st["k"] == "assign" and "*" in st["pl"]["p"]:
                        ok = False
        _PURE[key] = ok
    return _PURE[key]


def effect_label(fl, body, t):
    """Flavour-neutral label of an effectful call, or None."""
    c = body.callee_of(t)
    if not c:
        return None
    mt = metric_tick(body, t)
    if mt:
        return "metrics.add(%s)" % mt[0]
    for n in SEND_NAMES:
        if callee_matches(c, n):
            ss = [x for x in send_sites(body) if x[1] is t]
            ch = ss[0][2] if ss else None
            fld = ch[2] if ch and ch[0] == "field" else "?"
            return "send(%s)" % fld
    for n in RECV_NAMES:
        if callee_matches(c, n):
            rs = [x for x in recv_sites(body) if x[1] is t]
            ch = rs[0][2] if rs else None
            fld = ch[2] if ch and ch[0] == "field" else "?"
            return "recv(%s)" % fld
    if callee_matches(c, "Atomic::store"):
        a = norm(body.call_args(t)[0])
        return "store(%s)" % (a[2] if a[0] == "field" else "?")
    if callee_matches(c, "Atomic::load"):
        a = norm(body.call_args(t)[0])
        return "load(%s)" % (a[2] if a[0] == "field" else "?")
    for n in ("CacheCallback::on_exit", "CacheCallback::on_evict", "CacheCallback::on_reject", "Coster::cost", "KeyBuilder::build_key", "UpdateValidator::should_update",
              "WaitGroup::wait", "AsyncWaitGroup::wait", "WaitGroup::done", "AsyncWaitGroup::done", "WaitSignal::done", "Receiver::close", "Vec::push", "Vec::clear"):
        if callee_matches(c, n):
            return neutral(n.replace("AsyncWaitGroup", "WaitGroup"))
    # `mem::take(&mut *buf)` / `mem::replace(&mut *buf, Vec::with_capacity(..))` empties a Vec like clear() does
    if (callee_matches(c, "mem::take") or callee_matches(c, "mem::replace")) and "Vec<" in (t.get("destty") or ""):
        return neutral("Vec::clear")
    if t.get("rlocal") or t.get("local"):
        if body.facts.by_path.get(t.get("resolved") or t.get("callee")) and not (t.get("resolved") or "").endswith("::unbind"):
            sc = strip_generics(t.get("resolved") or t.get("callee"))
            # polling a crate coroutine = calling the async fn (await loops re-poll: counted once)
            if sc.endswith("::{closure#0}"):
                sc = sc[: -len("::{closure#0}")]
                if "::{closure" in sc:
                    return None
                return "call* " + neutral(sc)
            if "::{closure" in sc:
                return None
            if sc.split("::")[-1] in PURE_ACCESSORS or _is_pure(body.facts, sc):
                return None
            return "call " + neutral(sc)
    return None


def ret_leaves(body, max_depth=6):
    """Expressions that can reach the return place: definitions of _0, followed through locals that
    merely carry the value (several definitions on different paths, e.g. the result slot of a
    desugared combinator)."""
    out = []
    seen = set()

    def walk(l, depth):
        for bi, si in body.defs.get(l, []):
            if (bi, si) in seen:
                continue
            seen.add((bi, si))
            bb = body.blocks[bi]
            if si < len(bb["stmts"]):
                st = bb["stmts"][si]
                rv = st["rv"]
                if rv["k"] == "use" and rv["op"].get("k") in ("move", "copy") and not rv["op"]["pl"]["p"] and depth < max_depth:
                    l2 = rv["op"]["pl"]["l"]
                    # a local that merely carries the value, named (`let ttl = ..; drop(entry); ttl`) or not
                    if not (1 <= l2 <= body.arg_count) and body.defs.get(l2) and not body.partial_defs.get(l2):
                        walk(l2, depth + 1)
                        continue
                # the payload of an enum local that every definition builds as that variant around a plain local:
                # `(r as Ready).0` with `r = Poll::Ready(move x)` on each path (a spliced await) carries x
                if rv["k"] == "use" and rv["op"].get("k") in ("move", "copy") and depth < max_depth:
                    pp = rv["op"]["pl"]["p"]
                    l2 = rv["op"]["pl"]["l"]
                    if len(pp) == 2 and isinstance(pp[0], str) and pp[0].startswith("as ") and isinstance(pp[1], str) and pp[1].startswith(".0:") \
                            and l2 not in body.local_name and body.defs.get(l2):
                        inner = []
                        for b2, s2 in body.defs[l2]:
                            blk = body.blocks[b2]
                            st2 = blk["stmts"][s2] if s2 < len(blk["stmts"]) else None
                            rv2 = st2["rv"] if st2 is not None and st2["k"] == "assign" else None
                            if rv2 and rv2["k"] == "agg" and rv2.get("variant") == pp[0][3:] and len(rv2["fields"]) == 1 and rv2["fields"][0].get("k") in ("move", "copy") \
                                    and not rv2["fields"][0]["pl"]["p"]:
                                inner.append(rv2["fields"][0]["pl"]["l"])
                            else:
                                inner = None
                                break
                        if inner:
                            for l3 in inner:
                                walk(l3, depth + 1)
                            continue
            e_ = norm(body.def_expr(bi, si, True))
            if e_[0] == "tmp" and isinstance(e_[1], int) and body.defs.get(e_[1]) and depth < max_depth:
                # the value reduces to another local that several paths define (the result of a spliced await)
                walk(e_[1], depth + 1)
                continue
            out.append(e_)
    walk(0, 0)
    return out


def ret_class(body, rbi, rsi, e=None):
    e = norm(body.def_expr(rbi, rsi, True)) if e is None else e
    if e[0] == "agg" and e[1] == "adt":
        name = e[2].split("::")[-1]
        if name in ("Some", "None"):
            return "value"  # `match x { Some(v) => Some(v), None => None }` and `x` are the same return
        if name == "Err":
            return "Err"  # which error value, and whether it is built here or forwarded by `?`, depends on the spelling
        if e[3] and e[3][0][0] == "const":
            return "%s(%s)" % (name, e[3][0][1])
        if e[3] and e[3][0][0] == "agg" and e[3][0][1] == "adt":
            return "%s(%s)" % (name, neutral(e[3][0][2].split("::")[-1]))
        if e[3] and e[3][0][0] == "agg" and e[3][0][1] == "tuple" and not e[3][0][3]:
            return "%s(())" % name
        return name
    if e[0] == "const":
        return "const %s" % e[1]
    if is_call(e, "FromResidual::from_residual"):
        # `x?` in a function that returns an Option hands back None: the same return as `match x { None => None, .. }`
        rty = str(body.locals[0].get("ty", "")) if body.locals else ""
        if re.match(r"(std::|core::)?(option::)?Option<", rty):
            return "value"
        return "Err"
    return "value"


def skeleton(fl, body, with_nested=True):
    """Set of (sorted effect multiset, return class) over all path-sensitive return states of body.
    Effects of closures created in the body (and not belonging to dependency macros) are added as
    a flat `in-closure` set because combinators decide when they run."""
    facts = fl.facts
    # flattened: a closure given to map / map_err / and_then / for_each ... is control flow of the
    # body itself, so `x.map_err(..).and_then(|i| f(i))`, `match x {..}` and `let i = x.map_err(..)?; f(i)`
    # have the same skeleton
    body = facts.flat(body)

    def lab(bi, t):
        return effect_label(fl, body, t)
    outs, at = count_paths(body, lab, max_states=20000)
    sig = set()
    for s, cnt in outs:
        sig.add(tuple(sorted(cnt.items())))
    closure_effects = set()
    inlined = set(body.raw.get("inlined_closures", []))
    if with_nested:
        for x in descendants(facts, body):
            if x is body or not user_code(x) or x.path in inlined:
                continue
            for bi, t in x.calls():
                l = effect_label(fl, x, t)
                if l:
                    closure_effects.add(l.replace("call* ", "call "))
    rets = set()
    for e in ret_leaves(body):
        e = norm(e)
        # `Ok(flag)` with a boolean variable may be either constant: it covers `Ok(true)` and `Ok(false)`
        if e[0] == "agg" and e[1] == "adt" and len(e[3]) == 1 and e[3][0][0] in ("var", "tmp"):
            l_ = body.name_local.get(e[3][0][1]) if e[3][0][0] == "var" else e[3][0][1]
            if isinstance(l_, int) and l_ < len(body.locals) and body.locals[l_]["ty"] == "bool":
                for c_ in (0, 1):
                    rets.add(ret_class(body, None, None, ("agg", e[1], e[2], (("const", c_, "bool"),), e[4])))
                continue
        rets.add(ret_class(body, None, None, e))
    return sig, closure_effects, rets


PAIRS = [
    # (sync spath suffix, async spath suffix) relative to flavour objects; None => same name
    ("cache", "get"), ("cache", "get_mut"), ("cache", "get_ttl"), ("cache", "try_update"), ("cache", "try_insert_in"), ("cache", "try_remove"), ("cache", "wait"),
    ("cache", "clear"), ("cache", "close"), ("cache", "max_cost"), ("cache", "update_max_cost"), ("cache", "len"),
    ("processor", "handle_item"), ("processor", "handle_insert_event"), ("processor", "handle_clear_event"), ("processor", "handle_cleanup_event"),  # track_admission: always inlined into handle_item
    ("processor", "prepare_evict"), ("processor", "calculate_internal_cost"), ("processor", "new"),
    ("cleaner", "handle_item"), ("cleaner", "clean"),
    ("policy", "add"), ("policy", "push"), ("policy", "close"), ("policy", "remove"), ("policy", "update"), ("policy", "cost"), ("policy", "clear"), ("policy", "max_cost"), ("policy", "update_max_cost"),
    ("pproc", "handle_items"),
    ("ring", "push"),
    ("builder", "finalize"),
    ("store", "sweeper"),
]

# accepted differences: (pair name, kind, element) -> reason.  kind in effects-sync-only / effects-async-only / ret-sync-only / ret-async-only
ACCEPTED = {
    ("cache::try_insert_in", "path", "async"): "sync sends from the closure given to Option::map_or, async inline after `if let Some(..)`: same effects (union checked), different nesting",
    ("cache::try_insert_in", "closure", "sync"): "see path",
    ("cache::try_insert_in", "path", "sync"): "crossbeam's select! default arm never touches the channel, the async select! polls the send future before it falls to `default`: the buffer-full path "
                                              "shows a (never completed) send on the async side only; both end in DropSets with the item not queued (same as policy::push)",
    ("cache::try_insert_in", "ret", "async"): "Ok(true) is produced inside the sync closure",
    ("cache::wait", "ret", "sync"): "sync propagates the send error with `?` (F8 fix), async matches on it: both return CacheError::SendError",
    ("cache::wait", "ret", "async"): "see sync",
    ("policy::push", "path", "sync"): "async builds the send future before select!, so its default arm's path shows the (dropped, never completed) send; sync's select! default does not touch the channel",
    ("policy::push", "path", "async"): "see sync",
    ("ring::push", "path", "sync"): "sync empties the batch after the flush (replace on Ok(true), clear otherwise), async copies and clears before the flush: both leave the buffer empty",
    ("ring::push", "path", "async"): "see sync",
    ("cache::wait", "path", "sync"): "crossbeam channels cannot be closed by the receiver, so the sync wait() re-reads is_closed after the enqueue (F8 fix); async closes the channel instead",
    ("cache::wait", "path", "async"): "see sync",
    ("cache::clear", "path", "sync"): "crossbeam channels cannot be closed by the receiver, so the sync clear() re-reads is_closed after the enqueue (as wait() does); async closes and drains the channel instead (R11.4 checks each side)",
    ("cache::clear", "path", "async"): "see sync",
    ("cache::close", "path", "sync"): "sync sets is_closed before stopping the processor (F8 fix), async after; R12.2 only demands must-pass-through",
    ("cache::close", "path", "async"): "see sync",
    ("cache::try_remove", "path", "sync"): "same effects; the Delete send is awaited in async and a blocking send in sync, both ignore its error",
    ("cache::try_remove", "path", "async"): "see sync",
    ("cleaner::clean", "path", "sync"): "sync returns the receive error of a disconnected buffer, async returns Ok: only reachable when every cache handle is gone",
    ("cleaner::clean", "path", "async"): "see sync",
    ("cleaner::clean", "ret", "sync"): "see path",
    ("cleaner::clean", "ret", "async"): "see path",
    ("processor::handle_cleanup_event", "path", "sync"): "sync takes the ticker message as a Result argument and maps its error; async has no message",
    ("processor::handle_cleanup_event", "path", "async"): "see sync",
    ("processor::handle_cleanup_event", "ret", "sync"): "see path",
    ("processor::handle_cleanup_event", "ret", "async"): "see path",
    ("store::sweeper", "path", "sync"): "sync sweeper is a filter_map chain using .ok(), async a for loop using `?` on infallible callees (R06.5)",
    ("store::sweeper", "path", "async"): "see sync",
    ("store::sweeper", "ret", "sync"): "see path",
    ("store::sweeper", "ret", "async"): "see path",
}


def pair_bodies(fl_s, fl_a, kind, name):
    def get(fl):
        base = {"cache": fl.cache, "processor": fl.processor, "cleaner": fl.cleaner, "policy": fl.policy, "pproc": fl.pproc, "ring": fl.ring, "builder": fl.builder}.get(kind)
        if kind == "store":
            return fl.code(fl.cleanup)
        return fl.code(base + "::" + name)
    return get(fl_s), get(fl_a)


def check_sibling_diff(rep, fl_s, fl_a, rule="R19.2"):
    n = 0
    for kind, name in PAIRS:
        pname = "%s::%s" % (kind, name)
        try:
            bs, ba = pair_bodies(fl_s, fl_a, kind, name)
        except AnchorMissing as e:
            rep.missing(rule, fl_a, "sibling pair %s: %s" % (pname, e))
            continue
        try:
            ss, cs, rs = skeleton(fl_s, bs)
            sa, ca, ra = skeleton(fl_a, ba)
        except TooManyStates as e:
            rep.note("R19.2: pair %s not compared (%s)" % (pname, e))
            continue
        n += 1
        diffs = []
        if ss != sa:
            only_s = ss - sa
            only_a = sa - ss
            if only_s and (pname, "path", "sync") not in ACCEPTED:
                diffs.append("paths only in sync: %s" % [dict(x) for x in sorted(only_s)][:3])
            if only_a and (pname, "path", "async") not in ACCEPTED:
                diffs.append("paths only in async: %s" % [dict(x) for x in sorted(only_a)][:3])
        if cs != ca:
            ds, da = cs - ca, ca - cs
            if ds and (pname, "closure", "sync") not in ACCEPTED and (pname, "path", "sync") not in ACCEPTED:
                diffs.append("closure effects only in sync: %s" % sorted(ds))
            if da and (pname, "closure", "async") not in ACCEPTED and (pname, "path", "async") not in ACCEPTED:
                diffs.append("closure effects only in async: %s" % sorted(da))
        if rs != ra:
            ds, da = rs - ra, ra - rs
            if ds and (pname, "ret", "sync") not in ACCEPTED:
                diffs.append("return classes only in sync: %s" % sorted(ds))
            if da and (pname, "ret", "async") not in ACCEPTED:
                diffs.append("return classes only in async: %s" % sorted(da))
        # union of all effects must agree even for pairs with accepted path differences
        alls = {k for x in ss for k, _ in x} | cs
        alla = {k for x in sa for k, _ in x} | ca
        if alls != alla and (pname, "effects", "any") not in ACCEPTED_EFFECTS:
            d1, d2 = alls - alla, alla - alls
            d1 = {x for x in d1 if (pname, x) not in ACCEPTED_EFFECTS}
            d2 = {x for x in d2 if (pname, x) not in ACCEPTED_EFFECTS}
            if d1 or d2:
                diffs.append("effect sets differ: sync-only %s, async-only %s" % (sorted(d1), sorted(d2)))
        rep.check(not diffs, rule, fl_a, ba, "sibling " + pname, "sync and async %s have the same effect skeleton (%d/%d path signatures, %d/%d closure effects)%s" % (
            pname, len(ss), len(sa), len(cs), len(ca), " [accepted differences: see table]" if any(k[0] == pname for k in ACCEPTED) else ""),
                  "the async %s differs from its sync sibling: %s" % (pname, "; ".join(diffs)))
    if n < 25:
        rep.missing(rule, fl_a, "only %d sibling pairs compared" % n)


# single effects accepted to exist on one side only: (pair, effect label) -> reason
ACCEPTED_EFFECTS = {
    ("cache::wait", "load(is_closed)"): "present on both sides; counts differ (sync re-check)",
    ("cache::clear", "load(is_closed)"): "present on both sides; counts differ (sync re-check)",
    ("store::sweeper", "Vec::push"): "async collects swept items with push in a for loop, sync with filter_map/collect",
}


def check_C19(rep, fl, fls_by_name=None):
    """Called once per flavour by the framework; the diff needs both flavours, so it runs when the
    async flavour of a configuration arrives (the sync flavour of the same tier was loaded before)."""
    import registry
    # R19.1: instantiate every other property's rules on this (async) flavour
    if fl.name != "async":
        _SYNC[fl.facts.config if fl.facts.config != "default" else "quick"] = fl
        return
    from framework import Report
    n_rules = 0
    for pid, meta in sorted(registry.PROPS.items()):
        if pid == "C19":
            continue
        tmp = Report(pid, rep.tier)
        try:
            meta["fn"](tmp, fl)
        except AnchorMissing as e:
            rep.missing("R19.1", fl, "%s on the async flavour: %s" % (pid, e))
            continue
        for i in tmp.instances:
            i.rule = "R19.1/%s/%s" % (pid, i.rule)
            rep.instances.append(i)
            n_rules += 1
    rep.note("R19.1: %d rule instances of the other properties evaluated on %s" % (n_rules, fl.cfg))
    key = "quick" if fl.facts.config == "async" else fl.facts.config
    fl_s = _SYNC.get(key) or _SYNC.get("quick")
    if fl_s is None:
        rep.missing("R19.2", fl, "sync flavour not loaded before the async flavour")
        return
    check_sibling_diff(rep, fl_s, fl)


_SYNC = {}
