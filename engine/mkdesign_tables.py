"""Regenerates the mutant and seeded-change tables of DESIGN.md between their markers."""
import glob
import json
import os
import re

VERIF = os.path.dirname(os.path.dirname(os.path.abspath(__file__)))


def mutants_table():
    rows = []
    nb = ng = 0
    for p in sorted(glob.glob(os.path.join(VERIF, "mutants", "*.json"))):
        for m in json.load(open(p)):
            if m["kind"] == "breaking":
                nb += 1
                rows.append("| `%s` | %s | %s |" % (m["name"], os.path.basename(p)[:-5], ", ".join("%s/%s" % (e["prop"], e["rule"]) for e in m["expect"])))
            else:
                ng += 1
                rows.append("| `%s` | %s | benign: %s must stay silent |" % (m["name"], os.path.basename(p)[:-5], ", ".join(m["props"])))
    head = ("%d breaking mutants (each still compiles; the named rule must fire) and %d benign edits (the named checks must stay silent). "
            "All are caught / silent on today's tree (last full run recorded in the commit that touched this table).\n\n"
            "| mutant | file | must fire |\n|---|---|---|\n" % (nb, ng))
    return head + "\n".join(rows) + "\n"


def seeded_table():
    rows = []
    base = os.path.join(VERIF, "seeded")
    n = c = own = 0
    for name in sorted(os.listdir(base)) if os.path.isdir(base) else []:
        mp = os.path.join(base, name, "meta.json")
        if not os.path.exists(mp):
            continue
        m = json.load(open(mp))
        fired = m.get("checks_fired", {})
        n += 1
        c += 1 if fired else 0
        own += 1 if m.get("property") in fired else 0
        fr = "; ".join("%s: %s" % (k, ",".join(sorted(set(r.split("/")[-1] for r in v))[:3])) for k, v in sorted(fired.items()) if k != "C19") or "**missed**"
        if "C19" in fired and len(fired) > 1:
            fr += "; C19 (async instance)"
        elif "C19" in fired:
            fr = "C19: " + ",".join(sorted(set(fired["C19"]))[:3])
        note = m.get("note", "")
        rows.append("| `%s` | %s | %s | %s | %s%s |" % (name, m.get("property"), (m.get("summary") or "").replace("|", "/")[:230], (m.get("needs") or "").replace("|", "/")[:160], fr, (" - " + note) if note else ""))
    head = "%d seeded changes; %d caught by at least one check, %d by the check of the property they were written against.\n\n| change | written against | what it does | needs | checks that fire (quick tier) |\n|---|---|---|---|---|\n" % (n, c, own)
    return head + "\n".join(rows) + "\n"


def rules_table():
    """rule id -> functions of engine/props_*.py whose text names it (as a string literal)."""
    import ast
    m = {}
    for p in sorted(glob.glob(os.path.join(VERIF, "engine", "props_*.py"))):
        src = open(p).read()
        tree = ast.parse(src)
        for node in tree.body:
            if isinstance(node, ast.FunctionDef):
                seg = ast.get_source_segment(src, node) or ""
                for r in set(re.findall(r'"(R\d\d\.\d+)', seg)):
                    m.setdefault(r, set()).add("`%s:%s`" % (os.path.basename(p), node.name))
    rows = ["| %s | %s |" % (r, ", ".join(sorted(fs))) for r, fs in sorted(m.items())]
    return "| rule | implemented in |\n|---|---|\n" + "\n".join(rows) + "\n"


def benign_table():
    base = os.path.join(VERIF, "benign")
    n = len([f for f in os.listdir(base) if f.endswith(".diff")]) if os.path.isdir(base) else 0
    kinds = {}
    rd = os.path.join(base, "README.txt")
    lines = [l.strip() for l in open(rd)] if os.path.exists(rd) else []
    rows = []
    for l in lines:
        mm = re.match(r"^(B\d\d-r\d)\.diff:\s*(.*)$", l)
        if mm:
            rows.append("| `%s` | %s |" % (mm.group(1), mm.group(2).replace("|", "/")[:260]))
    return "%d refactorings.\n\n| refactoring | what it does (author's words) |\n|---|---|\n" % n + "\n".join(rows) + "\n"


def main():
    p = os.path.join(VERIF, "DESIGN.md")
    s = open(p).read()
    s = re.sub(r"<!-- RULES-TABLE-BEGIN -->.*?<!-- RULES-TABLE-END -->", lambda m: "<!-- RULES-TABLE-BEGIN -->\n" + rules_table() + "<!-- RULES-TABLE-END -->", s, flags=re.S)
    s = re.sub(r"<!-- BENIGN-TABLE-BEGIN -->.*?<!-- BENIGN-TABLE-END -->", lambda m: "<!-- BENIGN-TABLE-BEGIN -->\n" + benign_table() + "<!-- BENIGN-TABLE-END -->", s, flags=re.S)
    s = re.sub(r"<!-- MUTANTS-TABLE-BEGIN -->.*?<!-- MUTANTS-TABLE-END -->", lambda m: "<!-- MUTANTS-TABLE-BEGIN -->\n" + mutants_table() + "<!-- MUTANTS-TABLE-END -->", s, flags=re.S)
    s = re.sub(r"<!-- SEEDED-TABLE-BEGIN -->.*?<!-- SEEDED-TABLE-END -->", lambda m: "<!-- SEEDED-TABLE-BEGIN -->\n" + seeded_table() + "<!-- SEEDED-TABLE-END -->", s, flags=re.S)
    open(p, "w").write(s)


if __name__ == "__main__":
    main()
