"""Cache-level rules: C16 (cost plumbing), C17 (metrics), C15 (lookup -> estimator chain)."""
from cachelib import *
import props_store


def switch_discr_place(body, bi):
    import props_values
    return props_values.switch_discr_place(body, bi)

MET = "metrics::Metrics"
SLFU = "policy::SampledLFU"


def metric_tick(body, t):
    """(metric type name, key expr, delta expr) if call terminator t is Metrics::add."""
    if not callee_matches(body.callee_of(t), MET + "::add"):
        return None
    a = [norm(x) for x in body.call_args(t)]
    # a metric kind held in a variable (`let outcome = if hit { Hit } else { Miss }`) is resolved per
    # path by count_paths, which substitutes `$name`
    typ = a[1][2].split("::")[-1] if a[1][0] == "agg" else ("$" + a[1][1] if a[1][0] == "var" else show(a[1]))
    return typ, a[2], a[3]


def count_paths(body, label_fn, max_states=4096):
    """Path-sensitive effect counting.  label_fn(bi, term) -> label or None for call terminators.
    Returns [(PathState at return, {label: count (saturating at 2)})]."""
    def node_fn(s, bi, si, node):
        if node["k"] == "assign" and not node["pl"]["p"] and node["rv"]["k"] == "agg" and node["rv"].get("ak") == "adt" and node["rv"].get("adt", "").endswith("MetricType"):
            # a metric kind held in a local (named or not): remembered per path, also through plain copies
            d = dict(s.user or ())
            d["$#%d" % node["pl"]["l"]] = node["rv"]["variant"]
            name = body.local_name.get(node["pl"]["l"])
            if name:
                d["$" + name] = node["rv"]["variant"]
            return s.with_user(tuple(sorted(d.items())))
        if node["k"] == "assign" and not node["pl"]["p"] and node["rv"]["k"] == "use" and node["rv"]["op"].get("k") in ("move", "copy") and not node["rv"]["op"]["pl"]["p"]:
            d = dict(s.user or ())
            src = "$#%d" % node["rv"]["op"]["pl"]["l"]
            if src in d:
                d["$#%d" % node["pl"]["l"]] = d[src]
                name = body.local_name.get(node["pl"]["l"])
                if name:
                    d["$" + name] = d[src]
                return s.with_user(tuple(sorted(d.items())))
        if node["k"] == "call":
            lab = label_fn(bi, node)
            if lab is not None:
                d = dict(s.user or ())
                if "$" in lab:
                    for k_, v_ in d.items():
                        if k_.startswith("$") and k_ in lab:
                            lab = lab.replace(k_, v_)
                if lab.startswith("call* "):
                    # re-polling an awaited crate future: the callee body runs once
                    lab = "call " + lab[6:]
                    d[lab] = 1
                else:
                    d[lab] = min(2, d.get(lab, 0) + 1)
                return s.with_user(tuple(sorted(d.items())))
        return None
    at, entry = dataflow(body, init_user=(), node_fn=node_fn, max_states=max_states)
    out = []
    for rb in body.return_blocks():
        for s in at.get((rb, term_idx(body, rb)), set()):
            out.append((s, {k_: v_ for k_, v_ in (s.user or ()) if not k_.startswith("$")}))
    return out, at


def build_key_of(body):
    bk = calls_to(body, "KeyBuilder::build_key")
    if len(bk) != 1:
        # the two halves computed separately: whether that is allowed is R18.3's business (C02 / C18); the rules that
        # only need to know which value is the index hash keep working
        hi_ = calls_to(body, "KeyBuilder::hash_index")
        hc_ = calls_to(body, "KeyBuilder::hash_conflict")
        if not bk and len(hi_) == 1 and len(hc_) <= 1:
            ei = norm(body.call_expr(hi_[0][1], True))
            ec = norm(body.call_expr(hc_[0][1], True)) if hc_ else ("const", 0, "u64")
            return hi_[0], ("agg", "tuple", "", (ei, ec), ()), ei, ec
        raise AnchorMissing("%s: expected one build_key call, found %d" % (body.spath, len(bk)))
    e = norm(body.call_expr(bk[0][1], True))
    return bk[0], e, ("field", e, "0"), ("field", e, "1")


# ----------------------------------------------------------------------------------------
# C16
# ----------------------------------------------------------------------------------------

def check_insert_offered(rep, fl, rule="R16.7"):
    """Whatever try_update hands back - a New item or the cost Update of a resident key - is offered to the insert
    buffer on every path (a blocking / non-blocking send or a select over it).  An update that is judged not worth
    sending (`cost == 0`) leaves the policy charging the replaced value's cost."""
    import props_life
    b = fl.facts.flat(fl.cache_fn("try_insert_in"))
    attempts = [bi for bi, t, ch, pay in props_life.send_sites(b) if ch == norm(F(V("self"), "insert_buf_tx"))]
    attempts += [bi for bi, t in b.calls() if re.search(r"internal::(try_select|select|select_timeout)$|Select::(try_select|select|ready|try_ready)$", b.callee_of(t) or t.get("callee", ""))]
    some = []
    for bi in b.live_blocks():
        t = b.term(bi)
        if t and t["k"] == "switch":
            for tgt, atom, pol in edge_literals(b, bi):
                if atom is not None and atom[0] == "variant" and atom[2] == "Some" and pol and any(is_call(c, "try_update") for c in calls_in(norm(b.expand(atom[1])))):
                    some.append(tgt)
    ok = bool(attempts) and bool(some) and all(must_pass_through(b, attempts, from_bi=x) for x in some)
    rep.check(ok, rule, fl, b, "item always offered", "every item produced by try_update is offered to the insert buffer (sent, or refused by a full / closed buffer)",
              "try_insert_in can return without offering the item to the insert buffer: the store already holds the new value, the policy never hears of its cost")


def check_policy_cost(rep, fl, rule="R16.5"):
    """LFUPolicy::cost(k) is the charged cost of k: the value stored in key_costs (what the sweeper reports to
    on_evict for an expired entry), a negative marker when the key is not charged."""
    b = fl.facts.flat(fl.policy_fn("cost"))
    try:
        paths = sym_paths(b)
    except TooManyStates:
        paths = None
    ok = bool(paths)
    for lits, ret in paths or []:
        r = norm(ret) if ret is not None else None
        some = [v for a, v in lits if norm(a)[0] == "variant" and norm(a)[2] == "Some" and is_call(norm(a)[1], "HashMap::get")]
        none = [v for a, v in lits if norm(a)[0] == "variant" and norm(a)[2] == "None" and is_call(norm(a)[1], "HashMap::get")]
        found = (some == [True]) or (none == [False])
        if found:
            ok = ok and r is not None and r[0] == "field" and r[1][0] == "downcast" and r[1][2] == "Some" and is_call(r[1][1], "HashMap::get") and \
                norm(r[1][1][2][1]) == V(b.local_name.get(2, "k")) and mentions(r[1][1][2][0], ("field", ("field", ("call", "parking_lot::lock_api::Mutex::lock", (F(V("self"), "inner"),)), "costs"), "key_costs"))
        else:
            ok = ok and r is not None and r[0] == "const" and isinstance(r[1], int) and r[1] < 0
    rep.check(ok, rule, fl, b, "cost(k)", "policy.cost(k) returns the charge stored for k (negative when k is not charged)",
              "policy.cost(k) no longer returns the stored charge of k: the cost reported for an expired entry is not its charged cost")


def check_arms_reach_policy(rep, fl, rule="R16.3"):
    """Every applied item reaches the policy: whatever its field values, a New item goes through policy.add, an
    Update through policy.update and a Delete through policy.remove (no early way out of the arm before the call:
    an update whose cost happens to be 0 still re-charges the entry)."""
    hi = fl.proc_fn("handle_item")
    for variant, callee in (("New", "add"), ("Update", "update"), ("Delete", "remove")):
        sites = [bi for bi, t in calls_to(hi, fl.policy + "::" + callee)]
        arms = []
        for bi in hi.live_blocks():
            t = hi.term(bi)
            if t and t["k"] == "switch":
                for tgt, atom, pol in edge_literals(hi, bi):
                    if atom is not None and atom[0] == "variant" and atom[2] == variant and pol and norm(hi.expand(atom[1])) == V("item"):
                        arms.append(tgt)
        ok = bool(sites) and bool(arms) and all(must_pass_through(hi, sites, from_bi=a_) for a_ in arms)
        rep.check(ok, rule, fl, hi, "%s always reaches policy.%s" % (variant, callee), "every %s item is applied to the policy (policy.%s on every path of the arm)" % (variant, callee),
                  "a %s item can be dropped without policy.%s (an early return in the arm): the policy keeps charging what the store no longer holds, or the old cost" % (variant, callee))
    # ... and the other way round: a key is charged from scratch (policy.add) for a New item only - an Update or a
    # Delete that finds its key untracked stays without effect (the entry it was about has left the cache meanwhile)
    adds = calls_to(hi, fl.policy + "::add")
    at_, _e = dataflow(hi)
    okn = bool(adds)
    for bi, t in adds:
        sts = [expand_state(hi, s_, hist=True) for s_ in at_.get((bi, term_idx(hi, bi)), set())]
        okn = okn and bool(sts) and all(any(a_[0] == "variant" and a_[2] == "New" and v_ and norm(hi.expand(a_[1])) == V("item") for a_, v_ in s_.lits) for s_ in sts)
    rep.check(okn, rule, fl, hi, "policy.add for New items only", "policy.add is reached in the New arm only: nothing but an insert of a non-resident key creates a charge",
              "policy.add is also reachable outside the New arm of handle_item: an update (insert_if_present) or delete of a key that has left the cache creates a charge - and evicts residents - for an entry that does not exist")



def check_C16(rep, fl):
    facts = fl.facts
    # ---- R16.1 try_update: external cost and item costs ---------------------------------------
    tu = fl.cache_fn("try_update")
    at, entry = dataflow(tu)
    cost, val = V("cost"), V("val")
    ext_l = None
    for l, name in tu.local_name.items():
        ds = tu.defs.get(l, [])
        es = [norm(tu.def_expr(a, b, True)) for a, b in ds]
        if any(is_call(e, "Coster::cost") for e in es):
            ext_l, ext_defs = l, list(zip(ds, es))
    if ext_l is None:
        rep.bad("R16.1", fl, tu, "external_cost", "the Coster is never consulted in try_update: a cost of 0 is charged as 0 instead of the Coster's valuation")
        return
    ext = V(tu.local_name[ext_l])
    zero = A(("bin", "Eq", cost, ("const", 0, "i64")))
    ok = len(ext_defs) == 2
    for (dbi, dsi), e in ext_defs:
        sts = [expand_state(tu, s) for s in at.get((dbi, dsi), set())]
        if is_call(e, "Coster::cost"):
            ok = ok and norm(e[2][0]) == norm(F(V("self"), "coster")) and e[2][1] == val and all(feval(zero, s) is True for s in sts)
        else:
            ok = ok and e == ("const", 0, "i64") and all(feval(zero, s) is False for s in sts)
    rep.check(ok, "R16.1", fl, tu, "external_cost", "external_cost = coster.cost(&val) iff cost == 0, else 0", "external_cost is not `if cost == 0 { coster.cost(&val) } else { 0 }`")
    (bkb, bkt), bke, index, conflict = build_key_of(tu)
    # item constructions in try_update: through Item::new / Item::update or as struct literals
    items = []
    for bi, t in tu.calls():
        if any(callee_matches(tu.callee_of(t), fl.item + "::" + m) for m in ("new", "update", "delete")):
            cf = ctor_fields(facts, tu.call_expr(t, True))
            if cf is not None:
                items.append((cf, t["sp"]))
    for bi, si, st, e in agg_nodes(tu, fl.item.split("::")[-1]):
        items.append(((e[2], agg_fields(e)), st["sp"]))
    n_new = n_upd = 0
    for (name, f), sp in items:
        f = {k_: norm(tu.expand(v_)) if v_[0] != "var" else v_ for k_, v_ in f.items()}
        if name.endswith("Item::New"):
            n_new += 1
            okc = lin_key(lin(f.get("cost", ("const", 0, "i64")))) == lin_key({cost: 1, ext: 1})
            rep.check(okc, "R16.1", fl, tu, "New.cost", "a New item carries cost + external_cost", "New item cost is %s" % show(f.get("cost")), loc=sp)
            rep.check(f.get("key") == index and f.get("conflict") == conflict, "R18.3", fl, tu, "New(index, conflict)", "the New item carries the (index, conflict) pair of one build_key(key) call",
                      "New item is keyed (%s, %s)" % (show(f.get("key")), show(f.get("conflict"))), loc=sp)
        elif name.endswith("Item::Update"):
            n_upd += 1
            rep.check(f.get("key") == index and f.get("cost") == cost and f.get("external_cost") == ext, "R16.1", fl, tu, "Update(cost, external)", "an Update item carries (index, cost, external_cost)",
                      "Update item built as (%s, %s, %s)" % (show(f.get("key")), show(f.get("cost")), show(f.get("external_cost"))), loc=sp)
    if n_new < 1 or n_upd < 1:
        rep.missing("R16.1", fl, "try_update: expected a New and an Update item construction, found %d / %d" % (n_new, n_upd))
    su = calls_to(tu, "store::ShardedMap::try_update")
    if su:
        a = [norm(x) for x in tu.call_args(su[0][1])]
        rep.check(a[1] == index and a[3] == conflict and a[2] == val, "R18.3", fl, tu, "store.try_update(index, val, conflict)", "the store is updated under the same (index, conflict) pair",
                  "store.try_update called with (%s, %s)" % (show(a[1]), show(a[3])), loc=su[0][1]["sp"])
    # ---- R16.2 Item::new / Item::update map parameters to fields -------------------------------
    for m, variant, mapping in (("new", "New", {"key": "key", "conflict": "conflict", "cost": "cost", "value": "val", "expiration": "exp"}),
                                ("update", "Update", {"key": "key", "cost": "cost", "external_cost": "external_cost"}),
                                ("delete", "Delete", {"key": "key", "conflict": "conflict"})):
        b = facts.body(fl.item + "::" + m, required=False)
        if b is None:
            continue  # no constructor function: the items are built as literals and checked where they are built
        e = norm(return_expr(b))
        f = agg_fields(e)
        ok = e[0] == "agg" and e[2].endswith("Item::" + variant) and all(f.get(k) == V(v) for k, v in mapping.items())
        rep.check(ok, "R16.2", fl, b, variant, "Item::%s maps its parameters to the fields one-to-one" % m, "Item::%s builds %s" % (m, show(e)))
    # ---- R16.3 handle_item -------------------------------------------------------------------------
    hi = fl.proc_fn("handle_item")
    cic = fl.processor + "::calculate_internal_cost"
    adds = calls_to(hi, fl.policy + "::add")
    rep.check(len(adds) == 1, "R16.3", fl, hi, "one policy.add", "one policy.add site", "%d policy.add sites" % len(adds))
    charged = None
    for bi, t in adds:
        a = [norm(x) for x in hi.call_args(t)]
        charged = a[2]
        ok = a[1] == item_field("New", "key") and is_call(a[2], cic) and a[2][2][1] == item_field("New", "cost")
        rep.check(ok, "R16.3", fl, hi, "policy.add(key, internal(cost))", "New => policy.add(key, calculate_internal_cost(cost))",
                  "policy.add is called with (%s, %s)" % (show(a[1]), show(a[2])), loc=t["sp"])
    for bi, t in calls_to(hi, fl.policy + "::update"):
        a = [norm(x) for x in hi.call_args(t)]
        want = {("call", cic, (V("self"), item_field("Update", "cost"))): 1, item_field("Update", "external_cost"): 1}
        ok = a[1] == item_field("Update", "key") and lin_key(lin(a[2])) == lin_key(want)
        rep.check(ok, "R16.3", fl, hi, "policy.update(key, internal(cost)+external)", "Update => policy.update(key, calculate_internal_cost(cost) + external_cost)",
                  "policy.update is called with (%s, %s)" % (show(a[1]), show(a[2])), loc=t["sp"])
    check_arms_reach_policy(rep, fl)
    check_insert_offered(rep, fl)
    check_policy_cost(rep, fl)
    # who may charge: the cost handed to the policy is computed in handle_item only (the sites checked above)
    other = "r#async" if fl.name == "sync" else "::sync::"
    outside = []
    for ob in facts.bodies:
        if not user_code(ob) or "::test" in ob.spath or other in ob.spath or ob.spath == hi.spath or ob.spath.startswith(hi.spath + "::{closure"):
            continue
        for m_ in ("add", "update"):
            for bi_, t_ in calls_to(ob, fl.policy + "::" + m_):
                outside.append((ob, t_, m_))
    rep.check(not outside, "R16.3", fl, fl.policy, "callers of add/update", "the policy is charged (add / update) only from handle_item, with calculate_internal_cost(cost) [+ external_cost]",
              "%s also calls policy.%s: that charge does not go through calculate_internal_cost, so the entry's charged cost is not `cost + overhead`"
              % (", ".join(sorted({o.spath for o, _, _ in outside})), outside[0][2] if outside else ""), loc=outside[0][1]["sp"] if outside else None)
    rej = [(bi, t) for bi, t in calls_to(hi, "CacheCallback::on_reject")]
    for bi, t in rej:
        a = [norm(x) for x in hi.call_args(t)]
        f = agg_fields(a[1])
        ok = charged is not None and f.get("cost") == charged and f.get("index") == item_field("New", "key") and f.get("conflict") == item_field("New", "conflict")
        rep.check(ok, "R16.3", fl, hi, "on_reject cost", "the rejected item reports the cost it would have been charged", "on_reject item cost is %s, charged would be %s" % (show(f.get("cost", ())), show(charged) if charged else "?"), loc=t["sp"])
    # ---- R16.4 calculate_internal_cost ----------------------------------------------------------
    b = facts.body(cic)
    at, entry = dataflow(b)
    flag = A(F(V("self"), "ignore_internal_cost"))
    ok = len(b.defs.get(0, [])) == 2
    for rbi, rsi in b.defs.get(0, []):
        e = norm(b.def_expr(rbi, rsi, True))
        sts = [expand_state(b, s) for s in at.get((rbi, rsi), set())]
        if e == cost:
            ok = ok and all(feval(flag, s) is True for s in sts)
        else:
            want = {cost: 1, ("cast", "i64", norm(F(V("self"), "item_size"))): 1}
            ok = ok and lin_key(lin(e)) == lin_key(want) and all(feval(flag, s) is False for s in sts)
    rep.check(ok, "R16.4", fl, b, "internal cost", "calculate_internal_cost(c) = c + item_size unless ignore_internal_cost, then c", "calculate_internal_cost no longer adds item_size exactly when ignore_internal_cost is false")
    new = fl.code(fl.processor + "::new")
    f = None
    for bi, si, st, e in agg_nodes(new, "CacheProcessor"):
        f = agg_fields(e)
    ok = f is not None and f.get("ignore_internal_cost") == V("ignore_internal_cost") and is_call(f.get("item_size", ()), "ShardedMap::item_size")
    rep.check(ok, "R16.4", fl, new, "fields", "CacheProcessor::new takes the flag from its argument and item_size from store.item_size()", "CacheProcessor::new field wiring changed")
    b = facts.body("store::ShardedMap::item_size")
    rep.check(norm(return_expr(b)) == norm(F(V("self"), "store_item_size")), "R16.4", fl, b, "item_size", "item_size() returns store_item_size", "item_size() returns %s" % show(norm(return_expr(b))))
    for ctor in ("with_validator_and_hasher",):
        b = facts.body("store::ShardedMap::" + ctor)
        f = None
        for bi, si, st, e in agg_nodes(b, "store::ShardedMap"):
            f = agg_fields(e)
        sz = f.get("store_item_size") if f else None
        ok = sz is not None and (is_call(sz, "mem::size_of") or is_call(sz, "size_of"))
        ga = None
        for bi, t in calls_to(b, "mem::size_of", "size_of"):
            ga = t.get("gargs")
        rep.check(ok and ga and ga[0].startswith("store::StoreItem<"), "R16.4", fl, b, "store_item_size", "store_item_size = size_of::<StoreItem<V>>()", "store_item_size is %s (%s)" % (show(sz) if sz else "?", ga))
    fin = fl.code(fl.builder + "::finalize")
    pn = calls_to(fin, fl.processor + "::new")
    ok = len(pn) == 1 and norm(fin.call_args(pn[0][1])[1]) == norm(F(V("self"), "inner", "ignore_internal_cost"))
    rep.check(ok, "R16.4", fl, fin, "flag from builder", "finalize passes the builder's ignore_internal_cost", "finalize does not pass the builder's ignore_internal_cost")
    # ---- R16.5 victims carry the sampled charge; evicted item reports it --------------------------
    # on the flattened handler: the element of the iteration over the victim list, whatever the loop is written as
    hf = facts.flat(hi)
    evs = calls_to(hf, "CacheCallback::on_evict")
    its_ = [i_ for i_ in iterations(hf) if evs and evs[0][0] in i_.region]
    ok = len(evs) == 1 and len(its_) >= 1
    if ok:
        it_ = min(its_, key=lambda i_: len(i_.region))
        f = agg_fields(it_.canon(hf.call_args(evs[0][1])[1]))
        ok = f.get("cost") == ("field", ("elem",), "cost") and f.get("index") == ("field", ("elem",), "key")
    rep.check(ok, "R16.5", fl, hi, "victim cost", "an evicted victim is reported with the cost the policy charged for it (PolicyPair.cost)", "the evicted item's cost/index are not taken from the victim pair")
    import props_policy
    props_policy.check_victim_pair(rep, fl)
    props_policy.check_policy_forwarding(rep, fl)
    # ignore_internal_cost reaches the processor as the builder was told (R16.4 checks finalize -> processor)
    import props_panic
    props_panic.check_builder_plumbing(rep, fl, only_sites=("default ignore_internal_cost", "set_ignore_internal_cost", "flags -> processor", "key builder / coster / callback", "set_* keeps ignore_internal_cost", "set_* keeps coster"))
    props_store.check_sweeper(rep, fl)
    # "the cost reported to on_evict .. equals the charged cost": an entry that add() un-charged leaves the store then
    # and there, with that cost - a victim left behind is reported later (by the sweep) with the cost of an untracked key
    import props_life as _pl
    _pl.check_handle_item_pairing(rep, fl, rule="R16.5", collisions=False, only_sites=("victims inspected on every path", "victim => try_remove(victim.key, 0)"))
    # "the cost charged .. equals the .. cost given": the cost table records what it is handed (R01.2: used and the table
    # move by exactly that amount)
    import props_policy as _pp
    _pp.check_balance(rep, fl, _pp.slfu_writers(fl.facts))
    # "the cost reported for a victim is its charged cost": the candidates (key, cost) are read from the cost table on
    # every call of add - a pool kept between calls reports what an entry cost before its last update (R07.3)
    import props_store as _ps16
    _ps16.keep_rules(rep, fl, _pp.check_C07, {"R07.3"}, rename="R16.5")


# ----------------------------------------------------------------------------------------
# C17
# ----------------------------------------------------------------------------------------

def check_hit_miss(rep, fl, rule="R17.1"):
    for m in ("get", "get_mut"):
        b = fl.facts.flat(fl.cache_fn(m))
        (bkb, bkt), bke, index, conflict = build_key_of(b)
        sg = calls_to(b, "store::ShardedMap::" + m)
        if len(sg) != 1:
            rep.missing(rule, fl, "%s: store.%s call" % (b.spath, m))
            continue
        se = norm(b.call_expr(sg[0][1], True))

        def lab(bi, t):
            mt = metric_tick(b, t)
            if mt and (mt[0] in ("Hit", "Miss") or mt[0].startswith("$")):
                okargs = mt[1] == index and mt[2] == ("const", 1, "u64")
                return mt[0] if okargs else mt[0] + "!badargs"
            return None
        outs, at = count_paths(b, lab)
        closed = A(call("std::sync::atomic::Atomic::load", F(V("self"), "is_closed"), ("agg", "adt", "atomic::Ordering::SeqCst", (), ())))
        ok = bool(outs)
        why = ""
        for s, cnt in outs:
            es = expand_state(b, s, hist=True)
            is_closed = any(is_call(a, "load") and mentions(a, norm(F(V("self"), "is_closed"))) and v for a, v in es.lits)
            found = feval(A(("variant", se, "Some")), es)
            if found is None:
                # the test may be spelled is_some() / is_none()
                for a, v in es.lits:
                    if (is_call(a, "Option::is_some") or is_call(a, "Option::is_none")) and norm(a[2][0]) == se:
                        found = v if is_call(a, "Option::is_some") else (not v)
            if is_closed:
                good = not cnt
            elif found is True:
                good = cnt == {"Hit": 1}
            elif found is False or feval(A(("variant", se, "None")), es) is True:
                good = cnt == {"Miss": 1}
            else:
                good = False
            if not good:
                ok = False
                why = "path [%s] ticks %s" % (show_state(es), cnt)
        rep.check(ok, rule, fl, b, "hit/miss", "every lookup on an open cache ticks exactly one of Hit (store hit) / Miss (store miss) with delta 1; none when closed",
                  "lookup accounting broken: %s" % why)


def ordering_of(body, lits, x, y):
    """['Less'|'Equal'|'Greater'] of x against y as far as the path literals decide it: an
    `x.cmp(&y)` arm, or the outcomes of `x < y` / `y < x` / `x == y` tests (an `if / else if` chain)."""
    out = [a[2] for a, v in lits if a[0] == "variant" and v and is_call(a[1], "Ord::cmp")]
    if out or x is None:
        return out
    xs = {norm(x), norm(body.expand(norm(x)))}
    ys = {norm(y), norm(body.expand(norm(y)))}
    lt = gt = eq = None
    for a, v in lits:
        if a[0] == "bin" and a[1] == "Lt":
            l_, r_ = norm(body.expand(a[2])), norm(body.expand(a[3]))
            if l_ in xs and r_ in ys:
                lt = v
            elif l_ in ys and r_ in xs:
                gt = v
        elif a[0] == "bin" and a[1] == "Eq":
            l_, r_ = norm(body.expand(a[2])), norm(body.expand(a[3]))
            if {l_, r_} & xs and {l_, r_} & ys:
                eq = v
    if lt is True:
        return ["Less"]
    if gt is True:
        return ["Greater"]
    if eq is True or (lt is False and gt is False):
        return ["Equal"]
    if lt is False and eq is False:
        return ["Greater"]
    if gt is False and eq is False:
        return ["Less"]
    return []


def check_policy_metrics(rep, fl):
    """R17.2: increment <-> CostAdd(cost); successful costs.remove <-> CostEvict(removed)+KeyEvict(1);
    reject return <-> RejectSets(1)."""
    facts = fl.facts
    add = fl.policy_fn("add")
    key, cost = V("key"), V("cost")
    incs = calls_to(add, SLFU + "::increment")
    for bi, t in incs:
        # the next metrics tick on every path from here is CostAdd(key, cost as u64), before any return
        ticks = [(b2, t2, metric_tick(add, t2)) for b2, t2 in add.calls() if metric_tick(add, t2)]
        ca = [b2 for b2, t2, mt in ticks if mt[0] == "CostAdd" and mt[1] == key and strip_casts(mt[2]) == cost and b2 in add.reachable(bi)]
        ok = bool(ca) and must_pass_through(add, ca, from_bi=bi)
        rep.check(ok, "R17.2", fl, add, "increment => CostAdd(cost)", "every admission adds its charged cost to cost_added", "an admission does not tick CostAdd(key, cost)", loc=t["sp"])
    # CostAdd only after an increment
    for b2, t2 in add.calls():
        mt = metric_tick(add, t2)
        if mt and mt[0] == "CostAdd":
            ok = dominates_all_paths(add, [x for x, _ in incs], b2)
            rep.check(ok, "R17.2", fl, add, "CostAdd => increment", "CostAdd is ticked only for an admission", "CostAdd ticked without an admission", loc=t2["sp"])
    # released charges (add and remove), on the flattened bodies: `.map(|cost| ..)` and `if let Some(cost)` alike
    for fn in ("add", "remove"):
        b = facts.flat(fl.policy_fn(fn))
        rms = calls_to(b, SLFU + "::remove")
        for bi, t in rms:
            rk = norm(b.call_args(t)[1])
            res = norm(b.call_expr(t, True))
            res_pl = t["dest"]
            # the switch on the result
            sw = None
            for x in b.live_blocks():
                pl = switch_discr_place(b, x)
                if pl is not None and pl["l"] == res_pl["l"] and not pl["p"] and x in b.reachable(bi):
                    sw = x
            ok = sw is not None
            if ok:
                some = none = None
                for tgt, atom, pol in edge_literals(b, sw):
                    if atom is not None and atom[0] == "variant" and pol:
                        if atom[2] == "Some":
                            some = tgt
                        elif atom[2] == "None":
                            none = tgt
                ok = some is not None and none is not None
            if ok:
                dom = {x for x in b.live_blocks() if block_dominates(b, some, x)}
                exits = {x for x in b.reachable(none)} - dom
                ticks = {}
                for b3, t3 in b.calls():
                    mt = metric_tick(b, t3)
                    if mt and mt[0] in ("CostEvict", "KeyEvict") and b3 in dom:
                        ticks.setdefault(mt[0], []).append((norm(b.expand(mt[1])), mt[2], b3))
                payload = ("field", ("downcast", res, "Some"), "0")
                ok = set(ticks) == {"CostEvict", "KeyEvict"} and all(len(v) == 1 for v in ticks.values())
                if ok:
                    ce_, ke_ = ticks["CostEvict"][0], ticks["KeyEvict"][0]
                    delta = strip_casts(norm(b.expand(strip_casts(ce_[1]))))
                    ok = (delta == payload or strip_casts(ce_[1]) == payload) and ke_[1] == ("const", 1, "u64") \
                        and all(v[0] == norm(b.expand(rk)) for v in (ce_, ke_)) \
                        and all(must_pass_through(b, [v[2]], from_bi=some, exits=exits) for v in (ce_, ke_)) \
                        and not any(v[2] in b.reachable(v[2], removed_edges=[(p_, v[2]) for p_ in b.preds(v[2]) if p_ not in dom]) and False for v in (ce_, ke_))
                # no eviction tick for this removal outside the Some arm
                outside = [b3 for b3, t3 in b.calls() if (metric_tick(b, t3) or ("",))[0] in ("CostEvict", "KeyEvict") and b3 not in dom]
                ok = ok and not outside
            rep.check(ok, "R17.2", fl, b, "remove => CostEvict+KeyEvict", "every released charge ticks CostEvict(removed cost) and KeyEvict(1), exactly when a charge was released",
                      "costs.remove is not followed by CostEvict(removed cost) and KeyEvict(1) on exactly the path where a charge was released", loc=t["sp"])
    # RejectSets <-> rejection return
    rs = [(b2, t2) for b2, t2 in add.calls() if (metric_tick(add, t2) or ("",))[0] == "RejectSets"]
    ok = len(rs) == 1 and metric_tick(add, rs[0][1])[1] == key and metric_tick(add, rs[0][1])[2] == ("const", 1, "u64")
    if ok:
        rejret = []
        for rbi, rsi in add.defs.get(0, []):
            e = norm(add.def_expr(rbi, rsi, True))
            if e[0] == "agg" and len(e[3]) == 2 and e[3][1] == ("const", 0, "bool") and e[3][0][0] == "agg" and e[3][0][2].endswith("Option::Some"):
                rejret.append(rbi)
        ok = len(rejret) == 1 and block_dominates(add, rs[0][0], rejret[0]) and must_pass_through(add, rejret, from_bi=rs[0][0])
    rep.check(ok, "R17.2", fl, add, "RejectSets <=> reject", "RejectSets(1) is ticked exactly on the popularity rejection", "RejectSets is not ticked exactly once per popularity rejection")


def check_update_metrics(rep, fl):
    """R17.3: SampledLFU::update ticks KeyUpdate(1) and a wrapping CostAdd delta == cost - prev."""
    facts = fl.facts
    b = facts.body(SLFU + "::update")
    cost = V("cost")

    def lab(bi, t):
        mt = metric_tick(b, t)
        if mt and mt[0] in ("KeyUpdate", "CostAdd"):
            return mt[0]
        return None
    outs, at = count_paths(b, lab)
    ok = True
    why = ""
    prev = None
    for bi, t in b.calls():
        mt = metric_tick(b, t)
        if mt and mt[0] == "KeyUpdate":
            ok = ok and mt[2] == ("const", 1, "u64")
    # each CostAdd delta: two's complement of (cost - prev)
    deltas = []
    for bi, t in b.calls():
        mt = metric_tick(b, t)
        if mt and mt[0] == "CostAdd":
            deltas.append((bi, t, mt[2]))
    for bi, t, d in deltas:
        # normalise !(x - 1) -> -x ; (a as u64) -> a
        e = d
        neg = False
        if e[0] == "un" and e[1] == "Not":
            inner = e[2]
            if inner[0] == "bin" and inner[1] == "Sub" and inner[3][0] == "const" and inner[3][1] == 1:
                e = inner[2]
                neg = True
        e = strip_casts(e)
        l = lin(e)
        if neg:
            l = {k: -v for k, v in l.items()}
        terms = {k: v for k, v in l.items()}
        okd = terms.get(cost) == 1 and len(terms) == 2 and sorted(terms.values()) == [-1, 1]
        pv = [k for k, v in terms.items() if v == -1]
        if okd:
            prev = pv[0]
        ok = ok and okd
        if not okd:
            why = "CostAdd delta %s is not (cost - prev) in wrapping arithmetic" % show(d)
        # guard: Less => positive form, Greater => negated form
        sts = [expand_state(b, s, hist=True) for s in at.get((bi, term_idx(b, bi)), set())]
        for s in sts:
            ords = ordering_of(b, s.lits, prev if okd else None, cost)
            if (neg and ords != ["Greater"]) or (not neg and ords != ["Less"]):
                ok = False
                why = "CostAdd delta form does not match the comparison outcome (%s)" % ords
    prev_e = prev if deltas and okd else None
    for s, cnt in outs:
        es = expand_state(b, s, hist=True)
        found = any(a[0] == "variant" and a[2] == "Some" and v for a, v in es.lits)
        isop = any(is_call(a, "Metrics::is_op") and v for a, v in es.lits)
        ords = ordering_of(b, es.lits, prev_e, cost)
        if not found or not isop:
            good = not cnt
        else:
            good = cnt.get("KeyUpdate") == 1 and cnt.get("CostAdd", 0) == (0 if ords == ["Equal"] else 1)
        if not good:
            ok = False
            why = "path [%s] ticks %s" % (show_state(es), cnt)
    rep.check(ok and len(deltas) == 2, "R17.3", fl, b, "update metrics", "an in-place update ticks KeyUpdate(1) and CostAdd(cost - prev) (wrapping; nothing when equal)", "update accounting broken: %s" % why)


def check_admission_metrics(rep, fl):
    """R17.4: track_admission iff added; KeyAdd(1); add returns true iff increment on the path."""
    facts = fl.facts
    # on the flattened handler (track_admission spliced in, wherever the tick itself is written): KeyAdd(key, 1) is
    # counted once on every path on which policy.add reported `added` and the store insert did not fail, and on
    # no other path (not for a refused item, not in the Update / Delete / Wait arms)
    hi = facts.flat(fl.proc_fn("handle_item"))
    adds = calls_to(hi, fl.policy + "::add")
    ok = len(adds) == 1
    why = "policy.add sites: %d" % len(adds)
    if ok:
        added = ("field", norm(hi.call_expr(adds[0][1], True)), "1")

        def lab(bi, t):
            mt = metric_tick(hi, t)
            if mt and mt[0] == "KeyAdd":
                return "KeyAdd" if (mt[1] == item_field("New", "key") and mt[2] == ("const", 1, "u64")) else "KeyAdd!badargs"
            return None
        outs, at = count_paths(hi, lab)
        ok = bool(outs)
        for s_, cnt in outs:
            es = expand_state(hi, s_, hist=True)
            adm = [v for a, v in es.lits if a == added]
            failed = any(a[0] == "variant" and ((a[2] in ("Break", "Err") and v) or (a[2] in ("Continue", "Ok") and v is False)) and any(is_call(c, "try_insert") for c in calls_in(a[1])) for a, v in es.lits)
            want = {"KeyAdd": 1} if (adm == [True] and not failed) else {}
            if failed and adm == [True] and cnt in ({}, {"KeyAdd": 1}):
                continue
            if cnt != want:
                ok = False
                why = "path [%s] counts %s" % (show_state(es)[:200], cnt)
    rep.check(ok, "R17.4", fl, hi, "KeyAdd iff added", "KeyAdd(key, 1) is counted exactly once for every admitted New item and never otherwise",
              "keys_added is not counted exactly for the admitted New items: %s" % why)
    # add(): returns (_, true) iff an increment is on the path
    add = fl.policy_fn("add")

    def lab(bi, t):
        return "inc" if callee_matches(add.callee_of(t), SLFU + "::increment") else None
    outs, at2 = count_paths(add, lab)
    ok = True
    for rbi, rsi in add.defs.get(0, []):
        e = norm(add.def_expr(rbi, rsi, True))
        if e[0] == "agg" and len(e[3]) == 2 and e[3][1][0] == "const":
            for s in at2.get((rbi, rsi), set()):
                n = dict(s.user or ()).get("inc", 0)
                if (e[3][1][1] == 1) != (n == 1):
                    ok = False
    rep.check(ok, "R17.4", fl, add, "added <=> increment", "add() reports `added` exactly when the key was charged (increment) once", "add() can report added without charging the key (or the reverse)")


def check_dropsets(rep, fl):
    """R17.5: DropSets(1) on the failure arms of the insert-buffer send iff the item is not an update."""
    facts = fl.facts
    ti = facts.flat(fl.cache_fn("try_insert_in"))

    def updness(es):
        """[True] / [False] when the path knows whether the queued item is an Update, else []."""
        out = []
        for a, v in es.lits:
            if a[0] == "variant" and a[2] == "Update":
                out.append(v)
            elif a[0] == "variant" and a[2] in ("New", "Delete", "Wait") and v:
                out.append(False)
            elif is_call(a, "Item::is_update"):
                out.append(v)
        return sorted(set(out))

    def lab(bi, t):
        mt = metric_tick(ti, t)
        if mt and mt[0] == "DropSets":
            return "drop" if mt[2] == ("const", 1, "u64") else "drop!badargs"
        return ("tick " + mt[0]) if mt else None
    outs, at2 = count_paths(ti, lab, max_states=20000)
    ticks = [(bi, t) for bi, t in ti.calls() if (metric_tick(ti, t) or ("",))[0] == "DropSets"]
    allok = bool(ticks)
    why = "no DropSets tick in try_insert_in" if not ticks else ""
    for bi, t in ticks:
        for s in at2.get((bi, term_idx(ti, bi)), set()):
            upd = updness(expand_state(ti, s, hist=True))
            if upd != [False]:
                allok = False
                why = "DropSets ticked on a path where the item is not known to be a non-update (%s)" % upd
    # every Ok(const) result built on a path that knows the kind of the item: false + one tick for a
    # non-update, true without a tick for an update
    n_sites = 0
    for bi in ti.live_blocks():
        for si, st in enumerate(ti.blocks[bi]["stmts"]):
            if st["k"] != "assign":
                continue
            e = norm(ti.rvalue_expr(st["rv"], False))
            if not (e[0] == "agg" and e[2].endswith("Result::Ok") and e[3]):
                continue
            payload = e[3][0]
            if not ((payload[0] == "const" and payload[2] == "bool") or (payload[0] in ("tmp", "var") and ti.locals[payload[1] if payload[0] == "tmp" else ti.name_local.get(payload[1], 0)]["ty"] == "bool")):
                continue
            for s in at2.get((bi, si), set()):
                if payload[0] == "const":
                    e = ("agg", e[1], e[2], (payload,), e[4])
                else:
                    # a flag computed earlier on this path (e.g. the result of a helper): its value is a path fact
                    v_ = s.value(payload)
                    if v_ is None:
                        ee = norm(ti.expand(payload))
                        if ee[0] == "const":
                            v_ = bool(ee[1])
                    if v_ is None:
                        continue
                    e = ("agg", e[1], e[2], (("const", 1 if v_ else 0, "bool"),), e[4])
                d = dict(s.user or ())
                upd = updness(expand_state(ti, s, hist=True))
                if any(k_.startswith("tick ") or k_.endswith("!badargs") for k_ in d):
                    allok = False
                    why = "unexpected metric tick on the insert path: %s" % sorted(d)
                es_ = expand_state(ti, s, hist=True)
                sent = any(a[0] == "variant" and ((a[2] == "Ok" and v) or (a[2] == "Err" and not v)) for a, v in es_.lits)
                if sent:
                    # the item was queued: true, nothing dropped
                    if e[3][0][1] != 1 or d.get("drop", 0) != 0:
                        allok = False
                        why = "a queued item must return Ok(true) without DropSets (returns %s, %d ticks)" % (e[3][0][1], d.get("drop", 0))
                elif upd == [False]:
                    n_sites += 1
                    if e[3][0][1] != 0 or d.get("drop", 0) != 1:
                        allok = False
                        why = "a failed send of a non-update item must tick DropSets once and return Ok(false) (returns %s, %d ticks)" % (e[3][0][1], d.get("drop", 0))
                elif upd == [True]:
                    n_sites += 1
                    if e[3][0][1] != 1 or d.get("drop", 0) != 0:
                        allok = False
                        why = "a failed send of an Update item must return Ok(true) without DropSets"
                elif d.get("drop", 0):
                    allok = False
                    why = "DropSets ticked on a path that does not know the kind of the item"
    rep.check(allok and n_sites >= 2, "R17.5", fl, ti, "DropSets", "the failure arms (send error, buffer full) tick DropSets(index, 1) and return false iff the item is not an update; updates return true",
              "sets_dropped accounting broken (%d tick sites, %d result sites): %s" % (len(ticks), n_sites, why))


def check_metrics_handle(rep, fl, rule="R17.9"):
    """The metrics handle of a component is installed once: fields of type Metrics / Arc<Metrics> are
    written only by constructors and by set_metrics / collect_metrics, and no method re-creates its
    own struct (`*self = Self::new(..)` resets the handle to Noop: later updates are no longer counted)."""
    facts = fl.facts
    other = "r#async" if fl.name == "sync" else "::sync::"
    owners = {}
    for path, a in facts.adts.items():
        for v in a["variants"]:
            for f in v["fields"]:
                if f["ty"] in ("metrics::Metrics", "std::sync::Arc<metrics::Metrics>") and a.get("span", {}).get("f", "").startswith("src/"):
                    owners.setdefault(path, []).append(f["name"])
    bad = []
    n = 0
    for b in facts.bodies:
        if not user_code(b) or other in b.spath or "::test" in b.spath:
            continue
        root = strip_generics(b.raw["root"])
        ctor = root.split("::")[-1] in ("new", "with_hasher", "with_samples", "with_samples_and_hasher", "with_validator", "with_validator_and_hasher", "default", "finalize", "clone") \
            or root.split("::")[-1] in ("set_metrics", "collect_metrics")
        for bi, si, role, pl in b.place_uses():
            if role not in ("write", "mutref"):
                continue
            for owner, names in owners.items():
                for name in names:
                    if has_field(pl, name, owner):
                        n += 1
                        if not ctor:
                            bad.append("%s writes %s.%s" % (b.spath, short(owner), name))
            # whole-struct overwrite through a pointer: `*self = ..` in a method of an owner
            if role == "write" and pl["p"] == ["*"] and 1 <= pl["l"] <= b.arg_count:
                ty = strip_generics(b.locals[pl["l"]]["ty"].replace("&mut ", "").replace("&", "").split("<")[0])
                if ty in owners and not ctor:
                    bad.append("%s overwrites the whole %s (its metrics handle is reset)" % (b.spath, short(ty)))
    rep.check(not bad and len(owners) >= 3, rule, fl, "Metrics handles", "installed once", "the metrics handles (%s) are written only by constructors and set_metrics / collect_metrics" % ", ".join(sorted(short(o) for o in owners)),
              "a metrics handle is replaced after construction: %s" % "; ".join(bad[:3]))


def check_metrics_core(rep, fl):
    facts = fl.facts
    check_metrics_handle(rep, fl)
    # R17.6 ratio, get, add
    b = facts.body("metrics::MetricsInner::ratio")
    at, entry = dataflow(b)
    hits = call("metrics::MetricsInner::get_hits", V("self"))
    miss = call("metrics::MetricsInner::get_misses", V("self"))
    ok = len(b.defs.get(0, [])) == 2
    for rbi, rsi in b.defs.get(0, []):
        e = norm(b.def_expr(rbi, rsi, True))
        if e[0] in ("const", "cstr"):
            sts = [expand_state(b, s) for s in at.get((rbi, rsi), set())]
            ok = ok and ("0" in str(e)) and all(feval(AND(A(("bin", "Eq", hits, ("const", 0, "u64"))), A(("bin", "Eq", miss, ("const", 0, "u64")))), s) is True for s in sts)
        else:
            want = ("bin", "Div", ("cast", "f64", hits), ("cast", "f64", norm(("bin", "Add", hits, miss))))
            ok = ok and e == norm(want)
    rep.check(ok, "R17.6", fl, b, "ratio", "ratio() = hits / (hits + misses), 0 when both are 0", "ratio() is no longer hits / (hits + misses)")
    for g, typ in (("get_hits", "Hit"), ("get_misses", "Miss"), ("get_keys_added", "KeyAdd"), ("get_keys_evicted", "KeyEvict"), ("get_cost_added", "CostAdd"), ("get_cost_evicted", "CostEvict"),
                   ("get_sets_dropped", "DropSets"), ("get_sets_rejected", "RejectSets"), ("get_gets_dropped", "DropGets"), ("get_gets_kept", "KeepGets"), ("get_keys_updated", "KeyUpdate")):
        b = facts.body("metrics::MetricsInner::" + g)
        e = norm(return_expr(b))
        ok = is_call(e, "MetricsInner::get") and e[2][1][0] == "agg" and e[2][1][2].endswith("MetricType::" + typ)
        rep.check(ok, "R17.6", fl, b, g, "%s() reads MetricType::%s" % (g, typ), "%s() reads %s" % (g, show(e)))
    b = facts.body("metrics::MetricsInner::get")
    it = single_iteration(facts, b)
    ok = it is not None
    if ok:
        fb = it.body
        recv = it.source
        # one accumulation per stripe: acc = acc + load(elem), acc declared outside the loop
        tot = []
        for x in sorted(it.region):
            for y, st2 in enumerate(fb.blocks[x]["stmts"]):
                if st2["k"] != "assign":
                    continue
                tg = place_target(fb, st2["pl"])
                if tg is None or tg[0] != "var" or tg in it.elem_vars:
                    continue
                l = fb.name_local.get(tg[1])
                if l is not None and any(d[0] not in it.region for d in fb.defs.get(l, [])):
                    tot.append((x, y, st2, tg))
        ok = is_call(recv, "iter") and len(tot) == 1
        if ok:
            x, y, st2, tg = tot[0]
            val = it.canon(fb.rvalue_expr(st2["rv"], True))
            ok = val == norm(("bin", "Add", tg, call("std::sync::atomic::Atomic::load", ("elem",), ("agg", "adt", "atomic::Ordering::SeqCst", (), ())))) and it.every_round([x])
    rep.check(ok, "R17.6", fl, b, "get sums stripes", "get(typ) sums every stripe of the metric", "MetricsInner::get does not sum all stripes")
    b = facts.body("metrics::MetricsInner::add")
    fa = calls_to(b, "fetch_add")
    ok = len(fa) == 1
    if ok:
        a = [norm(x) for x in b.call_args(fa[0][1])]
        idx = a[0][2] if a[0][0] == "index" else None
        size = facts.const_value("metrics::SIZE_FOR_EACH_TYPE")

        def ub(e):
            # upper bound of an unsigned expression built from the hash: which stripe is used does not matter to
            # the balances, only that it is one of the `size` stripes that get() sums
            e = norm(e)
            if e[0] == "const" and isinstance(e[1], int):
                return e[1]
            if e[0] == "cast":
                return ub(e[2])
            if e[0] == "bin" and e[1] == "Rem" and norm(e[3])[0] == "const" and norm(e[3])[1] > 0:
                return norm(e[3])[1] - 1
            if e[0] == "bin" and e[1] == "BitAnd":
                c = [norm(x)[1] for x in (e[2], e[3]) if norm(x)[0] == "const" and isinstance(norm(x)[1], int)]
                return min(c) if c else None
            if e[0] == "bin" and e[1] in ("Mul", "Add"):
                l, r = ub(e[2]), ub(e[3])
                return None if l is None or r is None else (l * r if e[1] == "Mul" else l + r)
            return None
        top = ub(b.expand(idx)) if idx is not None else None
        ok = idx is not None and top is not None and top < size and mentions(norm(b.expand(idx)), V("hash")) and a[1] == V("delta")
        g = norm(b.expand(a[0][1])) if a[0][0] == "index" else None
        ok = ok and g is not None and any(is_call(c, "BTreeMap::get") and norm(c[2][1]) == V("typ") for c in calls_in(g))
    rep.check(ok, "R17.6", fl, b, "add", "add(typ, hash, delta): fetch_add(delta) on a stripe chosen from the hash and bounded below the stripe count, of metric typ", "MetricsInner::add no longer adds delta to an in-range stripe of metric typ")
    b = facts.body(MET + "::add")
    ia = calls_to(b, "metrics::MetricsInner::add")
    ok = len(ia) == 1 and [norm(x) for x in b.call_args(ia[0][1])][1:] == [V("typ"), V("hash"), V("delta")]
    if not ia:
        # through the crate's own `map(|m| m.add(typ, hash, delta))` helper: the call sits in the closure
        for x in descendants(facts, b):
            for bi_, t_ in calls_to(x, "metrics::MetricsInner::add"):
                ia.append((bi_, t_))
                ok = [norm(in_parent_terms(facts, x, y, stop_at=b)) for y in x.call_args(t_)][1:] == [V("typ"), V("hash"), V("delta")]
        ok = ok and len(ia) == 1
    rep.check(ok, "R17.6", fl, b, "Metrics::add forwards", "Metrics::add forwards (typ, hash, delta) unchanged to the Op metrics", "Metrics::add does not forward its arguments")
    # the public getters of `Metrics` hand out the Op metrics' getter of the same name
    ng = 0
    for bx in facts.bodies:
        r_ = strip_generics(bx.raw["root"])
        if bx.is_closure or not r_.startswith(MET + "::") or not (r_.split("::")[-1].startswith("get_") or r_.split("::")[-1] in ("ratio", "life_expectancy_seconds")):
            continue
        g = r_.split("::")[-1]
        inner_calls = [short(x.callee_of(t_)) for x in [bx] + list(descendants(facts, bx)) for _, t_ in x.calls() if "MetricsInner::" in x.callee_of(t_)]
        ng += 1
        rep.check(inner_calls == ["MetricsInner::" + g], "R17.6", fl, bx, "Metrics::" + g + " forwards", "Metrics::%s() returns MetricsInner::%s() of the Op metrics" % (g, g),
                  "Metrics::%s() reads %s" % (g, inner_calls))
    if ng < 11:
        rep.missing("R17.6", fl, "only %d public getters of Metrics found" % ng)
    # R17.7 exhaustiveness
    adt = facts.adts.get("metrics::MetricType")
    variants = [v["name"] for v in adt["variants"]] if adt else []
    n = facts.const_value("metrics::NUMS_OF_METRIC_TYPE")
    # the static array initialiser: read its declaration text from the source span of the static
    arr = metric_types_array(facts)
    want = [v for v in variants if v != "DoNotUse"]
    rep.check(arr is not None and sorted(arr) == sorted(want) and len(arr) == n, "R17.7", fl, "metrics::METRIC_TYPES_ARRAY", "lists every MetricType",
              "METRIC_TYPES_ARRAY lists every MetricType variant except DoNotUse (%d)" % n,
              "METRIC_TYPES_ARRAY = %s but MetricType has %s: a metric that is not listed is never allocated, so its counter stays 0 and clear() skips it" % (arr, want))
    newb = facts.body("metrics::MetricsInner::new")
    ok = any("METRIC_TYPES_ARRAY" in str(norm(x)) for _, t in calls_to(newb, "iter") for x in newb.call_args(t))
    rep.check(ok, "R17.7", fl, newb, "map from array", "the per-type stripes are allocated from METRIC_TYPES_ARRAY", "MetricsInner::new does not build its map from METRIC_TYPES_ARRAY")
    clr = facts.flat(facts.body("metrics::MetricsInner::clear"))
    its = iterations(clr)
    outer = [i for i in its if "METRIC_TYPES_ARRAY" in str(i.source) and not any(i.nbi in j.region for j in its if j is not i)]
    ok = len(outer) == 1
    if ok:
        outer = outer[0]
        inner = [i for i in its if i is not outer and i.nbi in outer.region]
        ok = len(inner) == 1 and is_call(outer.source, "iter") and must_pass_through(clr, [outer.nbi])
    if ok:
        inner = inner[0]
        st = inner.calls_to("store")
        ok = len(st) == 1 and inner.is_elem(clr.call_args(st[0][1])[0]) and norm(clr.call_args(st[0][1])[1]) == ("const", 0, "u64") and inner.every_round([st[0][0]])
        # the stripes iterated are those of the metric the outer loop is at: all.get(<outer element>)
        src = norm(clr.expand(inner.source))
        gets = [c for c in calls_in(src) if is_call(c, "BTreeMap::get")]
        if not gets:
            # the lookup result may be bound by `if let Some(arr)`: follow variables of the source
            for x in subexprs(inner.source):
                if x[0] == "var":
                    for d in var_def_exprs(clr, x, True):
                        gets += [c for c in calls_in(d) if is_call(c, "BTreeMap::get")]
        ok = ok and is_call(inner.source, "iter") and any(outer.is_elem(c[2][1]) for c in gets)
    hc = calls_to(clr, "histogram::Histogram::clear")
    ok = ok and len(hc) == 1 and must_pass_through(clr, [hc[0][0]])
    rep.check(ok, "R17.7", fl, clr, "clear zeroes everything", "clear() stores 0 into every stripe of every listed metric and clears the histogram", "MetricsInner::clear does not zero every stripe of every metric and the histogram")
    mc = facts.body(MET + "::clear")
    rep.check(len(calls_to(mc, "metrics::MetricsInner::clear")) == 1, "R17.7", fl, mc, "forwards", "Metrics::clear forwards to the Op metrics", "Metrics::clear does not forward")
    # R17.8 histogram
    check_histogram(rep, fl)


def metric_types_array(facts):
    """Variant names listed in the METRIC_TYPES_ARRAY static, read from the MIR of its
    initialiser."""
    b = facts.body("metrics::METRIC_TYPES_ARRAY", required=False)
    if b is None:
        return None
    e = norm(return_expr(b))
    if e[0] != "agg" or e[1] != "array":
        return None
    out = []
    for x in e[3]:
        if x[0] == "agg" and x[1] == "adt":
            out.append(x[2].split("::")[-1])
        else:
            return None
    return out


def check_histogram(rep, fl):
    facts = fl.facts
    b = facts.body("histogram::Histogram::update")

    def lab(bi, t):
        c = b.callee_of(t)
        if callee_matches(c, "fetch_add"):
            a = norm(b.call_args(t)[0])
            if mentions(a, norm(F(V("self"), "count_per_bucket"))):
                return "bucket"
            if a == norm(F(V("self"), "count")):
                return "count"
            if a == norm(F(V("self"), "sum")):
                return "sum"
        return None
    outs, at = count_paths(b, lab)
    # the search loop is `for idx in 0..=bounds.len()` with a catch-all arm `idx == bounds.len()`
    # that increments a bucket and leaves the loop: running off the end of the range is impossible
    blen = call("std::vec::Vec::len", F(V("self"), "bounds"))
    rng_ok = any(is_call(norm(b.call_expr(t, True)), "RangeInclusive::new") and [norm(x) for x in b.call_args(t)] == [("const", 0, "usize"), norm(blen)] for _, t in b.calls())
    catch_all = False
    buckets = [bi for bi, t in b.calls() if lab(bi, t) == "bucket"]
    for bi in b.live_blocks():
        t = b.term(bi)
        if t and t["k"] == "switch":
            for tgt, atom, pol in edge_literals(b, bi):
                ea = norm(b.expand(atom)) if atom is not None else None
                if ea is not None and ea[0] == "bin" and ea[1] == "Eq" and norm(blen) in (ea[2], ea[3]) and pol is True:
                    # from here: a bucket tick, then the return, without re-entering the loop head
                    catch_all = must_pass_through(b, buckets, from_bi=tgt) and all(not b.in_loop(x) or x == bb for bb in buckets for x in [bb])
                    # after the tick no further iteration: the tick block must not reach itself
                    catch_all = catch_all and all(bb not in b.reachable(s2) for bb in buckets if bb in b.reachable(tgt) for s2 in b.succs(bb))
    ok = bool(outs)
    for s, cnt in outs:
        es = expand_state(b, s, hist=True)
        exhausted = any(a[0] == "variant" and a[2] == "None" and v and is_call(a[1], "Iterator::next") for a, v in es.lits)
        if exhausted and rng_ok and catch_all:
            continue
        if cnt.get("count") != 1 or cnt.get("bucket") != 1 or cnt.get("sum") != 1:
            ok = False
    rep.check(ok, "R17.8", fl, b, "count == sum of buckets", "every sample increments count and exactly one bucket (and sum) on every path through the bucket search",
              "a sample can increment count without exactly one bucket: %s" % [c for _, c in outs if c.get("bucket") != 1 or c.get("count") != 1][:2])
    # bucket index is the loop index, delta 1
    for bi, t in calls_to(b, "fetch_add"):
        a = [norm(x) for x in b.call_args(t)]
        if mentions(a[0], norm(F(V("self"), "count_per_bucket"))) or a[0] == norm(F(V("self"), "count")):
            rep.check(a[1] == ("const", 1, "i64"), "R17.8", fl, b, "delta " + show(a[0])[:30], "counted by 1", "histogram counter incremented by %s" % show(a[1]), loc=t["sp"])
    pe = facts.body(fl.processor + "::prepare_evict")
    at, entry = dataflow(pe)
    te = calls_to(pe, MET + "::track_eviction")
    ok = len(te) == 1
    if ok:
        sts = [expand_state(pe, s, hist=True) for s in at.get((te[0][0], term_idx(pe, te[0][0])), set())]
        ok = all(any(a[0] == "variant" and a[2] == "Some" and v and is_call(a[1], "HashMap::get") and norm(a[1][2][0]) == norm(F(V("self"), "start_ts")) for a, v in s.lits) for s in sts)
        ok = ok and not pe.in_loop(te[0][0])
    rep.check(ok, "R17.8", fl, pe, "one sample per tracked eviction", "prepare_evict adds one life-expectancy sample iff the key is in start_ts", "prepare_evict does not add exactly one sample per tracked key")
    tr = facts.body("metrics::MetricsInner::track_eviction")
    hu = calls_to(tr, "histogram::Histogram::update")
    ok = len(hu) == 1 and must_pass_through(tr, [hu[0][0]]) and [norm(x) for x in tr.call_args(hu[0][1])] == [norm(F(V("self"), "life")), V(tr.local_name.get(2, "arg2"))]
    rep.check(ok, "R17.8", fl, tr, "forwards", "track_eviction hands every sample to life.update, whatever its value", "track_eviction does not hand every sample to the life-expectancy histogram")
    # what the user reads back is that histogram: life_expectancy_seconds() clones self.life, and the clone takes every
    # field from the same field of the original
    le = facts.body("metrics::MetricsInner::life_expectancy_seconds")
    e = norm(return_expr(le))
    ok = is_call(e, "Clone::clone") and norm(e[2][0]) == norm(F(V("self"), "life"))
    rep.check(ok, "R17.8", fl, le, "returns life", "life_expectancy_seconds() returns a copy of the tracked histogram", "life_expectancy_seconds() returns %s, not a copy of self.life" % show(e))
    hadt = facts.adts.get("histogram::Histogram")
    hfields = [f_["name"] for f_ in hadt["variants"][0]["fields"]] if hadt else []
    hcl = [x for x in facts.bodies if x.spath == "<histogram::Histogram as std::clone::Clone>::clone"]
    if len(hfields) < 4:
        rep.missing("R17.8", fl, "Histogram fields")
    elif hcl:
        # (a derived Clone has no MIR body of ours to get wrong)
        ags = agg_nodes(hcl[0], "Histogram")
        ok = len(ags) == 1
        if ok:
            f_ = agg_fields(ags[0][3])
            for name in hfields:
                v = f_.get(name)
                mine = norm(F(V("self"), name))
                ok = ok and v is not None and mentions(v, mine) and not any(mentions(v, norm(F(V("self"), o))) for o in hfields if o != name)
            ok = ok and norm(return_expr(hcl[0])) == norm(ags[0][3])
        rep.check(ok, "R17.8", fl, hcl[0], "clone copies every field", "Histogram::clone takes each field from the same field of the original", "Histogram::clone does not copy every field from its counterpart")
    # clear: every counter of the histogram goes back to 0 - count, sum, min, max and each bucket - on every path
    hc = facts.flat(facts.body("histogram::Histogram::clear"))
    zero = {}
    for bi, t in calls_to(hc, "store"):
        a = [norm(x) for x in hc.call_args(t)]
        if a[1] == ("const", 0, "i64"):
            zero[bi] = a[0]
    okc = True
    miss_ = []
    for name in hfields:
        ty = [f_["ty"] for f_ in hadt["variants"][0]["fields"] if f_["name"] == name][0]
        if "Atomic<i64>" not in ty:
            continue
        mine = norm(F(V("self"), name))
        if "Vec<" in ty:
            its_ = [i_ for i_ in iterations(hc) if mentions(norm(hc.expand(i_.source)), mine)]
            good = len(its_) == 1 and must_pass_through(hc, [its_[0].nbi]) and any(bi in its_[0].region and its_[0].is_elem(hc.call_args(t)[0]) and its_[0].every_round([bi])
                                                                                       for bi, t in calls_to(hc, "store") if bi in zero)
        else:
            good = any(v == mine and must_pass_through(hc, [bi]) for bi, v in zero.items())
        if not good:
            okc = False
            miss_.append(name)
    rep.check(okc and len(hfields) >= 4, "R17.8", fl, hc, "clear zeroes every counter", "Histogram::clear stores 0 into count, sum, min, max and every bucket", "Histogram::clear leaves %s as they were: after clear() the count no longer equals the sum of the buckets" % miss_)
    rep.note("F11 (observation, not a violation of the conditional clause): track_admission inserts into start_ts only when start_ts.len() > num_to_keep, so no entry is ever tracked")


def check_metric_sites(rep, fl, rule="R17.10"):
    """Who may count what: each metric kind is added only by the functions whose counting is checked by the other
    rules (hits / misses by the lookups, KeyAdd by track_admission, evictions by the policy's add / remove, ...).
    A second site elsewhere - get_ttl counting a hit, an update counting an added key - breaks the balances however
    correct the audited sites are."""
    facts = fl.facts
    other = "r#async" if fl.name == "sync" else "::sync::"
    allowed = {
        "Hit": {fl.cache + "::get", fl.cache + "::get_mut"}, "Miss": {fl.cache + "::get", fl.cache + "::get_mut"},
        "KeyAdd": {fl.processor + "::track_admission", fl.processor + "::handle_item"}, "KeyUpdate": {"policy::SampledLFU::update"},
        "KeyEvict": {fl.policy + "::add", fl.policy + "::remove"}, "CostEvict": {fl.policy + "::add", fl.policy + "::remove"},
        "CostAdd": {fl.policy + "::add", "policy::SampledLFU::update"}, "DropSets": {fl.cache + "::try_insert_in"},
        "RejectSets": {fl.policy + "::add"}, "DropGets": {fl.policy + "::push"}, "KeepGets": {fl.policy + "::push"},
    }
    bad = []
    n = 0
    for b in facts.bodies:
        if not user_code(b) or "::test" in b.spath or other in b.spath or b.spath.startswith("metrics::"):
            continue
        fb = b
        root = strip_generics(b.raw["root"])
        for bi, t in calls_to(fb, "metrics::Metrics::add"):
            n += 1
            k = norm(fb.call_args(t)[1])
            if k[0] == "agg" and "MetricType::" in k[2]:
                kind = k[2].split("::")[-1]
                if root not in allowed.get(kind, set()):
                    bad.append("%s adds %s" % (root, kind))
            else:
                # a kind held in a variable: every value it can take must be allowed here
                # a kind that is computed (`found.as_ref().map_or(Miss, |_| Hit)`, `if hit { Hit } else { Miss }`): every
                # MetricType literal it can evaluate to - in the expression, its definitions, the closures it applies
                vals = set()
                todo = [norm(fb.expand(k))] + ([norm(d) for d in var_def_exprs(fb, k)] if k[0] == "var" else [])
                seen_ = 0
                while todo and seen_ < 50:
                    seen_ += 1
                    x = todo.pop()
                    for sub in subexprs(x):
                        if sub[0] == "agg" and "MetricType::" in str(sub[2]):
                            vals.add(sub[2].split("::")[-1])
                        elif sub[0] == "closure":
                            cb_ = facts.closure_body(sub[1])
                            if cb_ is not None:
                                todo += [norm(r_) for r_ in return_exprs(cb_)]
                if not vals or any(root not in allowed.get(v, set()) for v in vals):
                    bad.append("%s adds a metric kind it computes (%s)" % (root, show(k)))
    rep.check(not bad and n >= 15, rule, fl, "Metrics::add", "sites", "each of the %d Metrics::add sites counts a kind its function is responsible for" % n,
              "a metric is counted outside the functions that own it: %s (the conservation laws are checked on the owning sites only)" % "; ".join(sorted(set(bad))[:4]))


def check_C17(rep, fl):
    check_hit_miss(rep, fl)
    check_policy_metrics(rep, fl)
    check_update_metrics(rep, fl)
    check_admission_metrics(rep, fl)
    check_dropsets(rep, fl)
    check_metrics_core(rep, fl)
    check_metric_sites(rep, fl)
    # "counters restart from zero at clear()": every served clear request reaches metrics.clear() (no `nothing to
    # clear` shortcut in the handler or in clear() itself), and clear() waits for it
    import props_life
    import props_store
    props_store.keep_sites(rep, fl, props_life.check_clear, ("drain + policy/store/metrics", "always requests", "waits for the processor", "clear arm"))
    # ... and on the processor only, between two items: a reset from a client thread wipes what the processor has
    # counted for entries that stay charged
    props_life.check_clear_affinity(rep, fl, rule="R17.7", callees=("metrics::Metrics::clear",))
    # "with metrics enabled": the flag creates the Op metrics and hands the same handle to the policy, and the
    # setters carry the flag
    import props_panic
    props_panic.check_builder_plumbing(rep, fl, only_sites=("metrics flag", "set_metrics", "set_* keeps metrics"))
    # "from any number of threads": every handle counts into the same Metrics and drives the same policy
    # (and all see the same closed flag: "lookups made on the open cache" - a handle that does not learn of close() keeps counting)
    check_handle_sharing(rep, fl, fields=("metrics", "policy", "store", "insert_buf_tx", "is_closed"))


# ----------------------------------------------------------------------------------------
# C15
# ----------------------------------------------------------------------------------------

def check_handle_sharing(rep, fl, rule="R15.5", fields=None):
    """A cloned handle shares the state of the handle it was cloned from: each listed field of the new
    Cache is `self.<field>.clone()` (an Arc / Sender clone), not a fresh object.  A per-handle lookup
    buffer loses the partial batch of every short-lived clone; a per-handle is_closed flag or channel
    end splits the cache in two."""
    facts = fl.facts
    want = fields or ("store", "policy", "get_buf", "insert_buf_tx", "stop_tx", "clear_tx", "is_closed", "metrics")
    b = None
    for x in facts.bodies:
        if x.name == "clone" and (x.raw.get("impl_trait") or "").endswith("Clone") and strip_generics(x.raw.get("impl_self", "").split("<")[0]) == fl.cache and user_code(x):
            b = x
    if b is None:
        rep.missing(rule, fl, "no `impl Clone for %s`" % short(fl.cache))
        return
    aggs = [agg_fields(e) for bi, si, st, e in agg_nodes(b, fl.cache.split("::")[-1])]
    ok = len(aggs) == 1
    bad = []
    if ok:
        f = aggs[0]
        for name in want:
            e = f.get(name)
            shared = e is not None and is_call(e, "Clone::clone") and norm(e[2][0]) == norm(F(V("self"), name))
            if not shared:
                bad.append("%s = %s" % (name, show(e) if e is not None else "?"))
    rep.check(ok and not bad, rule, fl, b, "clone shares " + ",".join(want), "a cloned handle holds clones of the same Arc / channel ends (%s)" % ", ".join(want),
              "a cloned handle does not share the state of its origin: %s" % "; ".join(bad))


SHRINKING = re.compile(r"Vec::(<[^>]*>::)?(truncate|pop|dedup|dedup_by|dedup_by_key|retain|retain_mut|remove|swap_remove|split_off|resize|set_len|insert|sort|sort_unstable|reverse)$"
                       r"|<impl \[T\]>::(sort|sort_unstable|sort_by|sort_by_key|reverse|rotate_left|rotate_right|fill)$")


def batch_edits(body):
    """Calls that drop, reorder or rewrite elements of a Vec<u64> (the lookup batch) in `body`: [callee names]."""
    out = []
    for bi, t in body.calls():
        c = body.callee_of(t)
        if SHRINKING.search(c) and t.get("argtys") and "u64" in t["argtys"][0] and user_code_span(t):
            out.append(c.split("::")[-1])
        elif callee_matches(c, "Vec::drain") and t.get("argtys") and "u64" in t["argtys"][0] and user_code_span(t):
            a = [norm(x) for x in body.call_args(t)]
            if not (len(a) == 2 and a[1][0] == "agg" and a[1][2].endswith("RangeFull")):
                out.append("drain(partial)")
    return out


def user_code_span(t):
    sp = t.get("sp") or {}
    return str(sp.get("f", "")).startswith("src/")


def check_batch_applied(rep, fl, rule="R15.4"):
    """TinyLFU::increments applies every key of the batch it was handed: one iteration over the parameter itself
    (no skip / take / filter / step_by in front of it), increment(elem) in every round, and the batch is not
    shortened or de-duplicated first (two lookups of one key count twice)."""
    facts = fl.facts
    b = facts.body("policy::TinyLFU::increments")
    it = single_iteration(facts, b)
    ok = it is not None
    why = "no single iteration in increments"
    if ok:
        comps = it.components()
        param = V(b.local_name.get(2, "arg2"))
        ok = len(comps) == 1 and comps[0][1] == "item" and norm(comps[0][2]) == param
        why = "increments iterates over %s, not over the whole batch" % show(it.source)
        if ok:
            inc = it.calls_to("policy::TinyLFU::increment")
            ok = len(inc) == 1 and it.every_round([inc[0][0]]) and it.indexed(it.body.call_args(inc[0][1])[1]) == ("index", param, ("elem",))
            why = "increment(elem) is not called once per key of the batch"
        if ok:
            ed = batch_edits(it.body)
            ok = not ed
            why = "the batch is edited before it is applied (%s)" % ", ".join(ed)
    rep.check(ok, rule, fl, b, "every key of the batch", "increments applies increment to every key of the batch, duplicates included", why)


def check_C15(rep, fl):
    facts = fl.facts
    # every handle feeds the same lookup buffer: a batch fills up across handles and nothing is lost with a handle
    check_handle_sharing(rep, fl, fields=("get_buf", "policy", "metrics"))
    check_batch_applied(rep, fl)
    # "the key's estimate reflects those lookups": each applied key is recorded (doorkeeper first, then the sketch)
    # and estimate() reads both back
    import props_sketch
    import props_store as _ps
    _ps.keep_sites(rep, fl, props_sketch.check_tinylfu, ("increment", "estimate"))
    # ... which needs a doorkeeper that recognises what it was given (contains probes the positions add set)
    _ps.keep_rules(rep, fl, props_sketch.check_C14, {"R14.1"}, rename="R15.4")
    # ... and counters that count: a recorded lookup adds one unit to the key's own nibble and saturates there (a
    # counter that wraps to 0, or carries into its neighbour, makes the estimate forget the lookups)
    _ps.keep_rules(rep, fl, props_sketch.check_C13, {"R13.2"}, rename="R15.4")
    # "accounted exactly once as kept or dropped in the metrics": the counters themselves add and read correctly
    import props_store
    props_store.keep_sites(rep, fl, check_metrics_core, ("add", "Metrics::add forwards", "get sums stripes", "get_gets_dropped", "get_gets_kept", "installed once"))
    # "in batches of buffer_items": the value given to the builder is the ring's capacity
    import props_panic
    props_panic.check_builder_plumbing(rep, fl, only_sites=("set_buffer_items", "buffer_items -> ring", "metrics flag", "set_metrics", "set_* keeps buffer_items", "set_* keeps metrics"))
    # R15.1 get / get_mut push the index before the store lookup, hit or miss
    for m in ("get", "get_mut"):
        b = fl.cache_fn(m)
        (bkb, bkt), bke, index, conflict = build_key_of(b)
        ps = calls_to(b, fl.ring + "::push")
        sg = calls_to(b, "store::ShardedMap::" + m)
        ok = len(ps) == 1 and len(sg) == 1
        if ok:
            a = [norm(x) for x in b.call_args(ps[0][1])]
            sa = [norm(x) for x in b.call_args(sg[0][1])]
            at, entry = dataflow(b)
            closed_paths_only = True
            # every path that reaches the store lookup passed the push; every path not closed reaches it
            ok = a[0] == norm(F(V("self"), "get_buf")) and a[1] == index and sa[1] == index and sa[2] == conflict and block_dominates(b, ps[0][0], sg[0][0])
            # from the not-closed edge, the push is unavoidable
            for bi in b.live_blocks():
                t = b.term(bi)
                if t and t["k"] == "switch":
                    for tgt, atom, pol in edge_literals(b, bi):
                        if atom is not None and is_call(norm(b.expand(atom)), "load") and pol is False:
                            ok = ok and must_pass_through(b, [ps[0][0]], from_bi=tgt)
        rep.check(ok, "R15.1", fl, b, "push(index)", "every lookup on an open cache records build_key(key).0 in the get buffer before consulting the store with the same (index, conflict)",
                  "the lookup does not record its key hash in the get buffer on every path (or looks up a different index)")
    # R15.2 the pending batch is touched by the ring's constructor and push() only: nothing else drains, clears or
    # replaces lookups that were recorded but not flushed yet (they are handed to the policy when the batch fills)
    users = set()
    for b_ in facts.bodies:
        for bi_, si_, role_, pl_ in b_.place_uses():
            if has_field(pl_, "data", fl.ring):
                users.add(strip_generics(b_.raw["root"]))
    extra = users - {fl.ring + "::new", fl.ring + "::push"}
    if (fl.ring + "::push") not in users:
        rep.missing("R15.2", fl, "no access to %s.data found in push()" % short(fl.ring))
    rep.check(not extra, "R15.2", fl, fl.ring, "batch owners", "the pending batch (%s.data) is accessed by new() and push() only" % short(fl.ring),
              "the pending lookups (%s.data) are also accessed by %s: recorded lookups can be discarded or reordered outside push()" % (short(fl.ring), sorted(short(u) for u in extra)))
    # R15.2 ring push
    rb = fl.code(fl.ring + "::push")
    at, entry = dataflow(rb)
    data = norm(F(V("self"), "data"))
    vp = [(bi, t) for bi, t in calls_to(rb, "Vec::push") if V("item") in [norm(x) for x in rb.call_args(t)]]
    ok = len(vp) == 1 and must_pass_through(rb, [vp[0][0]])
    rep.check(ok, "R15.2", fl, rb, "append", "the hash is appended to the batch on every path", "the looked-up hash is not appended on every path")
    pp_ = calls_to(rb, fl.policy + "::push")
    ok = len(pp_) == 1
    if ok:
        sts = [expand_state(rb, s, hist=True) for s in at.get((pp_[0][0], term_idx(rb, pp_[0][0])), set())]
        full = lambda s: any(a[0] == "bin" and a[1] == "Lt" and is_call(a[2], "Vec::len") and a[3] == norm(F(V("self"), "capa")) and v is False for a, v in s.lits)
        ok = all(full(s) for s in sts)
        # conversely: on the len >= capa edge the flush is unavoidable
        conv = True
        for bi in rb.live_blocks():
            t = rb.term(bi)
            if t and t["k"] == "switch":
                for tgt, atom, pol in edge_literals(rb, bi):
                    ea = norm(rb.expand(atom)) if atom is not None else None
                    if ea is not None and ea[0] == "bin" and ea[1] == "Lt" and is_call(ea[2], "Vec::len") and pol is False:
                        conv = conv and must_pass_through(rb, [pp_[0][0]], from_bi=tgt)
        if not conv:
            # the full / not-full answer may travel through a value (`if let Some(batch) = self.append(item)`): decide
            # it per feasible path - every path that saw len >= capa has flushed once when it leaves
            outs_, _at = count_paths(rb, lambda bi_, t_: "flush" if t_ is pp_[0][1] else None)
            conv = bool(outs_) and all((cnt_.get("flush", 0) == 1) == full(expand_state(rb, s_, hist=True)) for s_, cnt_ in outs_)
        ok = ok and conv
        # batch handed over is a copy of the buffer
        a = [norm(x) for x in rb.call_args(pp_[0][1])]
        if a[1][0] == "field" and a[1][1][0] == "downcast" and a[1][1][2] == "Some" and a[1][1][1][0] in ("tmp", "var"):
            # the batch travelled through an Option built in this body (`Some(batch)` on the full path, `None` otherwise)
            pays = [d_[3][0] for d_ in (norm(x_) for x_ in var_def_exprs(rb, a[1][1][1], True)) if d_[0] == "agg" and str(d_[2]).endswith("Option::Some") and len(d_[3]) == 1]
            if len(pays) == 1:
                a[1] = norm(rb.expand(pays[0]))
        taken = (is_call(a[1], "mem::replace") and len(a[1][2]) == 2 and (is_call(a[1][2][1], "Vec::with_capacity") or is_call(a[1][2][1], "Vec::new"))) or is_call(a[1], "mem::take")
        copied = is_call(a[1], "Clone::clone") or is_call(a[1], "to_vec") or is_call(a[1], "ToOwned::to_owned") or is_call(a[1], "<impl [T]>::to_vec") or (is_call(a[1], "From::from") and len(a[1][2]) == 1)
        ok = ok and a[0] == norm(F(V("self"), "cons")) and (copied or a[1][0] == "var" or taken)
    rep.check(ok, "R15.2", fl, rb, "flush iff full", "the batch is handed to the policy exactly when it reached capa", "the batch is not flushed exactly when len >= capa")
    # the buffer is emptied whatever the outcome: every path through the flush passes a clear / replacement
    if pp_:
        clears = [bi for bi, t in rb.calls() if callee_matches(rb.callee_of(t), "Vec::clear")]
        repl = [bi for bi, si, st in stmt_nodes(rb, lambda s: "*" in s["pl"]["p"]) if is_call(norm(rb.rvalue_expr(st["rv"], True)), "Vec::with_capacity")]
        # `mem::take(&mut *data)` / `mem::replace(&mut *data, Vec::with_capacity(..))`: handed over and emptied in one step
        tk = [bi for bi, t in rb.calls() if (callee_matches(rb.callee_of(t), "mem::take") or callee_matches(rb.callee_of(t), "mem::replace")) and "Vec<u64>" in (t.get("destty") or "")]
        emptied = clears + repl + tk
        ok = bool(emptied) and (must_pass_through(rb, emptied, from_bi=pp_[0][0]) or any(block_dominates(rb, e, pp_[0][0]) for e in emptied))
        if emptied and not ok:
            # per feasible path (the flush decision may travel through a value): whoever flushed has emptied
            es_ = set(emptied)
            outs_, _at = count_paths(rb, lambda bi_, t_: "flush" if t_ is pp_[0][1] else ("empty" if bi_ in es_ and t_ is rb.term(bi_) else None))
            ok = bool(outs_) and all(cnt_.get("empty", 0) >= 1 for s_, cnt_ in outs_ if cnt_.get("flush", 0)) and not repl
        rep.check(ok, "R15.2", fl, rb, "emptied", "the batch buffer is emptied whatever the outcome of the flush", "after a flush the buffer can keep its contents: the same lookups are recorded twice")
    import props_store
    props_store.check_single_section(rep, fl, "R15.2", [fl.ring + "::push"], "appending a lookup, handing the full batch over (or copying it) and emptying the buffer")
    rn_ = facts.body(fl.ring + "::new", required=False)
    cf_ = ctor_fields(facts, norm(return_expr(rn_))) if rn_ is not None and return_expr(rn_) is not None else None
    rep.check(cf_ is not None and norm(cf_[1].get("capa", ())) == V(rn_.local_name.get(2, "arg2")) and norm(cf_[1].get("cons", ())) == V(rn_.local_name.get(1, "arg1")),
              "R15.2", fl, rn_ if rn_ is not None else fl.ring, "new(cons, capa)", "the ring keeps the policy and the batch size it was built with",
              "RingStripe::new does not store its `capa` argument as the batch size (or its policy argument): lookups are not flushed in batches of buffer_items")
    ed = batch_edits(rb)
    rep.check(not ed, "R15.2", fl, rb, "batch not edited", "the pending batch is only appended to, handed over and emptied",
              "the pending batch is edited before it is handed over (%s): lookups are lost without being accounted as dropped" % ", ".join(ed), loc=None)
    # R15.3 policy push
    pb = fl.policy_fn("push")
    check_policy_push(rep, fl, pb)
    # R15.4 channel ends; only the policy processor receives; Ok(items) => increments
    wh = fl.code(fl.policy + "::with_hasher")
    chans = [(bi, t) for bi, t in wh.calls() if callee_matches(wh.callee_of(t), "bounded") or callee_matches(wh.callee_of(t), "unbounded")]
    f = None
    for bi, si, st, e in agg_nodes(wh, fl.policy.split("::")[-1]):
        f = agg_fields(e)
    # the worker is built by PolicyProcessor::new(..) or by the struct literal itself
    procs = [ctor_fields(facts, wh.call_expr(t, True)) for _, t in calls_to(wh, fl.pproc + "::new")]
    procs += [(e[2], agg_fields(e)) for bi, si, st, e in agg_nodes(wh, fl.pproc.split("::")[-1])]
    # ... or inside an associated `spawn(inner, items_rx, stop_rx)` that builds the worker from its parameters
    for _, t_ in calls_to(wh, fl.pproc + "::spawn"):
        sb_ = facts.body(fl.pproc + "::spawn", required=False)
        if sb_ is not None and not (sb_.arg_count >= 1 and sb_.local_name.get(1) == "self"):
            m_ = {V(sb_.local_name.get(i_ + 1, "arg%d" % (i_ + 1))): norm(a_) for i_, a_ in enumerate(wh.call_args(t_))}
            for bi, si, st, e in agg_nodes(sb_, fl.pproc.split("::")[-1]):
                procs.append((e[2], {k_: norm(subst(norm(v_), m_)) for k_, v_ in agg_fields(e).items()}))
    procs = [x for x in procs if x is not None]
    ok = f is not None and len(procs) == 1
    if ok:
        tx = f.get("items_tx")
        rx = norm(procs[0][1].get("items_rx", ("x",)))
        ok = tx[0] == "field" and rx[0] == "field" and tx[1] == rx[1] and tx[2] == "0" and rx[2] == "1" and (is_call(tx[1], "bounded") or is_call(tx[1], "unbounded"))
    rep.check(ok, "R15.4", fl, wh, "one channel", "items_tx (policy) and items_rx (policy worker) are the two ends of one channel", "items_tx / items_rx are not the two ends of the same channel")
    hb = fl.code(fl.pproc + "::handle_items")
    at, entry = dataflow(hb)
    incs = calls_to(hb, "policy::TinyLFU::increments")
    ok = len(incs) == 1
    if ok:
        # the batch is the last parameter; the mutex is self.inner, or a parameter that the worker loop binds to it
        items_v = V(hb.local_name.get(hb.arg_count, "arg%d" % hb.arg_count))
        sts = [expand_state(hb, s, hist=True) for s in at.get((incs[0][0], term_idx(hb, incs[0][0])), set())]
        ok = all(any(a[0] == "variant" and a[2] == "Ok" and v and a[1] == items_v for a, v in s.lits) for s in sts)
        a = [norm(x) for x in hb.call_args(incs[0][1], expand_vars=True)]
        lockd = var_def_exprs(hb, a[0][1]) if a[0][0] == "field" else []
        lk_ = a[0][1] if a[0][0] == "field" and is_call(a[0][1], "Mutex::lock") else (lockd[0] if len(lockd) == 1 and is_call(lockd[0], "Mutex::lock") else None)
        mtx = norm(lk_[2][0]) if lk_ is not None else None
        if mtx is not None and mtx[0] == "var" and mtx != V("self"):
            pos = next((i_ for i_ in range(1, hb.arg_count + 1) if hb.local_name.get(i_) == mtx[1]), None)
            bound = []
            spb = facts.body(fl.pproc + "::spawn", required=False)
            for x in (descendants(facts, spb) if spb is not None else []):
                for _, t_ in calls_to(x, fl.pproc + "::handle_items"):
                    if pos is not None:
                        bound.append(canon_self(x, norm(x.expand(norm(x.call_args(t_)[pos - 1])))))
            mtx = bound[0] if bound and all(b_ == bound[0] for b_ in bound) else None
        ok = ok and a[1] == ("field", ("downcast", items_v, "Ok"), "0") and a[0][0] == "field" and a[0][2] == "admit" and mtx == norm(F(V("self"), "inner"))
        for bi in hb.live_blocks():
            t = hb.term(bi)
            if t and t["k"] == "switch":
                for tgt, atom, pol in edge_literals(hb, bi):
                    if atom is not None and atom[0] == "variant" and atom[2] == "Ok":
                        ok = ok and must_pass_through(hb, [incs[0][0]], from_bi=tgt)
    rep.check(ok, "R15.4", fl, hb, "Ok(items) => increments", "a received batch is applied with inner.admit.increments(batch) under the policy lock", "a received batch is not applied to the estimator")
    loop = None
    sp = facts.body(fl.pproc + "::spawn")
    for x in descendants(facts, sp):
        if calls_to(x, fl.pproc + "::handle_items"):
            loop = x
    rep.check(loop is not None, "R15.4", fl, sp, "worker loop", "the policy worker loop hands received batches to handle_items", "the policy worker loop does not call handle_items")
    recvs = []
    for x in facts.bodies:
        for bi, t in x.calls():
            c = x.callee_of(t)
            if callee_matches(c, "Receiver::recv") or callee_matches(c, "Receiver::try_recv") or callee_matches(c, "SelectedOperation::recv"):
                args = [norm(y) for y in x.call_args(t)]
                if any(mentions(y, ("field", V("self"), "items_rx")) for y in args) or \
                        any(canon_self(x, sub) == ("field", V("self"), "items_rx") for y in args for sub in subexprs(y) if sub[0] == "field"):
                    recvs.append(strip_generics(x.raw["root"]))
    other = "r#async" if fl.name == "sync" else "::sync::"
    recvs = [r for r in recvs if other not in r]
    rep.check(set(recvs) <= {fl.pproc + "::spawn"} and recvs, "R15.4", fl, fl.pproc, "only the worker receives", "items_rx is read only by the policy worker loop", "items_rx is read in %s" % sorted(set(recvs)))


def check_policy_push(rep, fl, pb):
    facts = fl.facts
    # the batch is the second parameter, whatever it is called (for an async fn: the coroutine's capture of it)
    shell = facts.body(fl.policy + "::push", required=False)
    pname = (shell.local_name.get(2) if shell is not None and shell.arg_count >= 2 else None) or pb.local_name.get(2) or "keys"
    keys = V(pname)

    def lab(bi, t):
        mt = metric_tick(pb, t)
        if mt and mt[0] in ("KeepGets", "DropGets"):
            return mt[0]
        return None
    outs, at = count_paths(pb, lab)
    # closures: Result::map(send, |_| KeepGets) / map_err(|e| DropGets)
    cl_ticks = {}
    for x in facts.children(pb):
        for bi, t in x.calls():
            mt = metric_tick(x, t)
            if mt and x.span["f"].startswith("src/"):
                p = closure_passed_to(facts, x)
                comb = short(p[0].callee_of(p[2])) if p else "?"
                cl_ticks.setdefault(comb, []).append((mt, must_pass_through(x, [bi]), in_parent_terms(facts, x, mt[1], stop_at=pb), in_parent_terms(facts, x, mt[2], stop_at=pb)))
    okc = set(cl_ticks) == {"Result::map", "Result::map_err"} and len(cl_ticks["Result::map"]) == 1 and len(cl_ticks["Result::map_err"]) == 1 and \
        cl_ticks["Result::map"][0][0][0] == "KeepGets" and cl_ticks["Result::map_err"][0][0][0] == "DropGets" and cl_ticks["Result::map"][0][1] and cl_ticks["Result::map_err"][0][1]
    n_len = ("cast", "u64", call("std::vec::Vec::len", keys))
    if okc:
        for comb in cl_ticks:
            mt, _, k, d = cl_ticks[comb][0]
            okc = okc and norm(pb.expand(d)) == norm(n_len)
    ok = bool(outs) and okc
    why = ""
    for s, cnt in outs:
        es = expand_state(pb, s, hist=True)
        closed = any(is_call(a, "load") and v for a, v in es.lits)
        empty = any(a[0] == "bin" and a[1] == "Eq" and v and mentions(a, norm(call("std::vec::Vec::len", keys))) and any(z[0] == "const" and z[1] == 0 for z in (a[2], a[3])) for a, v in es.lits)
        # is this return the map/map_err chain?
        chain = False
        for rbi, rsi in pb.defs.get(0, []):
            if s in at.get((rbi, rsi), set()) or rbi in [b for b in pb.live_blocks()]:
                pass
        direct = sum(cnt.values())
        if closed or empty:
            if direct != 0:
                ok = False
                why = "ticks on the closed/empty path"
    # classify return definitions
    for rbi, rsi in pb.defs.get(0, []):
        e = norm(pb.def_expr(rbi, rsi, True))
        sts = at.get((rbi, rsi), set())
        directs = {sum(v_ for k_, v_ in (s.user or ()) if not k_.startswith("$")) for s in sts}
        if is_call(e, "Result::map_err") and is_call(e[2][0], "Result::map"):
            if directs != {0}:
                ok = False
                why = "send arm ticks %s directly in addition to the map/map_err closures" % directs
        elif e[0] == "agg" and e[2].endswith("Result::Ok"):
            es_list = [expand_state(pb, s, hist=True) for s in sts]
            for s, es in zip(sts, es_list):
                closed = any(is_call(a, "load") and v for a, v in es.lits)
                empty = any(a[0] == "bin" and a[1] == "Eq" and v and mentions(a, norm(call("std::vec::Vec::len", keys))) and any(z[0] == "const" and z[1] == 0 for z in (a[2], a[3])) for a, v in es.lits)
                d = {k_: v_ for k_, v_ in (s.user or ()) if not k_.startswith("$")}
                if closed or empty:
                    continue
                if d != {"DropGets": 1} or e[3][0] != ("const", 0, "bool"):
                    ok = False
                    why = "default (queue full) arm ticks %s and returns %s" % (d, show(e))
        elif is_call(e, "from_residual"):
            pass
        else:
            ok = False
            why = "unrecognised return %s" % show(e)[:80]
    for bi, t in pb.calls():
        mt = metric_tick(pb, t)
        if mt and norm(pb.expand(mt[2])) != norm(n_len):
            ok = False
            why = "direct tick delta is %s, not keys.len()" % show(mt[2])
    rep.check(ok, "R15.3", fl, pb, "Keep/Drop accounting", "closed => Ok(false), empty => Ok(true), otherwise exactly one of KeepGets (sent) / DropGets (send error or queue full) with delta keys.len()",
              "a flushed batch is not accounted exactly once as kept or dropped: %s" % why)
    # the batch that is sent is the parameter
    ss = send_sites(pb)
    ok = len(ss) >= 1 and all(ch == norm(F(V("self"), "items_tx")) and pay == keys for _, _, ch, pay in ss)
    rep.check(ok, "R15.3", fl, pb, "send(keys)", "the batch is sent on items_tx", "push does not send its batch on items_tx")


def check_C16_keys(rep, fl):
    """Only the key-plumbing instances (R18.3) of the C16 walk over Cache::try_update."""
    from framework import Report
    tmp = Report(rep.prop, rep.tier)
    check_C16(tmp, fl)
    rep.instances.extend(i for i in tmp.instances if i.rule == "R18.3")
