"""Re-run every quick check against every seeded change under /verif/seeded and refresh the
`checks_fired` / `caught` fields of their meta.json (and print a table).

    python3 engine/seedsweep.py [name-substring ...]
"""
import json
import os
import re
import subprocess
import sys

VERIF = os.path.dirname(os.path.dirname(os.path.abspath(__file__)))


def main():
    filt = sys.argv[1:]
    base = os.path.join(VERIF, "seeded")
    rows = []
    for name in sorted(os.listdir(base)):
        d = os.path.join(base, name)
        patch = os.path.join(d, "patch.diff")
        if not os.path.exists(patch) or (filt and not any(f in name for f in filt)):
            continue
        r = subprocess.run([sys.executable, os.path.join(VERIF, "engine", "seedcheck.py"), patch], stdout=subprocess.PIPE, stderr=subprocess.STDOUT, text=True)
        m = re.search(r'\{"fired": .*\}', r.stdout)
        fired = json.loads(m.group(0))["fired"] if m else {"?": [r.stdout[-300:]]}
        mp = os.path.join(d, "meta.json")
        meta = json.load(open(mp)) if os.path.exists(mp) else {}
        meta["checks_fired"] = fired
        meta["caught"] = bool(fired)
        json.dump(meta, open(mp, "w"), indent=1)
        own = meta.get("property")
        rows.append((name, own, own in fired, sorted(fired)))
        print("%-45s target=%s caught_by_target=%s fired=%s" % (name, own, own in fired, {k: v[:3] for k, v in fired.items()}))
    print("%d seeded changes, %d caught, %d caught by their own property's check" % (len(rows), sum(1 for r in rows if r[3]), sum(1 for r in rows if r[2])))


if __name__ == "__main__":
    main()
