"""Re-run every quick check against every seeded change under /verif/seeded and refresh the
`checks_fired` / `caught` fields of their meta.json.

    python3 engine/seedsweep.py [-j N] [--in-repo] [name-substring ...]

By default each patch is applied to its own scratch copy of /repo's working tree (outside /repo and
/verif, removed afterwards), so several run at once and /repo is never touched.  With --in-repo the
documented one-at-a-time procedure is used instead (engine/seedcheck.py: git -C /repo apply, run the
checks, git -C /repo checkout -- .)."""
import json
import os
import re
import shutil
import subprocess
import sys
import concurrent.futures as cf

VERIF = os.path.dirname(os.path.dirname(os.path.abspath(__file__)))
sys.path.insert(0, os.path.join(VERIF, "engine"))
import registry  # noqa: E402
import selftest  # noqa: E402


def fired_in_scratch(patch):
    d = selftest.make_scratch()
    try:
        r = subprocess.run(["patch", "-p1", "-s", "-i", patch], cwd=d, stdout=subprocess.PIPE, stderr=subprocess.STDOUT, text=True)
        if r.returncode != 0:
            return {"?": ["patch does not apply: " + r.stdout[-200:]]}
        fired = {}
        for p in sorted(registry.PROPS):
            rc, out = selftest.run_check(d, p)
            if rc != 0:
                rules = sorted(set(re.findall(r"^\s+(?:VIOLATION|ANCHOR-MISSING) (\S+) ", out, re.M)))
                if "FATAL" in out:
                    rules.append("FATAL")
                fired[p] = rules or ["exit1"]
        return fired
    finally:
        shutil.rmtree(d, ignore_errors=True)


def fired_in_repo(patch):
    r = subprocess.run([sys.executable, os.path.join(VERIF, "engine", "seedcheck.py"), patch], stdout=subprocess.PIPE, stderr=subprocess.STDOUT, text=True)
    m = re.search(r'\{"fired": .*\}', r.stdout)
    return json.loads(m.group(0))["fired"] if m else {"?": [r.stdout[-300:]]}


def main():
    args = sys.argv[1:]
    j = 4
    if "-j" in args:
        i = args.index("-j")
        j = int(args[i + 1])
        del args[i:i + 2]
    in_repo = "--in-repo" in args
    filt = [a for a in args if not a.startswith("-")]
    base = os.path.join(VERIF, "seeded")
    names = [n for n in sorted(os.listdir(base)) if os.path.exists(os.path.join(base, n, "patch.diff")) and (not filt or any(f in n for f in filt))]
    rows = []

    def one(name):
        patch = os.path.join(base, name, "patch.diff")
        return name, (fired_in_repo(patch) if in_repo else fired_in_scratch(patch))
    with cf.ThreadPoolExecutor(1 if in_repo else j) as ex:
        for name, fired in ex.map(one, names):
            mp = os.path.join(base, name, "meta.json")
            meta = json.load(open(mp)) if os.path.exists(mp) else {}
            meta["checks_fired"] = fired
            meta["caught"] = bool(fired)
            json.dump(meta, open(mp, "w"), indent=1)
            own = meta.get("property")
            rows.append((name, own, own in fired, sorted(fired)))
            print("%-45s target=%s caught_by_target=%s fired=%s" % (name, own, own in fired, {k: v[:3] for k, v in fired.items()}), flush=True)
    print("%d seeded changes, %d caught, %d caught by their own property's check" % (len(rows), sum(1 for r in rows if r[3]), sum(1 for r in rows if r[2])))


if __name__ == "__main__":
    main()
