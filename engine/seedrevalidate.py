"""Re-validate every filed seeded change against /repo's current HEAD (after a fix: commit moved it).

    python3 engine/seedrevalidate.py [-j N] [name-substring ...]

For each /verif/seeded/<name>: a scratch git worktree of /repo at HEAD (under /tmp, removed at the
end) receives the filed patch, demonstration and meta.json as seed/, and engine/seedconfirm.py is
run on it with SEED_NO_CHECK=1 (build x3, pinned suite passes with the change, demonstration fails
with it and passes without).  Seeds that no longer validate are listed; nothing is deleted."""
import json
import os
import shutil
import subprocess
import sys
import concurrent.futures as cf
import queue

VERIF = os.path.dirname(os.path.dirname(os.path.abspath(__file__)))


def main():
    args = sys.argv[1:]
    j = 3
    if "-j" in args:
        i = args.index("-j")
        j = int(args[i + 1])
        del args[i:i + 2]
    names = sorted(n for n in os.listdir(os.path.join(VERIF, "seeded")) if os.path.isdir(os.path.join(VERIF, "seeded", n)) and (not args or any(a in n for a in args)))
    pool = queue.Queue()
    wts = []
    for i in range(j):
        wt = "/tmp/rv-wt-%d" % i
        subprocess.run(["git", "-C", "/repo", "worktree", "remove", "--force", wt], stdout=subprocess.DEVNULL, stderr=subprocess.DEVNULL)
        shutil.rmtree(wt, ignore_errors=True)
        subprocess.run(["git", "-C", "/repo", "worktree", "add", "--detach", wt, "HEAD"], check=True, stdout=subprocess.DEVNULL, stderr=subprocess.DEVNULL)
        pool.put(wt)
        wts.append(wt)

    def one(name):
        wt = pool.get()
        try:
            seed = os.path.join(wt, "seed")
            shutil.rmtree(seed, ignore_errors=True)
            shutil.copytree(os.path.join(VERIF, "seeded", name), seed)
            subprocess.run("git checkout -- . && rm -rf tests/demo_*", cwd=wt, shell=True)
            r = subprocess.run([sys.executable, os.path.join(VERIF, "engine", "seedconfirm.py"), wt, name], stdout=subprocess.PIPE, stderr=subprocess.STDOUT, text=True,
                               env=dict(os.environ, SEED_NO_CHECK="1", SEED_KEEP_FIRED="1"))
            last = r.stdout.strip().splitlines()[-1] if r.stdout.strip() else ""
            ok = r.returncode == 0 and last.startswith("filed under")
            print("%-50s %s" % (name, "ok" if ok else "INVALID: " + r.stdout.strip()[-300:]), flush=True)
            return name, ok
        finally:
            subprocess.run("git checkout -- . && rm -rf tests/demo_* seed", cwd=wt, shell=True)
            pool.put(wt)

    try:
        with cf.ThreadPoolExecutor(j) as ex:
            res = list(ex.map(one, names))
    finally:
        for wt in wts:
            subprocess.run(["git", "-C", "/repo", "worktree", "remove", "--force", wt], stdout=subprocess.DEVNULL, stderr=subprocess.DEVNULL)
            shutil.rmtree(wt, ignore_errors=True)
    bad = [n for n, ok in res if not ok]
    print("%d seeds, %d valid, invalid: %s" % (len(res), len(res) - len(bad), bad))
    return 1 if bad else 0


if __name__ == "__main__":
    sys.exit(main())
