"""C08: every value leaves the cache through exactly one callback.
R08.1 no silent drop (move analysis on mir_built: live implicit drops of V-bearing values),
R08.2 routing table of the three callbacks, R08.3 no duplication / leak primitive,
R08.4 resident values are dropped without callback only by ShardedMap::clear."""
import re
from cachelib import *
import props_store
import props_life

SM = "store::ShardedMap"
V_RE = re.compile(r"(?<![A-Za-z0-9_])V(?![A-Za-z0-9_])")


NOT_OWNERS = ("&", "*", "std::sync::Arc<", "parking_lot::", "crossbeam_channel::Sender", "crossbeam_channel::Receiver", "async_channel::Sender", "async_channel::Receiver",
              "cache::sync::Cache<", "cache::r#async::AsyncCache<", "cache::sync::CacheProcessor<", "cache::r#async::CacheProcessor<", "cache::sync::CacheCleaner<", "cache::r#async::CacheCleaner<",
              "cache::sync::CacheBuilder<", "cache::r#async::AsyncCacheBuilder<", "cache::builder::CacheBuilderCore<", "store::ShardedMap<", "std::collections::HashMap<", "std::boxed::Box<[",
              "utils::ValueRef", "std::marker::PhantomData", "std::pin::Pin<", "{closure", "{async", "std::thread::JoinHandle", "std::boxed::Box<dyn", "std::future::", "futures",
              "std::task::", "DefaultCoster", "DefaultUpdateValidator", "DefaultCacheCallback", "std::iter::", "std::slice::", "std::collections::hash_map::", "[parking_lot", "std::mem::",
              "async_channel::Send<", "async_channel::Recv<", "std::result::Result<cache::sync::Cache<", "std::result::Result<cache::r#async::AsyncCache<",
              "std::ops::ControlFlow<std::result::Result<std::convert::Infallible, error::CacheError>, policy", "fn(", "for<")


def v_bearing(ty):
    """Does a local of this type own a cache value (V or a struct / enum / wrapper holding one)?"""
    if not V_RE.search(ty):
        return False
    if "utils::ValueRef" in ty:
        return False  # a borrow of a resident value, not an owner
    for p in NOT_OWNERS:
        if ty.startswith(p):
            return False
    return True


def proj_key(pl):
    return tuple(p.partition("@")[0] for p in pl["p"] if p != "*")


def moves_in(node):
    """(local, projection tuple) of every `move place` operand of a statement / terminator."""
    out = []

    def op(o):
        if isinstance(o, dict) and o.get("k") == "move":
            out.append((o["pl"]["l"], proj_key(o["pl"]), "*" in o["pl"]["p"]))
    if node["k"] == "assign":
        rv = node["rv"]
        for key in ("op", "a", "b"):
            op(rv.get(key))
        for f in rv.get("fields", []):
            op(f)
    elif node["k"] == "call":
        for a in node["args"]:
            op(a)
    elif node["k"] == "yield":
        op(node.get("v"))
    return out


def switch_discr_place(body, bi):
    """The place whose discriminant the switch at the end of block bi tests (or None)."""
    t = body.term(bi)
    if not t or t["k"] != "switch" or t["d"].get("k") not in ("move", "copy") or t["d"]["pl"]["p"]:
        return None
    l = t["d"]["pl"]["l"]
    ds = body.defs.get(l, [])
    if len(ds) != 1:
        return None
    dbi, dsi = ds[0]
    bb = body.blocks[dbi]
    if dsi >= len(bb["stmts"]):
        return None
    st = bb["stmts"][dsi]
    if st["k"] == "assign" and st["rv"]["k"] == "discr":
        return st["rv"]["pl"]
    return None


def _iterator_of_next(body, l):
    """If local l is defined by `Iterator::next(&mut it)` return the local `it`."""
    ds = body.defs.get(l, [])
    if len(ds) != 1:
        return None
    bi, si = ds[0]
    bb = body.blocks[bi]
    if si != len(bb["stmts"]) or not bb["term"] or bb["term"]["k"] != "call" or not callee_matches(body.callee_of(bb["term"]), "Iterator::next"):
        return None
    a = bb["term"]["args"][0]
    if a.get("k") not in ("move", "copy") or a["pl"]["p"]:
        return None
    cur = a["pl"]["l"]
    for _ in range(4):
        rd = body.defs.get(cur, [])
        if len(rd) != 1:
            return None
        rb, rs = rd[0]
        rbb = body.blocks[rb]
        if rs >= len(rbb["stmts"]):
            return None
        st = rbb["stmts"][rs]
        if st["k"] != "assign":
            return None
        rv = st["rv"]
        if rv["k"] == "ref" and not rv["pl"]["p"]:
            return rv["pl"]["l"]
        if rv["k"] == "ref" and rv["pl"]["p"] == ["*"]:
            cur = rv["pl"]["l"]  # reborrow `&mut *r`
            continue
        if rv["k"] == "use" and rv["op"].get("k") in ("move", "copy") and not rv["op"]["pl"]["p"]:
            cur = rv["op"]["pl"]["l"]
            continue
        return None
    return None


def enum_variant_has_v(facts, ty, variant):
    base = strip_generics(ty.split("<")[0]) if "<" in ty else ty
    if base.endswith("option::Option"):
        return variant == "Some"
    if base.endswith("result::Result") or base.endswith("ops::ControlFlow"):
        # which side carries V: split generic args at top level
        inner = ty[ty.index("<") + 1: -1] if "<" in ty else ""
        parts = []
        d = 0
        cur = ""
        for ch in inner:
            if ch == "<" or ch == "(" or ch == "[":
                d += 1
            elif ch == ">" or ch == ")" or ch == "]":
                d -= 1
            if ch == "," and d == 0:
                parts.append(cur)
                cur = ""
            else:
                cur += ch
        parts.append(cur)
        if base.endswith("result::Result"):
            idx = 0 if variant == "Ok" else 1
        else:
            idx = 1 if variant == "Continue" else 0
        return idx < len(parts) and bool(V_RE.search(parts[idx]))
    a = facts.adts.get(base)
    if a and a["kind"] == "Enum":
        for v in a["variants"]:
            if v["name"] == variant:
                return any(V_RE.search(f["ty"]) for f in v["fields"])
    return True


def live_drops(fl, body, pred=None, track_lits=False):
    """Live implicit drops of V-bearing locals (or of locals whose type satisfies `pred`):
    [(bi, term, local, description of the path)]."""
    facts = fl.facts
    pred = pred or v_bearing
    vlocals = {i for i, l in enumerate(body.locals) if pred(l["ty"])}
    if not vlocals:
        return []

    def node_fn(s, bi, si, node):
        moved = set(s.user or ())
        changed = False
        for l, pk, through_ptr in moves_in(node):
            if l in vlocals and not through_ptr:
                moved.add((l, pk))
                changed = True
        # `v.drain(..)`: every element of v moves into the Drain (which the loop then exhausts); v stays, empty
        if node["k"] == "call" and callee_matches(body.callee_of(node), "Vec::drain") and len(node["args"]) == 2 and "RangeFull" in ((node.get("argtys") or ["", ""])[1]):
            a0 = node["args"][0]
            cur = a0["pl"]["l"] if a0.get("k") in ("move", "copy") and not a0["pl"]["p"] else None
            for _ in range(4):
                rd = body.defs.get(cur, []) if cur is not None else []
                if len(rd) != 1 or rd[0][1] >= len(body.blocks[rd[0][0]]["stmts"]):
                    break
                st_ = body.blocks[rd[0][0]]["stmts"][rd[0][1]]
                rv_ = st_.get("rv") or {}
                if rv_.get("k") == "ref" and not rv_["pl"]["p"]:
                    if rv_["pl"]["l"] in vlocals:
                        moved.add((rv_["pl"]["l"], ()))
                        changed = True
                    break
                if rv_.get("k") == "ref" and rv_["pl"]["p"] == ["*"]:
                    cur = rv_["pl"]["l"]
                    continue
                if rv_.get("k") == "use" and rv_["op"].get("k") in ("move", "copy") and not rv_["op"]["pl"]["p"]:
                    cur = rv_["op"]["pl"]["l"]
                    continue
                break
        # re-initialisation
        tgt = None
        if node["k"] == "assign" and not node["pl"]["p"]:
            tgt = node["pl"]["l"]
        elif node["k"] == "call" and not node["dest"]["p"]:
            tgt = node["dest"]["l"]
        if tgt is not None and tgt in vlocals:
            n2 = {m for m in moved if m[0] != tgt}
            if n2 != moved:
                moved = n2
                changed = True
        if changed:
            return s.with_user(frozenset(moved))
        return None

    def edge_fn(s, bi, tgt, atom, pol):
        # a match on a tracked local that selects a variant without a V inside: from here on the
        # local owns no value (e.g. the Err side of a Result<Item<V>, RecvError>, None, Item::Delete)
        if atom is None or atom[0] != "variant" or not pol:
            return None
        pl = switch_discr_place(body, bi)
        if pl is None or pl["p"]:
            return None
        moved = set(s.user or ())
        n0 = len(moved)
        if atom[2] == "None":
            # `next(&mut it)` returned None: the iterator `it` is exhausted, it owns no value any more
            it = _iterator_of_next(body, pl["l"])
            if it is not None and it in vlocals:
                moved.add((it, ()))
        if pl["l"] in vlocals and pred is v_bearing and not enum_variant_has_v(facts, body.locals[pl["l"]]["ty"], atom[2]):
            moved.add((pl["l"], ()))
        if len(moved) != n0:
            return s.with_user(frozenset(moved))
        return None

    at, entry = dataflow(body, init_user=frozenset(), node_fn=node_fn, edge_fn=edge_fn, max_states=3000 if not track_lits else 20000, track_lits=track_lits)
    out = []
    for bi in body.live_blocks():
        t = body.term(bi)
        if not t or t["k"] != "drop" or t["pl"]["p"]:
            continue
        l = t["pl"]["l"]
        if l not in vlocals:
            continue
        ty = body.locals[l]["ty"]
        live_states = []
        for s in at.get((bi, term_idx(body, bi)), set()):
            moved = set(s.user or ())
            if (l, ()) in moved:
                continue
            # never initialised on this path?  (defs dominate in mir_built except for conditionally assigned locals)
            # partially moved: every V-bearing part gone?
            parts = [pk for (ll, pk) in moved if ll == l and pk]
            es = s
            if parts:
                # a moved V-bearing field: the remainder holds no V when the type has a single V-bearing field per variant
                if any(_field_is_v(facts, ty, pk) for pk in parts):
                    continue
            live_states.append(es)
        if live_states:
            out.append((bi, t, l, live_states))
    return out


def _field_is_v(facts, ty, pk):
    """Does the projection pk (e.g. ('as New', '.3:value')) of type ty reach the V-bearing field?"""
    last = [p for p in pk if p.startswith(".")]
    if not last:
        return False
    name = last[-1].partition(":")[2]
    base = strip_generics(ty.split("<")[0]) if "<" in ty else ty
    a = facts.adts.get(base)
    if a:
        for v in a["variants"]:
            for f in v["fields"]:
                if f["name"] == name and V_RE.search(f["ty"]):
                    return True
        return False
    # tuples / Option / Result payloads: field 0 of the downcast
    return True


# audited live drops: (flavour-neutral function path, local name, type regex) -> reason.
# Exactly the value-bearing implicit drops that are live on some path of today's tree; anything
# else is reported.
INSERT_FALSE = "the item could not be queued (buffer full / processor gone): insert returns false - or true for an Update item, which carries no value; documented DropSets path"
NO_VALUE = "the marker item inside carries no value"
REMNANT = "Option / Result remnant: on the Some / Ok path the payload was moved out, on the other path it holds no value (the move analysis does not track the variant)"
DISAGREE = ("reachable only when an admitted (not yet charged) New item finds its key already resident, i.e. when store and policy disagree (C06); with the pairing rules R06.x holding "
            "the entry is absent, the value is moved into the shard and the returned Option is None")
AUDITED_DROPS = [
    (r"^cache::Cache::wait(::\{closure#\d+\})*$", r"^(e|tmp)$", r"SendError<cache::Item<V>>", NO_VALUE + " (Wait; its token releases in Drop)"),
    (r"^cache::Cache::try_remove(::\{closure#0\})?$", r"^tmp$", r"^std::result::Result<\(\), .*SendError<cache::Item<V>>>$", NO_VALUE + " (Delete)"),
    (r"^cache::Cache::try_insert_in(::\{closure#0\})?$", r"^val$", r"^V$", "closed cache: the value is dropped and insert returns false (never accepted)"),
    (r"^cache::Cache::try_insert_in(::\{closure#\d+\})*$", r"^item$", r"^cache::Item<V>$", INSERT_FALSE),
    (r"^cache::Cache::try_insert_in(::\{closure#\d+\})*$", r"^tmp$", r"SendError<cache::Item<V>>$|^std::option::Option<\(u64, cache::Item<V>\)>$", INSERT_FALSE),
    (r"^cache::CacheProcessor::spawn::\{closure#0\}$", r"^tmp$", r"^std::result::Result<cache::Item<V>, .*RecvError>$", "final drain on the stop arm: close() drops what is still buffered (documented exception; Wait tokens release in Drop)"),
    (r"^cache::CacheProcessor::handle_close_event$", r"^tmp$", r"^std::result::Result<cache::Item<V>, .*RecvError>$", "final drain on the stop arm: close() drops what is still buffered (documented exception)"),
    (r"^cache::Cache::try_update$", r"^v$", r"^V$", "only_update on an absent / vetoed / conflicting key: insert_if_present returns false, the value was never accepted"),
    (r"^store::ShardedMap::try_insert$", r"^tmp$", r"^std::option::Option<store::StoreItem<V>>$", "the entry overwritten by shard.insert: " + DISAGREE),
    (r"^store::ShardedMap::try_insert$", r"^val$", r"^V$", "the early returns (conflict mismatch / validator veto on an existing entry): " + DISAGREE),
    (r"^store::ShardedMap::try_update$", r"^val$", r"^V$", "every Ok return moves `val` into the UpdateResult; the scope-end drop is live only on the error path of the infallible em.try_update (R06.5)"),
    (r"^store::ShardedMap::try_cleanup$", r"^(removed_item|removed_items|tmp)$", r"store::StoreItem<V>|Item<V>", REMNANT + "; swept values are moved into the returned Items; the Vec is dropped only on the error path of infallible callees (R06.5)"),
    (r"^<DefaultCacheCallback<V> as CacheCallback>::on_exit$", r"^_val$", r"^std::option::Option<V>$", "the default callback is the sink: it drops the value it is given"),
]


def neutral_fn(spath):
    for a, b in (("cache::r#async::", "cache::"), ("cache::sync::", "cache::"), ("AsyncCache", "Cache"), ("try_cleanup_async", "try_cleanup")):
        spath = spath.replace(a, b)
    return spath


def check_live_drops(rep, fl, rule="R08.1"):
    facts = fl.facts
    other = "r#async" if fl.name == "sync" else "::sync::"
    n = 0
    n_bodies = 0
    used = set()
    for b in facts.bodies:
        if not user_code(b) or other in b.spath:
            continue
        try:
            drops = live_drops(fl, b)
        except TooManyStates as e:
            rep.note("R08.1: %s not analysed (%s)" % (b.spath, e))
            continue
        n_bodies += 1
        for bi, t, l, states in drops:
            n += 1
            ty = b.locals[l]["ty"]
            name = b.local_name.get(l) or "tmp"
            why = None
            nfn = neutral_fn(b.spath)
            # (the coroutine of an async helper that a refactoring split off belongs to the function it was split from)
            nroot = neutral_fn(strip_generics(b.raw.get("root") or b.spath))
            nty = neutral_ty(ty)
            for i_, (fre, nre, tre, reason) in enumerate(AUDITED_DROPS):
                # the local's name is consulted only to tell bare `V` locals of one function apart
                if (re.search(fre, nfn) or (b.is_closure and nroot != nfn and re.search(fre, nroot))) and (nty != "V" or re.search(nre, name)) and re.search(tre, nty):
                    why = reason
                    used.add(i_)
                    break
            if why is None and nty == "V" and 1 <= l <= b.arg_count and re.search(r"^cache::Cache::(try_insert_in|try_update)$", nfn):
                # the value handed to an insert, dropped where the closed flag has just been read as set: the same documented
                # path as the audited `val` of try_insert_in, wherever in the insert's two functions the test is written
                import props_life as _pl
                try:
                    sts_ = [expand_state(b, s_, hist=True) for bi2, t2, l2, st2 in live_drops(fl, b, track_lits=True) if (bi2, l2) == (bi, l) for s_ in st2]
                except TooManyStates:
                    sts_ = []
                if sts_ and all([v_ for a_, v_ in s_.lits if _pl.is_closed_lit(a_)] == [True] for s_ in sts_):
                    why = "closed cache: the value is dropped and insert returns false (never accepted)"
            site = "drop %s: %s" % (name, neutral_ty(ty))
            if why:
                rep.ok(rule, fl, b, site, "audited: " + why, loc=t["sp"])
            else:
                rep.bad(rule, fl, b, site, "a value-bearing `%s` (%s) can be dropped here without reaching a callback, the store or a documented `insert -> false` path (e.g. when %s)" % (
                    name, ty, "moved so far: %s" % sorted(states[0].user or ())), loc=t["sp"])
    unused = [i for i in range(len(AUDITED_DROPS)) if i not in used]
    if unused:
        rep.note("R08.1 %s: audited entries that matched no live drop: %s" % (fl.cfg, ["%s/%s" % (AUDITED_DROPS[i][0], AUDITED_DROPS[i][1]) for i in unused]))
    if n_bodies < 100:
        rep.missing(rule, fl, "only %d bodies analysed for live drops" % n_bodies)
    rep.note("R08.1 %s: %d bodies analysed, %d live value-bearing drops, all audited or reported" % (fl.cfg, n_bodies, n))


def neutral_ty(ty):
    return ty.replace("cache::r#async::", "cache::").replace("cache::sync::", "cache::")


# ----------------------------------------------------------------------------------------
# R08.2 routing table
# ----------------------------------------------------------------------------------------

def check_routing(rep, fl, rule="R08.2"):
    facts = fl.facts
    other = "r#async" if fl.name == "sync" else "::sync::"
    sites = {"on_exit": [], "on_evict": [], "on_reject": []}
    for b in facts.bodies:
        if not user_code(b) or other in b.spath:
            continue
        for bi, t in b.calls():
            c = b.callee_of(t)
            for m in sites:
                if callee_matches(c, "CacheCallback::" + m):
                    sites[m].append((b, bi, t))
    # a call that sits in a closure handed to a std combinator (`res.map(|removed| .. on_exit(..))`) is looked at in
    # the enclosing function with the closure spliced in, where its argument is in the function's own terms
    for m in sites:
        for i_, (b, bi, t) in enumerate(sites[m]):
            rb_ = facts.body(strip_generics(b.raw["root"]), required=False)
            for cand in (b, rb_):   # the body itself (a coroutine's), then the function that owns the closure
                fb_ = facts.flat(cand) if cand is not None else None
                if fb_ is None or fb_ is cand:
                    continue
                same = [(x, tt) for x, tt in fb_.calls() if tt.get("sp") == t.get("sp") and callee_matches(fb_.callee_of(tt), "CacheCallback::" + m)]
                if len(same) == 1:
                    sites[m][i_] = (fb_, same[0][0], same[0][1])
                    break
    expect = {
        "on_exit": {fl.cache + "::try_update", fl.cache + "::try_remove", fl.processor + "::handle_item", "CacheCallback::on_evict", "CacheCallback::on_reject"},
        "on_evict": {fl.processor + "::handle_item", fl.processor + "::handle_cleanup_event", fl.cleaner + "::handle_item"},
        "on_reject": {fl.processor + "::handle_item"},
    }
    for m, lst in sorted(sites.items()):
        roots = {strip_generics(b.raw["root"]) for b, bi, t in lst}
        extra = roots - expect[m]
        missing = expect[m] - roots
        rep.check(not extra and not missing, rule, fl, "CacheCallback::" + m, "callers", "%s is called from %s only" % (m, sorted(short(r) for r in roots)),
                  "callers of %s are %s (unexpected %s, missing %s): a value can reach a callback it should not (or a second one)" % (m, sorted(roots), sorted(extra), sorted(missing)))
    # value provenance per site
    for b, bi, t in sites["on_exit"]:
        root = strip_generics(b.raw["root"])
        a = [resolve_payloads(b, x) for x in b.call_args(t)]
        v = a[1]
        if root == fl.cache + "::try_update":
            ok = v[0] == "agg" and v[2].endswith("Option::Some") and v[3][0][0] == "field" and v[3][0][1][0] == "downcast" and v[3][0][1][2] == "Update"
            desc = "Update(old value)"
        elif root == fl.cache + "::try_remove":
            ok = v[0] == "agg" and v[2].endswith("Option::Some") and is_call(v[3][0], "SharedValue::into_inner") and any(is_call(c, SM + "::try_remove") for c in calls_in(v))
            desc = "the entry removed by store.try_remove"
        elif root == fl.processor + "::handle_item":
            ok = v[0] == "agg" and v[2].endswith("Option::Some") and is_call(v[3][0], "SharedValue::into_inner") and any(is_call(c, SM + "::try_remove") and norm(c[2][1]) == item_field("Delete", "key") for c in calls_in(v))
            desc = "the entry removed for the Delete item"
        else:
            ok = v == norm(F(V("item"), "val"))
            desc = "default method forwards item.val"
        rep.check(ok, rule, fl, b, "on_exit value", "on_exit receives %s" % desc, "on_exit is given %s" % show(v), loc=t["sp"])
    for b, bi, t in sites["on_reject"]:
        a = [norm(x) for x in b.call_args(t)]
        f = agg_fields(a[1])
        ok = f.get("val", ("x",))[0] == "agg" and f["val"][2].endswith("Option::Some") and f["val"][3][0] == item_field("New", "value")
        rep.check(ok, rule, fl, b, "on_reject value", "on_reject receives the refused item's own value", "on_reject is given %s" % show(f.get("val", ())), loc=t["sp"])
        # only on the not-added edge
        at, entry = dataflow(b)
        adds = calls_to(b, fl.policy + "::add")
        if adds:
            added = ("field", norm(b.call_expr(adds[0][1], True)), "1")
            good, cx = all_states(b, at, (bi, term_idx(b, bi)), NOT(A(added)), hist=True)
            rep.check(good, rule, fl, b, "on_reject only if not added", "on_reject only for items the policy did not admit", "on_reject reachable for an admitted item: the value is both resident and handed back", loc=t["sp"])
    # processor.on_evict(item): victims found in the store
    hi = fl.facts.flat(fl.proc_fn("handle_item"))
    evs = calls_to(hi, "CacheCallback::on_evict")
    pes = calls_to(hi, fl.processor + "::prepare_evict")
    ok = len(evs) == 1
    if ok:
        a = [norm(x) for x in hi.call_args(evs[0][1])]
        f = agg_fields(norm(hi.expand(a[1])))
        v = f.get("val", ("x",))
        ok = v[0] == "agg" and v[2].endswith("Option::Some") and is_call(v[3][0], "SharedValue::into_inner") and any(is_call(c, SM + "::try_remove") for c in calls_in(v))
        at, entry = dataflow(hi)
        sts = [expand_state(hi, s, hist=True) for s in at.get((evs[0][0], term_idx(hi, evs[0][0])), set())]
        ok = ok and sts and all(any(x[0] == "variant" and x[2] == "Some" and val and any(is_call(c, SM + "::try_remove") for c in calls_in(x[1])) for x, val in s.lits) for s in sts)
    rep.check(ok, rule, fl, hi, "on_evict(victim found in the store)", "a victim is handed to on_evict only when store.try_remove found it, with the removed value", "victim eviction does not hand exactly the removed value to on_evict")
    # the same item goes through prepare_evict first (metrics / life expectancy), then to the callback, once
    ok = len(evs) == 1 and len(pes) == 1
    if ok:
        ea = norm(hi.expand(norm(hi.call_args(evs[0][1])[1])))
        pa = norm(hi.expand(norm(hi.call_args(pes[0][1])[1])))
        # prepare_evict(&item), or prepare_evict(item.index) for the same item
        same = ea == pa or pa == norm(("field", ea, "index")) or (ea[0] == "agg" and agg_fields(ea).get("index") is not None and norm(agg_fields(ea)["index"]) == pa)
        ok = same and block_dominates(hi, pes[0][0], evs[0][0]) and must_pass_through(hi, [evs[0][0]], from_bi=pes[0][0])
    rep.check(ok, rule, fl, hi, "forwards item", "the evicted item goes through prepare_evict and then to callback.on_evict, once", "the evicted item is not handed to prepare_evict and callback.on_evict exactly once")


def check_no_dup(rep, fl, rule="R08.3"):
    facts = fl.facts
    hits = leak_or_dup_calls(facts)
    rep.check(not hits, rule, fl, "crate", "no duplication / leak primitive", "no ptr::read / transmute_copy / mem::zeroed / ManuallyDrop / mem::forget in the crate: values are affine (V has no Clone bound)",
              "%s in %s: a value can be duplicated or leaked outside the type system's move discipline" % (hits[0][3] if hits else "", hits[0][0].spath if hits else ""),
              loc=hits[0][2]["sp"] if hits else None)
    # SharedValue::as_ptr is used by get_mut only; change_lifetime_const by get only
    for helper, allowed in (("SharedValue::as_ptr", {SM + "::get_mut"}), ("utils::change_lifetime_const", {SM + "::get"}), ("utils::change_lifetime_mut", set())):
        users = {strip_generics(b.raw["root"]) for b in facts.bodies for bi, t in b.calls() if callee_matches(b.callee_of(t), helper)}
        users = {u for u in users if not u.startswith("utils::")}
        rep.check(users <= allowed, rule, fl, helper, "users", "%s is used by %s only" % (helper, sorted(allowed) or "nobody"), "%s is also used in %s" % (helper, sorted(users - allowed)))
    # the sinks take V by value (signatures of the default callback and of SharedValue::into_inner)
    for fn in ("<DefaultCacheCallback<V> as CacheCallback>::on_exit", "utils::SharedValue::into_inner"):
        c = facts.by_spath.get(fn, [])
        sig = c[0].raw.get("sig", "") if c else ""
        args = sig.split("->")[0]
        last = args.split(",")[-1] if "," in args else args.split("(")[-1]
        rep.check(bool(c) and "&" not in last, rule, fl, fn, "by value", "%s takes its value by value (%s)" % (short(fn), sig), "%s signature is `%s`" % (fn, sig))


def check_clear_drops(rep, fl, rule="R08.4"):
    facts = fl.facts
    sites = {}
    for b in facts.bodies:
        for bi, t, m in props_store.map_calls(b, props_store.SHARD_TY, "clear", "drain", "retain", "remove_entry", "extract_if"):
            sites.setdefault(strip_generics(b.raw["root"]), set()).add(m)
    rep.check(set(sites) == {SM + "::clear"}, rule, fl, "shard clear sites", "only ShardedMap::clear", "resident values are dropped without a callback only by ShardedMap::clear (the documented clear()/close() exception)",
              "entries are bulk-dropped in %s" % sorted(sites))
    callers = {strip_generics(b.raw["root"]) for b in facts.bodies if calls_to(b, SM + "::clear")}
    callers = {c for c in callers if ("r#async" if fl.name == "sync" else "::sync::") not in c}
    rep.check(callers == {fl.processor + "::handle_clear_event"}, rule, fl, SM + "::clear", "callers", "ShardedMap::clear is reached only from the processor's clear handler, i.e. from clear() requests (close() goes through clear())", "ShardedMap::clear is called from %s" % sorted(callers))


def check_C08(rep, fl):
    check_routing(rep, fl)
    check_no_dup(rep, fl)
    check_clear_drops(rep, fl)
    check_live_drops(rep, fl)
    # a New item that clear() discards from the buffer is handed to on_evict (how far the drain goes is C11's)
    props_store.keep_sites(rep, fl, props_life.check_cleaner, ("buffered New => on_evict", "drain loop"))
    props_life.check_remove_pair(rep, fl)
    props_store.check_store_writes(rep, fl)
    props_life.check_no_err_between(rep, fl)
    # the audited drop in ShardedMap::try_insert (the entry overwritten by shard.insert) is dead only
    # while the processor inserts exactly the entries the policy has just admitted: premise R06.2
    props_life.check_handle_item_pairing(rep, fl, collisions=False)
    # ... and the policy admits (answers `added` for) a key it does not track only: SampledLFU::update tells add() whether
    # the key is tracked, and says `no` only where the cost table has no entry for it (R01.3)
    import props_policy as _pp
    props_store.keep_sites(rep, fl, _pp.check_update_tells_tracked, ("false iff untracked",))
    # expired values leave through on_evict: the sweeper reports every entry it takes out, with its value, and
    # examines every key the expiry index has handed over (and forgotten)
    props_store.check_sweeper(rep, fl)
    # ... which presupposes that the entry is filed under a bucket that comes due only after its deadline, and that
    # a due bucket is handed over whole (C05's rules on the expiry index)
    props_store.check_buckets(rep, fl)
    props_store.check_em_insert(rep, fl)
    props_store.check_em_update(rep, fl)
    props_store.check_em_remove(rep, fl)
    props_store.check_em_cleanup(rep, fl)
    # ... and that the sweep runs at all, from the start and for every way an entry can get its TTL: the ticker is
    # created before the loop, its arm calls the handler, every swept item goes to on_evict once
    props_store.check_tick(rep, fl)
