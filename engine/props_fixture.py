"""Positive fixtures: the zero-expected matchers must fire on /verif/fixtures (analysed with the
same extractor).  A matcher that no longer fires there makes the check fail closed."""
from cachelib import *
import factsrun
import props_locks


class FixtureFlavour:
    name = "fixture"
    cfg = "fixture/fixture"

    def __init__(self, facts):
        self.facts = facts


def fixture_facts():
    return Facts(factsrun.build_fixture_facts())


def check_fixture(rep, which):
    """which: subset of {'leak', 'locks', 'unwrap'}"""
    facts = fixture_facts()
    fl = FixtureFlavour(facts)
    for b in facts.bodies:
        b.span["f"] = "src/" + b.span["f"].split("src/")[-1]  # fixture code counts as repository code
        for bb in b.blocks:
            t = bb["term"]
            if t and "sp" in t:
                t["sp"]["f"] = "src/" + t["sp"]["f"].split("src/")[-1]
    if "leak" in which:
        hits = {n for b, bi, t, n in leak_or_dup_calls(facts)}
        ok = {"ptr::read", "mem::forget", "ManuallyDrop::new"} <= hits
        if not ok:
            rep.missing("fixture", fl, "leak/duplication matcher found only %s in the fixture (expected ptr::read, mem::forget, ManuallyDrop::new)" % sorted(hits))
        else:
            rep.ok("fixture", fl, "leak_and_dup", "leak/dup matcher", "the leak / duplication matcher reports ptr::read, mem::forget and ManuallyDrop::new in the fixture")
    if "locks" in which:
        from framework import Report
        tmp = Report("fixture", "quick")
        props_locks.check_lock_order(tmp, fl, rule="RX")
        cyc = [i for i in tmp.instances if i.verdict == "violation" and "cycle" in i.detail]
        blk = [i for i in tmp.instances if i.verdict == "violation" and "block" in i.site]
        if not cyc or not blk:
            rep.missing("fixture", fl, "lock matcher: cycle reported=%s, blocking-under-lock reported=%s on the fixture" % (bool(cyc), bool(blk)))
        else:
            rep.ok("fixture", fl, "lock_ab/lock_ba/recv_under_lock", "lock matcher", "the lock-order analysis reports the a<->b cycle and the receive under a lock in the fixture")
    if "unwrap" in which:
        res, reason = may_err(facts)
        me = MayErr(facts)
        me.memo.update(res)
        b = facts.body("unwraps")
        found = False
        for bi, t in b.calls():
            if callee_matches(b.callee_of(t), "Result::unwrap"):
                found = me.errish(norm(b.call_args(t)[0]), b) is not None
        if not found or not res.get("fallible"):
            rep.missing("fixture", fl, "may-Err matcher does not flag unwrap(fallible(x)) in the fixture")
        else:
            rep.ok("fixture", fl, "unwraps", "may-Err matcher", "the may-Err analysis flags unwrap() of a constructible Err in the fixture")
