//! K11 compile-fail witnesses: ownership / borrow facts of stretto's public API that the type
//! system already enforces.  Each witness is a `compile_fail,E0xxx` doctest (checked with the
//! error code on nightly) paired with a compiling twin that differs only by the offending line,
//! so a witness cannot pass merely because its paths are wrong.
//!
//! Run by `./check <C02|C08|C18> --tier thorough` through `engine/witness.py`
//! (`cargo +nightly test --doc --offline`, stretto taken by path from the tree under analysis).

/// W1 (C02 / R02.3): a `&V` obtained from `ValueRef::value()` cannot outlive the `ValueRef`
/// (which holds the shard read lock).
///
/// ```compile_fail,E0597
/// let c: stretto::Cache<u64, u64> = stretto::Cache::new(100, 100).unwrap();
/// let r: &u64 = {
///     let v = c.get(&1).unwrap();
///     v.value() // borrowed value does not live long enough
/// };
/// println!("{}", r);
/// ```
///
/// Twin (compiles):
/// ```no_run
/// let c: stretto::Cache<u64, u64> = stretto::Cache::new(100, 100).unwrap();
/// let v = c.get(&1).unwrap();
/// let r: &u64 = v.value();
/// println!("{}", r);
/// ```
pub struct W1ValueRefBorrow;

/// W2 (C02 / R02.3): a `ValueRefMut` cannot be used after `release()` (it is consumed).
///
/// ```compile_fail,E0382
/// let c: stretto::Cache<u64, u64> = stretto::Cache::new(100, 100).unwrap();
/// let mut v = c.get_mut(&1).unwrap();
/// v.release();
/// v.write(2); // use of moved value
/// ```
///
/// Twin (compiles):
/// ```no_run
/// let c: stretto::Cache<u64, u64> = stretto::Cache::new(100, 100).unwrap();
/// let mut v = c.get_mut(&1).unwrap();
/// v.write(2);
/// v.release();
/// ```
pub struct W2ValueRefMutReleased;

/// W3 (C18 / R18.1): `TransparentKeyBuilder` accepts only `TransparentKey` types (the listed
/// integer types), so "every key maps to itself" cannot be claimed for, say, `String`.
///
/// ```compile_fail,E0277
/// let _kb = stretto::TransparentKeyBuilder::<String>::default();
/// ```
///
/// Twin (compiles):
/// ```no_run
/// let _kb = stretto::TransparentKeyBuilder::<u64>::default();
/// ```
pub struct W3TransparentKeyOnly;

/// W4 (C08 / R08.3): `insert` takes the value by value: the caller cannot keep (a second copy
/// of) it, so a value handed to a callback later is the only one.
///
/// ```compile_fail,E0382
/// let c: stretto::Cache<u64, String> = stretto::Cache::new(100, 100).unwrap();
/// let v = String::from("x");
/// c.insert(1, v, 1);
/// drop(v); // use of moved value
/// ```
///
/// Twin (compiles):
/// ```no_run
/// let c: stretto::Cache<u64, String> = stretto::Cache::new(100, 100).unwrap();
/// let v = String::from("x");
/// c.insert(1, v, 1);
/// ```
pub struct W4InsertMovesValue;

/// W5 (C02 / R02.3): a `ValueRef` borrows from the cache handle: it cannot outlive it.
///
/// ```compile_fail,E0597
/// let v = {
///     let c: stretto::Cache<u64, u64> = stretto::Cache::new(100, 100).unwrap();
///     c.get(&1) // `c` does not live long enough
/// };
/// drop(v);
/// ```
///
/// Twin (compiles):
/// ```no_run
/// let c: stretto::Cache<u64, u64> = stretto::Cache::new(100, 100).unwrap();
/// let v = c.get(&1);
/// drop(v);
/// ```
pub struct W5ValueRefOutlivesCache;

/// W6 (C08 / R08.3): values need not be `Clone`: the cache works for a move-only type, so it
/// cannot be duplicating values internally through `Clone`.
///
/// ```no_run
/// struct MoveOnly(u64);
/// let c: stretto::Cache<u64, MoveOnly> = stretto::Cache::new(100, 100).unwrap();
/// c.insert(1, MoveOnly(7), 1);
/// let _ = c.get(&1).map(|v| v.value().0);
/// ```
///
/// and the value cannot be copied out of a `ValueRef` of a non-`Copy` type:
/// ```compile_fail,E0599
/// struct MoveOnly(u64);
/// let c: stretto::Cache<u64, MoveOnly> = stretto::Cache::new(100, 100).unwrap();
/// let v = c.get(&1).unwrap();
/// let _owned: MoveOnly = v.read(); // `read` exists only for V: Copy
/// ```
pub struct W6NoCloneBound;
