#!/bin/sh
# Builds the fact extractor and pre-checks stretto's dependencies for the three analysed
# configurations into /verif/.cache/target (offline; nothing is written under /repo).
set -e
cd "$(dirname "$0")"
export CARGO_NET_OFFLINE=true
(cd driver && cargo +nightly build --release --offline)
python3 engine/factsrun.py default async full
