//! Positive fixtures for the zero-expected rules: tiny functions that contain exactly the shapes
//! those rules must report.  The engine analyses this crate with the same extractor on every
//! run and fails closed if a matcher no longer fires here (a rule matching zero sites must never
//! pass vacuously).  Nothing in here is ever executed.
#![allow(dead_code, clippy::all)]
use std::sync::mpsc::{channel, Receiver, Sender};
use std::sync::{Mutex, RwLock};

pub struct Pair {
    pub a: Mutex<u64>,
    pub b: RwLock<u64>,
    pub tx: Sender<u64>,
    pub rx: Receiver<u64>,
}

/// R08.3 / R10.3: leak and duplication primitives.
pub fn leak_and_dup(v: String, w: String) -> String {
    let copy = unsafe { std::ptr::read(&v) };
    std::mem::forget(v);
    let _hidden = std::mem::ManuallyDrop::new(w);
    copy
}

/// R20.4: lock-order cycle a -> b and b -> a.
pub fn lock_ab(p: &Pair) -> u64 {
    let ga = p.a.lock().unwrap();
    let gb = p.b.read().unwrap();
    *ga + *gb
}

pub fn lock_ba(p: &Pair) -> u64 {
    let gb = p.b.write().unwrap();
    let ga = p.a.lock().unwrap();
    *ga + *gb
}

/// R10.5: blocking receive while a lock is held.
pub fn recv_under_lock(p: &Pair) -> u64 {
    let ga = p.a.lock().unwrap();
    let x = p.rx.recv().unwrap();
    *ga + x
}

pub fn make() -> Pair {
    let (tx, rx) = channel();
    Pair { a: Mutex::new(0), b: RwLock::new(0), tx, rx }
}

/// R12.4 / R20.2: unwrap of a constructible Err and an unbounded index.
pub fn fallible(x: u64) -> Result<u64, String> {
    if x == 0 {
        return Err("zero".to_string());
    }
    Ok(x)
}

pub fn unwraps(x: u64, v: &[u8; 4]) -> u64 {
    fallible(x).unwrap() + v[(x % 7) as usize] as u64
}
